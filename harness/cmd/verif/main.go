// Command verif runs the go-mail property checks. Invoked through /verif/run.
package main

import (
	"encoding/json"
	"fmt"
	"os"

	_ "verif/checks"
	"verif/vf"
)

func main() {
	if len(os.Args) < 2 {
		fmt.Fprintln(os.Stderr, "usage: verif check <ID> quick|thorough | replay <file> | selftest | list")
		os.Exit(2)
	}
	switch os.Args[1] {
	case "list":
		for _, id := range vf.IDs() {
			fmt.Println(id, vf.Lookup(id).Title)
		}
	case "racepass":
		n := 30
		if len(os.Args) > 2 {
			fmt.Sscan(os.Args[2], &n)
		}
		if vf.RacePassHook == nil {
			os.Exit(2)
		}
		os.Exit(vf.RacePassHook(n))
	case "selftest":
		if err := vf.RunSelfTests(); err != nil {
			fmt.Fprintln(os.Stderr, "selftest failed:", err)
			os.Exit(2)
		}
		fmt.Println("selftest ok")
	case "check":
		if len(os.Args) < 4 {
			fmt.Fprintln(os.Stderr, "usage: verif check <ID> quick|thorough")
			os.Exit(2)
		}
		c := vf.Lookup(os.Args[2])
		if c == nil {
			fmt.Fprintln(os.Stderr, "unknown property", os.Args[2])
			os.Exit(2)
		}
		tier := os.Args[3]
		if tier != "quick" && tier != "thorough" {
			fmt.Fprintln(os.Stderr, "tier must be quick or thorough")
			os.Exit(2)
		}
		if err := vf.RunSelfTests(); err != nil {
			fmt.Fprintln(os.Stderr, "selftest failed:", err)
			os.Exit(2)
		}
		r := vf.NewRun(c.ID, tier)
		r.Args = os.Args[4:]
		if p, w := vf.Guard(func() { c.Run(r) }); p {
			r.StrayPanic("main goroutine", w)
		}
		os.Exit(r.Finish("model_checking"))
	case "replay":
		if len(os.Args) < 3 {
			os.Exit(2)
		}
		b, err := os.ReadFile(os.Args[2])
		if err != nil {
			fmt.Fprintln(os.Stderr, err)
			os.Exit(2)
		}
		var doc struct {
			Property string          `json:"property"`
			Key      string          `json:"key"`
			What     string          `json:"what"`
			Case     json.RawMessage `json:"case"`
		}
		if err := json.Unmarshal(b, &doc); err != nil {
			fmt.Fprintln(os.Stderr, err)
			os.Exit(2)
		}
		c := vf.Lookup(doc.Property)
		if c == nil || c.Replay == nil {
			fmt.Fprintln(os.Stderr, "no replay for property", doc.Property)
			os.Exit(2)
		}
		r := vf.NewRun(c.ID, "quick")
		r.Replaying = true
		fmt.Printf("replaying %s key=%s\n  recorded: %s\n", doc.Property, doc.Key, doc.What)
		c.Replay(r, doc.Case)
		os.Exit(r.Finish("model_checking"))
	default:
		fmt.Fprintln(os.Stderr, "unknown command", os.Args[1])
		os.Exit(2)
	}
}
