package vf

import (
	"encoding/json"
	"fmt"
	"os"
	"os/exec"
	"strconv"
	"strings"
	"sync"
)

// Sharding by process: checks that use a process-global seam (map-iteration start, cooperative scheduler)
// cannot use goroutine workers. The parent re-executes itself n times with VERIF_SHARD=i/n; each child runs
// the same check on its slice of the case list (Mine) and hands its bookkeeping back as JSON.

type shardResult struct {
	Evals      int64                  `json:"evals"`
	Traces     int64                  `json:"traces"`
	Distinct   []uint64               `json:"distinct"`
	States     []uint64               `json:"states"`
	Trans      []uint64               `json:"trans"`
	Outcomes   map[string]int64       `json:"outcomes"`
	Samples    []interface{}          `json:"samples"`
	Viol       []*violation           `json:"viol"`
	Counts     map[string]int         `json:"counts"`
	Incomplete []string               `json:"incomplete"`
	HarnessErr []string               `json:"harness_err"`
	Extra      map[string]interface{} `json:"extra"`
}

// ShardInfo returns (i, n) when this process is a shard child, else (0, 1).
func (r *Run) ShardInfo() (int, int) {
	v := os.Getenv("VERIF_SHARD")
	if v == "" {
		return 0, 1
	}
	f := strings.Split(v, "/")
	i, _ := strconv.Atoi(f[0])
	n, _ := strconv.Atoi(f[1])
	if n <= 0 {
		return 0, 1
	}
	return i, n
}

// Mine reports whether case index idx belongs to this process.
func (r *Run) Mine(idx int) bool {
	i, n := r.ShardInfo()
	return idx%n == i
}

// IsShardChild reports whether this process is a child.
func (r *Run) IsShardChild() bool { return os.Getenv("VERIF_SHARD") != "" }

// Fork runs the current check in n child processes and merges their results into r. It returns true in the
// parent (work done) and false in a child (caller proceeds with its slice).
func (r *Run) Fork(n int) bool {
	if r.IsShardChild() || r.Replaying {
		return false
	}
	if n < 1 {
		n = 1
	}
	exe, err := os.Executable()
	if err != nil {
		r.HarnessError("fork: %v", err)
		return true
	}
	var wg sync.WaitGroup
	results := make([]*shardResult, n)
	dir := os.Getenv("VERIF_WORK")
	if dir == "" {
		dir = os.TempDir()
	}
	for i := 0; i < n; i++ {
		wg.Add(1)
		go func(i int) {
			defer wg.Done()
			out := fmt.Sprintf("%s/shard-%s-%d-%d.json", dir, r.ID, os.Getpid(), i)
			defer os.Remove(out)
			args := append([]string{"check", r.ID, r.Tier}, r.Args...)
			cmd := exec.Command(exe, args...)
			cmd.Env = append(os.Environ(), fmt.Sprintf("VERIF_SHARD=%d/%d", i, n), "VERIF_SHARD_OUT="+out, fmt.Sprintf("GOMAXPROCS=%d", r.childProcs()))
			cmd.Stderr = os.Stderr
			if b, err := cmd.Output(); err != nil {
				r.HarnessError("shard %d/%d failed: %v\n%s", i, n, err, clipS(string(b), 2000))
				return
			}
			b, err := os.ReadFile(out)
			if err != nil {
				r.HarnessError("shard %d/%d wrote no result: %v", i, n, err)
				return
			}
			var sr shardResult
			if err := json.Unmarshal(b, &sr); err != nil {
				r.HarnessError("shard %d/%d result: %v", i, n, err)
				return
			}
			results[i] = &sr
		}(i)
	}
	wg.Wait()
	r.mu.Lock()
	defer r.mu.Unlock()
	for _, sr := range results {
		if sr == nil {
			continue
		}
		r.evals += sr.Evals
		r.traces += sr.Traces
		for _, x := range sr.Distinct {
			r.distinct[x] = struct{}{}
		}
		for _, x := range sr.States {
			r.states[x] = struct{}{}
		}
		for _, x := range sr.Trans {
			r.trans[x] = struct{}{}
		}
		for k, v := range sr.Outcomes {
			r.outcomes[k] += v
		}
		for _, s := range sr.Samples {
			if len(r.samples) < 12 {
				r.samples = append(r.samples, s)
			}
		}
		for _, v := range sr.Viol {
			v.Count = sr.Counts[v.Key]
			v.size = len(v.Case)
			if old, ok := r.viol[v.Key]; ok {
				old.Count += v.Count
				if v.size < old.size {
					old.Case, old.What, old.size = v.Case, v.What, v.size
				}
			} else {
				r.viol[v.Key] = v
			}
		}
		for _, s := range sr.Incomplete {
			dup := false
			for _, x := range r.incomplete {
				dup = dup || x == s
			}
			if !dup {
				r.incomplete = append(r.incomplete, s)
			}
		}
		r.harnessErr = append(r.harnessErr, sr.HarnessErr...)
		for k, v := range sr.Extra {
			if f, ok := v.(float64); ok {
				cur, _ := r.extra[k].(int64)
				r.extra[k] = cur + int64(f)
			} else if _, ok := r.extra[k]; !ok {
				r.extra[k] = v
			}
		}
	}
	r.extra["worker_processes"] = n
	return true
}

func clipS(s string, n int) string {
	if len(s) > n {
		return s[:n]
	}
	return s
}

// finishShard writes the child's bookkeeping for the parent.
func (r *Run) finishShard() int {
	r.mu.Lock()
	defer r.mu.Unlock()
	sr := shardResult{Evals: r.evals, Traces: r.traces, Outcomes: r.outcomes, Samples: r.samples, Counts: map[string]int{},
		Incomplete: r.incomplete, HarnessErr: r.harnessErr, Extra: map[string]interface{}{}}
	for k := range r.distinct {
		sr.Distinct = append(sr.Distinct, k)
	}
	for k := range r.states {
		sr.States = append(sr.States, k)
	}
	for k := range r.trans {
		sr.Trans = append(sr.Trans, k)
	}
	for k, v := range r.viol {
		sr.Viol = append(sr.Viol, v)
		sr.Counts[k] = v.Count
	}
	for k, v := range r.extra {
		sr.Extra[k] = v
	}
	b, err := json.Marshal(sr)
	if err != nil {
		fmt.Fprintln(os.Stderr, "shard marshal:", err)
		return 2
	}
	if err := os.WriteFile(os.Getenv("VERIF_SHARD_OUT"), b, 0o644); err != nil {
		fmt.Fprintln(os.Stderr, "shard write:", err)
		return 2
	}
	return 0
}

func (r *Run) childProcs() int {
	if r.ChildGOMAXPROCS > 0 {
		return r.ChildGOMAXPROCS
	}
	return 2
}
