package vf

import "fmt"

var selfTests []struct {
	name string
	f    func() error
}

// AddSelfTest registers a validation of a harness component (reference implementations against
// published vectors, parser round trips). A failing self-test makes every check exit 2.
func AddSelfTest(name string, f func() error) {
	selfTests = append(selfTests, struct {
		name string
		f    func() error
	}{name, f})
}

func RunSelfTests() error {
	for _, t := range selfTests {
		if err := t.f(); err != nil {
			return fmt.Errorf("%s: %w", t.name, err)
		}
	}
	return nil
}

// RacePassHook is set by the C13 check: the free-running pass executed by the -race binary.
var RacePassHook func(iterations int) int
