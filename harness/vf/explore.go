package vf

import (
	"fmt"
	"strings"
	"sync"
	"sync/atomic"
)

// Chooser answers the choice points of one execution: it replays a prefix and answers 0 (the benign
// default) afterwards. Engine E1 — deviation-bounded stateless exploration.
type Chooser struct {
	prefix []int
	Picks  []int    // choice taken at each point
	Ns     []int    // number of alternatives at each point
	Labels []string // label of each point
	Costs  []int    // deviation cost of alternatives >0 at each point (default 1)
	Bad    string   // replay divergence, if any
}

func NewChooser(prefix []int) *Chooser { return &Chooser{prefix: prefix} }

// Choose returns a value in [0,n). 0 is the default environment answer.
func (c *Chooser) Choose(label string, n int) int { return c.ChooseCost(label, n, 1) }

// ChooseCost is Choose with an explicit deviation cost for the non-default alternatives.
func (c *Chooser) ChooseCost(label string, n int, cost int) int {
	if n <= 0 {
		n = 1
	}
	i := len(c.Picks)
	pick := 0
	if i < len(c.prefix) {
		pick = c.prefix[i]
		if pick >= n || pick < 0 {
			if c.Bad == "" {
				c.Bad = fmt.Sprintf("choice %d at point %d (%s) out of range %d", pick, i, label, n)
			}
			pick = 0
		}
	}
	c.Picks = append(c.Picks, pick)
	c.Ns = append(c.Ns, n)
	c.Labels = append(c.Labels, label)
	c.Costs = append(c.Costs, cost)
	return pick
}

// Deviations is the summed cost of non-default picks so far.
func (c *Chooser) Deviations() int {
	d := 0
	for i, p := range c.Picks {
		if p != 0 {
			d += c.Costs[i]
		}
	}
	return d
}

// Describe renders the non-default choices, e.g. "reply@MAIL#2=5yz, reply@QUIT=drop".
func (c *Chooser) Describe(names func(label string, pick int) string) string {
	var s []string
	for i, p := range c.Picks {
		if p != 0 {
			if names != nil {
				s = append(s, names(c.Labels[i], p))
			} else {
				s = append(s, fmt.Sprintf("%s=%d", c.Labels[i], p))
			}
		}
	}
	if len(s) == 0 {
		return "(all default)"
	}
	return strings.Join(s, ", ")
}

// Explore runs scenario on every choice vector with at most bound deviations. scenario must be a
// deterministic function of the Chooser's answers. Returns the number of executions.
// The space is a tree: a vector's children replace one default answer *after* its own last fixed position by an
// alternative, so every vector with <= bound deviations is visited exactly once.
func Explore(r *Run, bound int, what string, scenario func(c *Chooser)) int64 {
	return ExploreN(r, r.Workers, bound, what, scenario)
}

// ExploreN is Explore on a given number of goroutines (1 = sequential DFS in this goroutine's stead).
func ExploreN(r *Run, workers, bound int, what string, scenario func(c *Chooser)) int64 {
	type job struct{ prefix []int }
	var (
		mu      sync.Mutex
		stack   []job
		pending int64
		execs   int64
		cut     int32
		cond    = sync.NewCond(&mu)
	)
	stack = append(stack, job{nil})
	pending = 1
	var wg sync.WaitGroup
	for w := 0; w < workers; w++ {
		wg.Add(1)
		go func() {
			defer wg.Done()
			for {
				mu.Lock()
				for len(stack) == 0 && pending > 0 {
					cond.Wait()
				}
				if pending == 0 {
					mu.Unlock()
					cond.Broadcast()
					return
				}
				j := stack[len(stack)-1]
				stack = stack[:len(stack)-1]
				mu.Unlock()

				var kids []job
				if atomic.LoadInt32(&cut) == 0 {
					if r.OverBudget() {
						atomic.StoreInt32(&cut, 1)
					} else {
						c := NewChooser(j.prefix)
						scenario(c)
						atomic.AddInt64(&execs, 1)
						if c.Bad != "" {
							r.HarnessError("replay divergence in %s: %s (prefix %v)", what, c.Bad, j.prefix)
						} else {
							dev := 0
							for i := 0; i < len(j.prefix) && i < len(c.Picks); i++ {
								if c.Picks[i] != 0 {
									dev += c.Costs[i]
								}
							}
							for i := len(j.prefix); i < len(c.Picks); i++ {
								if dev+c.Costs[i] > bound {
									continue
								}
								for alt := 1; alt < c.Ns[i]; alt++ {
									p := make([]int, i+1)
									copy(p, c.Picks[:i])
									p[i] = alt
									kids = append(kids, job{p})
								}
							}
						}
					}
				}
				mu.Lock()
				stack = append(stack, kids...)
				pending += int64(len(kids)) - 1
				mu.Unlock()
				cond.Broadcast()
			}
		}()
	}
	wg.Wait()
	if cut != 0 {
		r.Incomplete(fmt.Sprintf("time budget reached while exploring %s at deviation bound %d", what, bound))
	}
	return execs
}
