package vf

import (
	"fmt"
	"strings"
	"sync"
	"sync/atomic"
)

// Chooser answers the choice points of one execution: it replays a prefix and answers 0 (the benign
// default) afterwards. Engine E1 — deviation-bounded stateless exploration.
type Chooser struct {
	prefix []int
	Picks  []int    // choice taken at each point
	Ns     []int    // number of alternatives at each point
	Labels []string // label of each point
	Costs  []int    // deviation cost of alternatives >0 at each point (default 1)
	Bad    string   // replay divergence, if any
	Silent bool     // the scenario should not report this execution (duplicate root run of a shard)
}

func NewChooser(prefix []int) *Chooser { return &Chooser{prefix: prefix} }

// Choose returns a value in [0,n). 0 is the default environment answer.
func (c *Chooser) Choose(label string, n int) int { return c.ChooseCost(label, n, 1) }

// ChooseCost is Choose with an explicit deviation cost for the non-default alternatives.
func (c *Chooser) ChooseCost(label string, n int, cost int) int {
	if n <= 0 {
		n = 1
	}
	i := len(c.Picks)
	pick := 0
	if i < len(c.prefix) {
		pick = c.prefix[i]
		if pick >= n || pick < 0 {
			if c.Bad == "" {
				c.Bad = fmt.Sprintf("choice %d at point %d (%s) out of range %d", pick, i, label, n)
			}
			pick = 0
		}
	}
	c.Picks = append(c.Picks, pick)
	c.Ns = append(c.Ns, n)
	c.Labels = append(c.Labels, label)
	c.Costs = append(c.Costs, cost)
	return pick
}

// Deviations is the summed cost of non-default picks so far.
func (c *Chooser) Deviations() int {
	d := 0
	for i, p := range c.Picks {
		if p != 0 {
			d += c.Costs[i]
		}
	}
	return d
}

// Describe renders the non-default choices, e.g. "reply@MAIL#2=5yz, reply@QUIT=drop".
func (c *Chooser) Describe(names func(label string, pick int) string) string {
	var s []string
	for i, p := range c.Picks {
		if p != 0 {
			if names != nil {
				s = append(s, names(c.Labels[i], p))
			} else {
				s = append(s, fmt.Sprintf("%s=%d", c.Labels[i], p))
			}
		}
	}
	if len(s) == 0 {
		return "(all default)"
	}
	return strings.Join(s, ", ")
}

// Explore runs scenario on every choice vector with at most bound deviations. scenario must be a
// deterministic function of the Chooser's answers. Returns the number of executions.
// The space is a tree: a vector's children replace one default answer *after* its own last fixed position by an
// alternative, so every vector with <= bound deviations is visited exactly once.
func Explore(r *Run, bound int, what string, scenario func(c *Chooser)) int64 {
	return ExploreN(r, r.Workers, bound, what, scenario)
}

// ExploreN is Explore on a given number of goroutines (1 = sequential DFS in this goroutine's stead).
func ExploreN(r *Run, workers, bound int, what string, scenario func(c *Chooser)) int64 {
	return exploreImpl(r, workers, bound, what, 0, 1, scenario)
}

// ExploreShard explores, sequentially, the part of the tree that belongs to shard i of n (see exploreImpl). The
// union over all shards is exactly the tree ExploreN visits; used when a process-global seam forbids goroutine
// workers. Executions with Chooser.Silent set are duplicates that another shard reports.
func ExploreShard(r *Run, bound int, what string, i, n int, scenario func(c *Chooser)) int64 {
	return exploreImpl(r, 1, bound, what, i, n, scenario)
}

func exploreImpl(r *Run, workers, bound int, what string, shardI, shardN int, scenario func(c *Chooser)) int64 {
	// Sharding: nodes with fewer than two non-default picks are executed by every shard but reported only by
	// the shard that owns them (hash of the prefix); a node with two non-default picks — and its whole subtree —
	// belongs to exactly one shard. This balances the load far better than cutting at the root.
	const shardDepth = 2
	type job struct {
		prefix []int
		owned  bool
	}
	owner := func(p []int) int {
		h := uint64(1469598103934665603)
		for i, x := range p {
			if x != 0 {
				h ^= uint64(i)*1099511628211 + uint64(x)
				h *= 1099511628211
			}
		}
		return int(h % uint64(shardN))
	}
	nz := func(p []int) int {
		n := 0
		for _, x := range p {
			if x != 0 {
				n++
			}
		}
		return n
	}
	var (
		mu      sync.Mutex
		stack   []job
		pending int64
		execs   int64
		cut     int32
		cond    = sync.NewCond(&mu)
	)
	stack = append(stack, job{nil, shardN <= 1})
	pending = 1
	var wg sync.WaitGroup
	for w := 0; w < workers; w++ {
		wg.Add(1)
		go func() {
			defer wg.Done()
			for {
				mu.Lock()
				for len(stack) == 0 && pending > 0 {
					cond.Wait()
				}
				if pending == 0 {
					mu.Unlock()
					cond.Broadcast()
					return
				}
				j := stack[len(stack)-1]
				stack = stack[:len(stack)-1]
				mu.Unlock()

				var kids []job
				if atomic.LoadInt32(&cut) == 0 {
					if r.OverBudget() {
						atomic.StoreInt32(&cut, 1)
					} else {
						c := NewChooser(j.prefix)
						if !j.owned && owner(j.prefix) != shardI {
							c.Silent = true // executed only to find the children; reported by the owning shard
						}
						if p, w := Guard(func() { scenario(c) }); p {
							r.StrayPanic(fmt.Sprintf("%s, choices %v", what, c.Picks), w)
						}
						if !c.Silent {
							atomic.AddInt64(&execs, 1)
						}
						if c.Bad != "" {
							r.HarnessError("replay divergence in %s: %s (prefix %v)", what, c.Bad, j.prefix)
						} else {
							dev := 0
							for i := 0; i < len(j.prefix) && i < len(c.Picks); i++ {
								if c.Picks[i] != 0 {
									dev += c.Costs[i]
								}
							}
							depth := nz(j.prefix)
							for i := len(j.prefix); i < len(c.Picks); i++ {
								if dev+c.Costs[i] > bound {
									continue
								}
								for alt := 1; alt < c.Ns[i]; alt++ {
									p := make([]int, i+1)
									copy(p, c.Picks[:i])
									p[i] = alt
									kid := job{p, j.owned}
									if !j.owned && depth+1 >= shardDepth {
										if owner(p) != shardI {
											continue
										}
										kid.owned = true
									}
									kids = append(kids, kid)
								}
							}
						}
					}
				}
				mu.Lock()
				stack = append(stack, kids...)
				pending += int64(len(kids)) - 1
				mu.Unlock()
				cond.Broadcast()
			}
		}()
	}
	wg.Wait()
	if cut != 0 {
		r.Incomplete(fmt.Sprintf("time budget reached while exploring %s at deviation bound %d", what, bound))
	}
	return execs
}
