// Package vf is the framework shared by all checks: run bookkeeping, evidence, violation protocol,
// known findings, replay files and the deviation-bounded explorer (engine E1).
package vf

import (
	"crypto/sha256"
	"encoding/hex"
	"encoding/json"
	"fmt"
	"hash/fnv"
	"os"
	"path/filepath"
	"runtime"
	"sort"
	"strconv"
	"strings"
	"sync"
	"sync/atomic"
	"time"
)

// Check is one registered property check.
type Check struct {
	ID     string
	Title  string
	Run    func(r *Run)
	Replay func(r *Run, kase json.RawMessage) // re-executes one saved case; reports through r
}

var registry = map[string]*Check{}

func Register(c *Check)       { registry[c.ID] = c }
func Lookup(id string) *Check { return registry[id] }
func IDs() []string {
	var ids []string
	for k := range registry {
		ids = append(ids, k)
	}
	sort.Strings(ids)
	return ids
}

type violation struct {
	Key   string          `json:"key"`
	What  string          `json:"what"`
	Case  json.RawMessage `json:"case"`
	Count int             `json:"-"`
	size  int
}

// Run carries the state of one check invocation.
type Run struct {
	ID        string
	Tier      string
	Seed      int
	Thorough  bool
	Workers   int
	Dir       string // /verif
	Start     time.Time
	Deadline  time.Time // internal budget; passing it ends enumeration with exhaustive=false
	Replaying bool
	Args      []string
	// ChildGOMAXPROCS is the GOMAXPROCS of shard children (default 2; the cooperative scheduler wants 1)
	ChildGOMAXPROCS int

	evals      int64
	traces     int64
	mu         sync.Mutex
	distinct   map[uint64]struct{}
	states     map[uint64]struct{}
	trans      map[uint64]struct{}
	outcomes   map[string]int64
	samples    []interface{}
	viol       map[string]*violation
	assume     []string
	extra      map[string]interface{}
	rule       string
	incomplete []string
	harnessErr []string
}

func NewRun(id, tier string) *Run {
	seed, _ := strconv.Atoi(os.Getenv("VERIF_SEED"))
	dir := os.Getenv("VERIF_DIR")
	if dir == "" {
		dir = "/verif"
	}
	w := runtime.NumCPU()
	if v, err := strconv.Atoi(os.Getenv("VERIF_WORKERS")); err == nil && v > 0 {
		w = v
	}
	r := &Run{
		ID: id, Tier: tier, Seed: seed, Thorough: tier == "thorough", Workers: w, Dir: dir, Start: time.Now(),
		distinct: map[uint64]struct{}{}, states: map[uint64]struct{}{}, trans: map[uint64]struct{}{},
		outcomes: map[string]int64{}, viol: map[string]*violation{}, extra: map[string]interface{}{},
	}
	budget := 240 * time.Second
	if r.Thorough {
		budget = 50 * time.Minute
	}
	if v, err := time.ParseDuration(os.Getenv("VERIF_BUDGET")); err == nil && v > 0 {
		budget = v
	}
	r.Deadline = r.Start.Add(budget)
	return r
}

// OverBudget reports whether the internal time budget is used up. Enumerators poll it between cases;
// when it fires the run is recorded as not exhaustive and still exits 0 if nothing was violated.
func (r *Run) OverBudget() bool { return time.Now().After(r.Deadline) }

func (r *Run) Incomplete(what string) {
	r.mu.Lock()
	defer r.mu.Unlock()
	for _, s := range r.incomplete {
		if s == what {
			return
		}
	}
	r.incomplete = append(r.incomplete, what)
}

func Hash(parts ...string) uint64 {
	h := fnv.New64a()
	for _, p := range parts {
		h.Write([]byte(p))
		h.Write([]byte{0})
	}
	return h.Sum64()
}

// Eval counts one executed case. fp is the fingerprint that decides distinctness; nontrivial says whether
// the case exercised the property (by the rule stated with SetRule).
func (r *Run) Eval(fp uint64, nontrivial bool) {
	atomic.AddInt64(&r.evals, 1)
	if nontrivial {
		r.mu.Lock()
		r.distinct[fp] = struct{}{}
		r.mu.Unlock()
	}
}

func (r *Run) Evals() int64 { return atomic.LoadInt64(&r.evals) }

// TraceValidated counts an execution in which a reference model was run in lock-step with the implementation.
func (r *Run) TraceValidated() { atomic.AddInt64(&r.traces, 1) }

func (r *Run) State(fp uint64) {
	r.mu.Lock()
	r.states[fp] = struct{}{}
	r.mu.Unlock()
}

func (r *Run) Transition(from uint64, label string, to uint64) {
	t := Hash(strconv.FormatUint(from, 16), label, strconv.FormatUint(to, 16))
	r.mu.Lock()
	r.states[from] = struct{}{}
	r.states[to] = struct{}{}
	r.trans[t] = struct{}{}
	r.mu.Unlock()
}

// StatesBatch merges per-execution state/transition sets (cheaper than locking per step).
func (r *Run) StatesBatch(states, trans []uint64) {
	r.mu.Lock()
	for _, s := range states {
		r.states[s] = struct{}{}
	}
	for _, t := range trans {
		r.trans[t] = struct{}{}
	}
	r.mu.Unlock()
}

func (r *Run) Outcome(name string) {
	r.mu.Lock()
	r.outcomes[name]++
	r.mu.Unlock()
}

// OutcomeCount returns how often an outcome was recorded.
func (r *Run) OutcomeCount(name string) int {
	r.mu.Lock()
	defer r.mu.Unlock()
	return int(r.outcomes[name])
}

// Reached is the vacuity guard of a check: the named outcomes stand for the situations its alphabet is meant to
// produce; if one of them was never recorded in a complete run the exploration did not reach what it claims to
// cover, which is a defect of the harness (exit 2), never a pass.
func (r *Run) Reached(names ...string) {
	if r.Replaying || len(r.incomplete) > 0 || r.IsShardChild() {
		return
	}
	for _, n := range names {
		if r.OutcomeCount(n) == 0 {
			r.HarnessError("vacuity guard: outcome %q was never reached", n)
		}
	}
}

func (r *Run) Sample(s interface{}) {
	r.mu.Lock()
	if len(r.samples) < 12 {
		r.samples = append(r.samples, s)
	}
	r.mu.Unlock()
}

func (r *Run) NSamples() int { r.mu.Lock(); defer r.mu.Unlock(); return len(r.samples) }

func (r *Run) Assume(s ...string) { r.mu.Lock(); r.assume = append(r.assume, s...); r.mu.Unlock() }
func (r *Run) SetRule(s string)   { r.rule = s }
func (r *Run) Extra(k string, v interface{}) {
	r.mu.Lock()
	r.extra[k] = v
	r.mu.Unlock()
}
func (r *Run) AddExtra(k string, n int64) {
	r.mu.Lock()
	cur, _ := r.extra[k].(int64)
	r.extra[k] = cur + n
	r.mu.Unlock()
}

// HarnessError records a problem of the machinery itself (nondeterminism, replay divergence, failed
// self-test). It makes the run exit 2; it is never reported as a violation.
func (r *Run) HarnessError(format string, a ...interface{}) {
	r.mu.Lock()
	r.harnessErr = append(r.harnessErr, fmt.Sprintf(format, a...))
	r.mu.Unlock()
}

// Violation records a failing case under a finding key. kase must be JSON-serialisable and sufficient for
// the check's Replay. recheck (may be nil) re-executes the case and returns the key it fails with ("" = passes);
// it is called 4 more times and any disagreement is a harness error, not a violation.
func (r *Run) Violation(key, what string, kase interface{}, recheck func() string) {
	r.mu.Lock()
	if v, ok := r.viol[key]; ok {
		v.Count++
		b, _ := json.Marshal(kase)
		if len(b) < v.size { // keep the smallest witness
			v.Case, v.What, v.size = b, what, len(b)
		}
		r.mu.Unlock()
		return
	}
	b, err := json.Marshal(kase)
	if err != nil {
		b, _ = json.Marshal(fmt.Sprintf("%#v", kase))
	}
	v := &violation{Key: key, What: what, Case: b, Count: 1, size: len(b)}
	r.viol[key] = v
	r.mu.Unlock()
	if recheck != nil && !r.Replaying {
		same, other := 0, ""
		for i := 0; i < 4; i++ {
			if k := recheck(); k == key {
				same++
			} else {
				other = k
			}
		}
		switch {
		case same == 4:
			// the same case fails every time: a violation
		case same == 0 && other == "":
			// The recorded case passes in all four re-executions: the first verdict came from something outside the case
			// (the one thing the harness does not own is the wall clock behind connection deadlines: a machine that is
			// suspended for longer than the client's timeout makes one in-flight dialogue time out). It is not reported
			// as a violation; the evidence file counts it.
			r.mu.Lock()
			delete(r.viol, key)
			r.mu.Unlock()
			r.AddExtra("first_verdicts_not_reproduced_in_4_reexecutions", 1)
			fmt.Printf("UNREPRODUCED: %s failed once and passed in 4 re-executions of the same case (%s)\n", key, clip(what, 300))
		default:
			r.HarnessError("nondeterministic verdict for key %q: %d of 4 re-executions agree, another verdict was %q (%s)", key, same, other, what)
			r.mu.Lock()
			delete(r.viol, key)
			r.mu.Unlock()
		}
	}
}

func (r *Run) NViolations() int { r.mu.Lock(); defer r.mu.Unlock(); return len(r.viol) }

type finding struct{ kind, prop, key, text string }

func loadFindings(dir string) []finding {
	b, err := os.ReadFile(filepath.Join(dir, "findings", "known.txt"))
	if err != nil {
		return nil
	}
	var out []finding
	for _, ln := range strings.Split(string(b), "\n") {
		ln = strings.TrimSpace(ln)
		if ln == "" || strings.HasPrefix(ln, "#") {
			continue
		}
		var f finding
		switch {
		case strings.HasPrefix(ln, "known:"):
			f.kind = "known"
			ln = strings.TrimSpace(ln[6:])
		case strings.HasPrefix(ln, "fixed:"):
			f.kind = "fixed"
			ln = strings.TrimSpace(ln[6:])
		default:
			continue
		}
		for _, tok := range strings.Fields(ln) {
			if strings.HasPrefix(tok, "property=") && f.prop == "" {
				f.prop = tok[9:]
			} else if strings.HasPrefix(tok, "key=") && f.key == "" {
				f.key = tok[4:]
			}
		}
		if i := strings.Index(ln, "key="+f.key); f.key != "" && i >= 0 {
			f.text = strings.TrimSpace(ln[i+4+len(f.key):])
		} else {
			f.text = ln
		}
		out = append(out, f)
	}
	return out
}

// Finish writes the evidence file, prints KNOWN-FINDING / VIOLATION lines and returns the exit code.
func (r *Run) Finish(level string) int {
	if r.IsShardChild() {
		return r.finishShard()
	}
	r.mu.Lock()
	defer r.mu.Unlock()
	known := map[string]string{}
	for _, f := range loadFindings(r.Dir) {
		if f.kind == "known" && f.prop == r.ID {
			known[f.key] = f.text
		}
	}
	keys := make([]string, 0, len(r.viol))
	for k := range r.viol {
		keys = append(keys, k)
	}
	sort.Strings(keys)
	nUnknown, nKnown := 0, 0
	var knownSeen []string
	for _, k := range keys {
		v := r.viol[k]
		if txt, ok := known[k]; ok {
			nKnown++
			knownSeen = append(knownSeen, k)
			fmt.Printf("KNOWN-FINDING: property=%s key=%s %s (seen %d×)\n", r.ID, k, txt, v.Count)
			continue
		}
		nUnknown++
		sum := sha256.Sum256([]byte(k))
		p := filepath.Join(outDir(r.Dir), "replays", r.ID, hex.EncodeToString(sum[:6])+".json")
		_ = os.MkdirAll(filepath.Dir(p), 0o755)
		doc := map[string]interface{}{"property": r.ID, "key": k, "what": v.What, "case": v.Case, "count": v.Count}
		b, _ := json.MarshalIndent(doc, "", " ")
		_ = os.WriteFile(p, b, 0o644)
		fmt.Printf("  detail: key=%s  %s  (%d case(s))\n", k, v.What, v.Count)
		fmt.Printf("VIOLATION property=%s replay=%s\n", r.ID, p)
	}
	var knownMissing []string
	for k := range known {
		if _, ok := r.viol[k]; !ok {
			knownMissing = append(knownMissing, k)
		}
	}
	sort.Strings(knownMissing)
	exhaustive := len(r.incomplete) == 0
	cov := map[string]interface{}{
		"evaluations":                   r.evals,
		"distinct_nontrivial":           len(r.distinct),
		"rule":                          r.rule,
		"samples":                       r.samples,
		"states":                        len(r.states),
		"transitions":                   len(r.trans),
		"traces_validated_against_impl": r.traces,
		"exhaustive":                    exhaustive,
		"distinct_outcomes":             r.outcomes,
	}
	if !exhaustive {
		cov["incomplete"] = r.incomplete
	}
	if len(knownSeen) > 0 {
		cov["known_findings_reproduced"] = knownSeen
	}
	if len(knownMissing) > 0 {
		cov["known_findings_not_reached_by_this_tier"] = knownMissing
	}
	for k, v := range r.extra {
		cov[k] = v
	}
	if r.samples == nil {
		cov["samples"] = []interface{}{}
	}
	ev := map[string]interface{}{
		"property_id": r.ID, "tier": r.Tier, "seed": r.Seed, "level": level, "coverage": cov,
		"assumptions": r.assume, "wall_s": float64(int(time.Since(r.Start).Seconds()*100)) / 100,
		"violations": nUnknown, "known_findings": nKnown,
	}
	if r.assume == nil {
		ev["assumptions"] = []string{}
	}
	if !r.Replaying {
		b, _ := json.MarshalIndent(ev, "", " ")
		p := filepath.Join(outDir(r.Dir), "evidence", r.ID+".json")
		_ = os.MkdirAll(filepath.Dir(p), 0o755)
		if err := os.WriteFile(p, append(b, '\n'), 0o644); err != nil {
			fmt.Fprintln(os.Stderr, "cannot write evidence:", err)
			return 2
		}
	}
	fmt.Printf("%s %s: evaluations=%d distinct=%d states=%d transitions=%d traces=%d exhaustive=%v violations=%d known=%d wall=%.1fs\n",
		r.ID, r.Tier, r.evals, len(r.distinct), len(r.states), len(r.trans), r.traces, exhaustive, nUnknown, nKnown, time.Since(r.Start).Seconds())
	if len(r.harnessErr) > 0 {
		for _, e := range r.harnessErr {
			fmt.Fprintln(os.Stderr, "HARNESS-ERROR:", e)
		}
		if nUnknown == 0 {
			return 2
		}
	}
	if nUnknown > 0 {
		return 1
	}
	return 0
}

// Parallel runs f(i) for i in [0,n) on r.Workers goroutines; stops handing out work when over budget
// (recording the run as incomplete).
func (r *Run) Parallel(n int, what string, f func(i int)) {
	var next int64 = -1
	var wg sync.WaitGroup
	w := r.Workers
	if w > n {
		w = n
	}
	var cut int32
	for k := 0; k < w; k++ {
		wg.Add(1)
		go func() {
			defer wg.Done()
			for {
				i := int(atomic.AddInt64(&next, 1))
				if i >= n {
					return
				}
				if r.OverBudget() {
					atomic.StoreInt32(&cut, 1)
					return
				}
				if p, w := Guard(func() { f(i) }); p {
					r.StrayPanic(fmt.Sprintf("%s, item %d", what, i), w)
				}
			}
		}()
	}
	wg.Wait()
	if cut != 0 {
		r.Incomplete("time budget reached during " + what)
	}
}

// StrayPanic is the safety net for a panic that escaped the guarded calls of a check: when it was raised inside
// go-mail it is a finding of the property under check (no entry point may panic), otherwise a defect of the harness.
func (r *Run) StrayPanic(where, stack string) {
	site := PanicSite(stack)
	first := stack
	if i := strings.Index(first, "\n"); i > 0 {
		first = first[:i]
	}
	if site == "unknown" {
		r.HarnessError("panic in the harness (%s): %s", where, stack)
		return
	}
	r.Violation("panic/"+site+"/outside-the-guarded-call", fmt.Sprintf("go-mail panicked in a preparatory step of the check (%s): %s", where, first),
		map[string]string{"where": where, "stack": stack}, nil)
}

// outDir is where evidence and replay files go: the verification directory, or — for experiments on deliberately
// broken copies of go-mail (mutant and seed runs), whose evidence must not replace the committed one — the
// directory named by VERIF_OUT_DIR.
func outDir(dir string) string {
	if o := os.Getenv("VERIF_OUT_DIR"); o != "" {
		return o
	}
	return dir
}

// Guard runs f and converts a panic into (true, description).
func Guard(f func()) (panicked bool, what string) {
	defer func() {
		if e := recover(); e != nil {
			panicked = true
			buf := make([]byte, 4096)
			buf = buf[:runtime.Stack(buf, false)]
			what = fmt.Sprintf("%v", e) + "\n" + string(buf)
		}
	}()
	f()
	return
}

// PanicSite extracts "file.go:line" of the first go-mail frame of a stack dump (finding keys stay stable
// under unrelated edits only approximately; the function name is used instead of the line number).
func PanicSite(stack string) string {
	lines := strings.Split(stack, "\n")
	for _, ln := range lines {
		ln = strings.TrimSpace(ln)
		if strings.HasPrefix(ln, "github.com/wneessen/go-mail") && !strings.Contains(ln, "verifshim") {
			if i := strings.LastIndex(ln, "("); i > 0 {
				ln = ln[:i]
			}
			ln = strings.TrimPrefix(ln, "github.com/wneessen/go-mail")
			return strings.TrimLeft(ln, "./")
		}
	}
	return "unknown"
}

// GuardTimeout is Guard with a bound on the time f may take: it runs f in its own goroutine and gives up waiting
// after d (the goroutine is abandoned). Used where the code under test could block on something no deadline
// covers (a mutex that is never released, a pipeline slot that is never freed) — that must be reported, not hang
// the check.
func GuardTimeout(d time.Duration, f func()) (panicked bool, what string, timedOut bool) {
	done := make(chan struct{})
	go func() {
		defer close(done)
		panicked, what = Guard(f)
	}()
	t := time.NewTimer(d)
	defer t.Stop()
	select {
	case <-done:
		return panicked, what, false
	case <-t.C:
		return false, "", true
	}
}

// CallTimeout is the bound used by the network checks for one client call against the synchronous fake server
// (which answers in microseconds).
const CallTimeout = 20 * time.Second

func clip(s string, n int) string {
	if len(s) > n {
		return s[:n] + "…"
	}
	return s
}
