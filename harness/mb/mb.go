// Package mb builds go-mail messages from JSON-serialisable specifications, so that every explored
// program can be saved and replayed. Content producers can be wrapped (fault injection, chunking).
package mb

import (
	"bytes"
	"crypto/tls"
	"fmt"
	ht "html/template"
	"io"
	"net/textproto"
	"strings"
	tt "text/template"

	mail "github.com/wneessen/go-mail"

	"verif/hx"
)

// Part is one body part (the first is the body, the others alternatives).
type Part struct {
	Type    string `json:"type"`              // "text/plain", "text/html"
	Content []byte `json:"content"`           // what the caller supplies
	Enc     string `json:"enc,omitempty"`     // "", "qp", "b64", "8bit" ("" = message encoding)
	Desc    string `json:"desc,omitempty"`    // WithPartContentDescription
	Charset string `json:"charset,omitempty"` // WithPartCharset
	Via     string `json:"via,omitempty"`     // "" = *Writer API, "string" = SetBodyString / AddAlternativeString, "setcontent" = created with a placeholder, then Part.SetContent; "tpl" = SetBody*Template / AddAlternative*Template (text/template for text/plain, html/template for text/html; the template is "{{.}}" and the data is the content)
	Deleted bool   `json:"deleted,omitempty"` // Part.Delete() is called after the part was added
}

// File is an embed or attachment.
type File struct {
	Name    string `json:"name"`
	Content []byte `json:"content"`
	Enc     string `json:"enc,omitempty"`  // "", "b64", "8bit", "qp" (qp is set through the File.Enc field: WithFileEncoding ignores it)
	Desc    string `json:"desc,omitempty"` // WithFileDescription
	CID     string `json:"cid,omitempty"`  // WithFileContentID
	CT      string `json:"ct,omitempty"`   // WithFileContentType
	// Source: "" = File struct with Writer; "reader@" / "readseeker@" = the same on a source that stands behind a header the caller has read already;
	// "readseeker+" = the read-seeker was attached to another Msg before, which was rendered once;
	// "reader" / "readseeker" = AttachReader / AttachReadSeeker on a private
	// *bytes.Reader; "buffer" = AttachReader on ONE *bytes.Buffer shared by all such files of the message, which the
	// caller refills for the next file and finally overwrites (the library documents that readers are consumed at
	// the call); memory handed to a consuming API is overwritten by Build before it returns
	Source string `json:"src,omitempty"`
}

// Msg is a complete builder program in canonical order.
type Msg struct {
	Enc      string      `json:"enc,omitempty"` // message encoding: "", "qp", "b64", "8bit", "usascii"
	Parts    []Part      `json:"parts,omitempty"`
	Embeds   []File      `json:"embeds,omitempty"`
	Attach   []File      `json:"attach,omitempty"`
	Boundary string      `json:"boundary,omitempty"`
	Subject  *string     `json:"subject,omitempty"`
	From     string      `json:"from,omitempty"` // "" = default sender; "-" = none
	To       []string    `json:"to,omitempty"`
	Cc       []string    `json:"cc,omitempty"`
	ReplyTo  string      `json:"replyto,omitempty"`
	Gen      [][2]string `json:"gen,omitempty"`      // SetGenHeader(name, value)
	GenEmpty []string    `json:"genempty,omitempty"` // SetGenHeader(name) with no values
	Preform  [][2]string `json:"preform,omitempty"`  // SetGenHeaderPreformatted
	ToIgnore []string    `json:"toignore,omitempty"` // ToIgnoreInvalid(list)
	SMIME    int         `json:"smime,omitempty"`    // 0 none, 1 RSA, 2 ECDSA P-256, 3 ECDSA P-384, 4 ECDSA P-521, 5 ECDSA P-256 with the same serial number as the intermediate
	Inter    bool        `json:"inter,omitempty"`    // with intermediate certificate
	// SignAPI: 0 SignWithKeypair; 1..3 SignWithTLSCertificate with a chain of that many certificates (leaf; leaf +
	// intermediate; leaf + intermediate + root) — Inter must be set for 2 and 3; 4 = chain of three with Leaf unset
	SignAPI int    `json:"signapi,omitempty"`
	NoDate  bool   `json:"nodate,omitempty"` // let go-mail generate Date / Message-ID on first use
	Charset string `json:"charset,omitempty"`
	NoUA    bool   `json:"noua,omitempty"`
	ReAdd   bool   `json:"readd,omitempty"` // files are added, removed with UnsetAll*, and added again
	// Recycle: history — the Msg object carried other content before: 1 = decoy content (headers, two body parts,
	// an attachment, an embed), then Reset(), then the content of this spec; 2 = the decoy was also rendered once
	// before the Reset (a Msg re-used in a loop)
	Recycle int `json:"recycle,omitempty"`
	// Grow: history — the message is rendered while it is still smaller and completed afterwards: 1 = rendered once
	// when only the body parts are there (embeds and attachments follow), 2 = additionally once more after the embeds
	Grow int `json:"grow,omitempty"`
	// MW: the message carries a Middleware (WithMiddleware) that is applied on every rendering: 1 = sets a generic
	// header only; 2 = appends a footer to the first body part (idempotent); 3 = adds an attachment unless it is
	// already there. Effective() is the program the rendering must correspond to.
	MW int `json:"mw,omitempty"`
	// Setters: the attributes are not given as options but through setters — 1: message encoding / charset / boundary
	// through Msg.SetEncoding / SetCharset / SetBoundary right after NewMsg; 2: the message is first assembled with
	// default attributes (parts with a placeholder media type) and everything is set afterwards: Msg.SetEncoding /
	// SetCharset / SetBoundary and, per part, Part.SetContentType / SetEncoding / SetCharset / SetDescription
	Setters int `json:"setters,omitempty"`
	// Donor: history — the embeds and attachments are first added to ANOTHER Msg and taken over from it with
	// SetEmbeds(other.GetEmbeds()) / SetAttachments(other.GetAttachments()); the other Msg is then recycled: Reset(),
	// three new attachments and embeds (1), and additionally rendered once (2)
	Donor int `json:"donor,omitempty"`
	// PGP: the message carries a PGP type (1 = PGPEncrypt, 2 = PGPSignature): go-mail wraps the caller's parts in a
	// multipart/encrypted or multipart/signed
	PGP int `json:"pgp,omitempty"`
	// ReBody: history — the message already had a body (a decoy text part and a decoy alternative) when the body of this
	// program is set: SetBody* replaces what was there
	ReBody bool `json:"rebody,omitempty"`
}

// MWFooter is the text middleware 2 appends; MWFile is the attachment middleware 3 adds.
const MWFooter = "-- \r\nfooter appended by a middleware\r\n"

var MWFile = File{Name: "added-by-middleware.txt", Content: []byte("attachment added by a middleware\r\n")}

type middleware struct{ kind int }

func (w middleware) Type() mail.MiddlewareType { return "verif-middleware" }

func (w middleware) Handle(m *mail.Msg) *mail.Msg {
	switch w.kind {
	case 1:
		m.SetGenHeader("X-Middleware", "seen")
	case 2:
		if ps := m.GetParts(); len(ps) > 0 {
			if c, err := ps[0].GetContent(); err == nil && !strings.HasSuffix(string(c), MWFooter) {
				ps[0].SetContent(string(c) + MWFooter)
			}
		}
	case 3:
		for _, f := range m.GetAttachments() {
			if f.Name == MWFile.Name {
				return m
			}
		}
		_ = m.AttachReader(MWFile.Name, strings.NewReader(string(MWFile.Content)))
	}
	return m
}

// Effective returns the program after the middleware has been applied.
func (s Msg) Effective() Msg {
	switch s.MW {
	case 2:
		if len(s.Parts) > 0 {
			ps := append([]Part{}, s.Parts...)
			ps[0].Content = append(append([]byte{}, ps[0].Content...), MWFooter...)
			s.Parts = ps
		}
	case 3:
		s.Attach = append(append([]File{}, s.Attach...), MWFile)
	}
	return s
}

// Hooks lets a check wrap every content producer.
type Hooks struct {
	// Wrap receives the producer name ("part0", "embed1", "attach0") and the default producer.
	Wrap func(name string, content []byte, def func(io.Writer) (int64, error)) func(io.Writer) (int64, error)
}

// EncOf maps a spec encoding name to the go-mail constant.
func EncOf(s string) mail.Encoding {
	switch s {
	case "b64":
		return mail.EncodingB64
	case "8bit":
		return mail.NoEncoding
	case "usascii":
		return mail.EncodingUSASCII
	case "binary":
		// a transfer-encoding name outside go-mail's four constants (Encoding is a string type)
		return mail.Encoding("binary")
	case "QP-mixed-case":
		return mail.Encoding("Quoted-Printable")
	default:
		return mail.EncodingQP
	}
}

func ctOf(s string) mail.ContentType {
	if s == "text/html" {
		return mail.TypeTextHTML
	}
	if s == "" || s == "text/plain" {
		return mail.TypeTextPlain
	}
	return mail.ContentType(s)
}

func producer(content []byte) func(io.Writer) (int64, error) {
	return func(w io.Writer) (int64, error) {
		n, err := w.Write(content)
		return int64(n), err
	}
}

// Build constructs the message. Errors of builder calls are returned (the message is still usable).
func Build(s Msg, h *Hooks) (*mail.Msg, error) {
	var opts []mail.MsgOption
	if s.Enc != "" && s.Setters == 0 {
		opts = append(opts, mail.WithEncoding(EncOf(s.Enc)))
	}
	if s.Boundary != "" && s.Setters == 0 {
		opts = append(opts, mail.WithBoundary(s.Boundary))
	}
	if s.Charset != "" && s.Setters == 0 {
		opts = append(opts, mail.WithCharset(mail.Charset(s.Charset)))
	}
	msgSetters := func(m *mail.Msg) {
		if s.Enc != "" {
			m.SetEncoding(EncOf(s.Enc))
		}
		if s.Boundary != "" {
			m.SetBoundary(s.Boundary)
		}
		if s.Charset != "" {
			m.SetCharset(mail.Charset(s.Charset))
		}
	}
	if s.NoUA {
		opts = append(opts, mail.WithNoDefaultUserAgent())
	}
	if s.MW != 0 {
		opts = append(opts, mail.WithMiddleware(middleware{s.MW}))
	}
	m := mail.NewMsg(opts...)
	switch s.PGP {
	case 1:
		m.SetPGPType(mail.PGPEncrypt)
	case 2:
		m.SetPGPType(mail.PGPSignature)
	}
	if s.Setters == 1 {
		msgSetters(m)
	}
	var firstErr error
	note := func(err error) {
		if err != nil && firstErr == nil {
			firstErr = err
		}
	}
	if s.Recycle > 0 {
		_ = m.From("decoy-sender@old.example")
		_ = m.To("decoy-rcpt@old.example", "decoy-rcpt2@old.example")
		_ = m.Cc("decoy-cc@old.example")
		m.Subject("decoy subject of the previous use")
		m.SetGenHeader("X-Decoy", "previous use")
		m.SetBodyString(mail.TypeTextPlain, "decoy plain body\r\n")
		m.AddAlternativeString(mail.TypeTextHTML, "<p>decoy html body</p>")
		_ = m.AttachReader("decoy-attachment.bin", strings.NewReader("decoy attachment content"))
		_ = m.EmbedReader("decoy-embed.png", strings.NewReader("decoy embed content"))
		if s.Recycle == 2 {
			_, _ = m.WriteTo(io.Discard)
		}
		m.Reset()
	}
	switch s.From {
	case "-":
	case "":
		note(m.From("sender@snd.example"))
	default:
		note(m.From(s.From))
	}
	if s.To == nil && s.ToIgnore == nil {
		note(m.To("rcpt@rcp.example"))
	} else if len(s.To) > 0 {
		note(m.To(s.To...))
	}
	if s.ToIgnore != nil {
		m.ToIgnoreInvalid(s.ToIgnore...)
	}
	if len(s.Cc) > 0 {
		note(m.Cc(s.Cc...))
	}
	if s.ReplyTo != "" {
		note(m.ReplyTo(s.ReplyTo))
	}
	if !s.NoDate {
		m.SetDateWithValue(hx.T0)
		m.SetMessageIDWithValue("fixed.id@harness.example")
	}
	if s.Subject != nil {
		m.Subject(*s.Subject)
	} else {
		m.Subject("harness message")
	}
	for _, g := range s.Gen {
		m.SetGenHeader(mail.Header(g[0]), g[1])
	}
	for _, g := range s.GenEmpty {
		m.SetGenHeader(mail.Header(g))
	}
	for _, g := range s.Preform {
		m.SetGenHeaderPreformatted(mail.Header(g[0]), g[1])
	}
	wrap := func(name string, content []byte) func(io.Writer) (int64, error) {
		def := producer(content)
		if h != nil && h.Wrap != nil {
			return h.Wrap(name, content, def)
		}
		return def
	}
	var later []func()
	if s.ReBody && len(s.Parts) > 0 {
		m.SetBodyString(mail.TypeTextPlain, "DRAFT: decoy body that is replaced by the real one\r\n")
		m.AddAlternativeString(mail.TypeTextHTML, "<p>decoy alternative that is replaced as well</p>\r\n")
	}
	for i, p := range s.Parts {
		var po []mail.PartOption
		if p.Enc != "" {
			po = append(po, mail.WithPartEncoding(EncOf(p.Enc)))
		}
		if p.Desc != "" {
			po = append(po, mail.WithPartContentDescription(p.Desc))
		}
		if p.Charset != "" {
			po = append(po, mail.WithPartCharset(mail.Charset(p.Charset)))
		}
		w := wrap(fmt.Sprintf("part%d", i), p.Content)
		ptype := p.Type
		if s.Setters == 2 {
			po, p.Type = nil, "text/x-placeholder"
			if p.Via == "tpl" && ctOf(ptype) == mail.TypeTextHTML {
				p.Type = "text/html" // (the template kind is chosen by the type)
			}
			later = append(later, func(i int, p Part) func() {
				return func() {
					ps := m.GetParts()
					if i >= len(ps) {
						return
					}
					ps[i].SetContentType(ctOf(ptype))
					enc := p.Enc
					if enc == "" {
						enc = s.Enc
					}
					ps[i].SetEncoding(EncOf(enc))
					if p.Charset != "" {
						ps[i].SetCharset(mail.Charset(p.Charset))
					}
					if p.Desc != "" {
						ps[i].SetDescription(p.Desc)
					}
				}
			}(i, p))
		}
		switch {
		case p.Via == "tpl" && ctOf(p.Type) == mail.TypeTextHTML:
			tpl := ht.Must(ht.New("p").Parse("{{.}}"))
			if i == 0 {
				note(m.SetBodyHTMLTemplate(tpl, ht.HTML(p.Content), po...))
			} else {
				note(m.AddAlternativeHTMLTemplate(tpl, ht.HTML(p.Content), po...))
			}
		case p.Via == "tpl":
			tpl := tt.Must(tt.New("p").Parse("{{.}}"))
			if i == 0 {
				note(m.SetBodyTextTemplate(tpl, string(p.Content), po...))
			} else {
				note(m.AddAlternativeTextTemplate(tpl, string(p.Content), po...))
			}
		case p.Via == "setcontent":
			// the part is created with a placeholder and its content replaced through Part.SetContent afterwards
			if i == 0 {
				m.SetBodyString(ctOf(p.Type), "placeholder that is replaced", po...)
			} else {
				m.AddAlternativeString(ctOf(p.Type), "placeholder that is replaced", po...)
			}
			if ps := m.GetParts(); len(ps) > 0 {
				ps[len(ps)-1].SetContent(string(p.Content))
			}
		case p.Via == "string" && i == 0:
			m.SetBodyString(ctOf(p.Type), string(p.Content), po...)
		case p.Via == "string":
			m.AddAlternativeString(ctOf(p.Type), string(p.Content), po...)
		case i == 0:
			m.SetBodyWriter(ctOf(p.Type), w, po...)
		default:
			m.AddAlternativeWriter(ctOf(p.Type), w, po...)
		}
	}
	for i, p := range s.Parts {
		if p.Deleted && i < len(m.GetParts()) {
			m.GetParts()[i].Delete()
		}
	}
	scratch := &bytes.Buffer{}
	var scribble [][]byte
	defer func() {
		scratch.Reset()
		for i := 0; i < 64; i++ {
			scratch.WriteString("~~~~ the caller re-used this buffer for something else ~~~~\r\n")
		}
		for _, b := range scribble {
			for i := range b {
				b[i] = '#'
			}
		}
	}()
	fileTarget := m
	var donor *mail.Msg
	if s.Donor > 0 {
		donor = mail.NewMsg()
		fileTarget = donor
	}
	mkFiles := func(kind string, fs []File, attach bool) {
		m := fileTarget
		var structs []*mail.File
		for i, f := range fs {
			name := fmt.Sprintf("%s%d", kind, i)
			var fo []mail.FileOption
			switch f.Enc {
			case "b64":
				fo = append(fo, mail.WithFileEncoding(mail.EncodingB64))
			case "8bit":
				fo = append(fo, mail.WithFileEncoding(mail.NoEncoding))
			case "binary", "QP-mixed-case":
				fo = append(fo, mail.WithFileEncoding(EncOf(f.Enc)))
			}
			if f.Desc != "" {
				fo = append(fo, mail.WithFileDescription(f.Desc))
			}
			if f.CID != "" {
				fo = append(fo, mail.WithFileContentID(f.CID))
			}
			if f.CT != "" {
				fo = append(fo, mail.WithFileContentType(mail.ContentType(f.CT)))
			}
			switch f.Source {
			case "ttpl":
				tpl := tt.Must(tt.New("f").Parse("{{.}}"))
				if attach {
					note(m.AttachTextTemplate(f.Name, tpl, string(f.Content), fo...))
				} else {
					note(m.EmbedTextTemplate(f.Name, tpl, string(f.Content), fo...))
				}
				continue
			case "htpl":
				tpl := ht.Must(ht.New("f").Parse("{{.}}"))
				if attach {
					note(m.AttachHTMLTemplate(f.Name, tpl, ht.HTML(f.Content), fo...))
				} else {
					note(m.EmbedHTMLTemplate(f.Name, tpl, ht.HTML(f.Content), fo...))
				}
				continue
			case "buffer":
				scratch.Reset()
				scratch.Write(f.Content)
				if attach {
					note(m.AttachReader(f.Name, scratch, fo...))
				} else {
					note(m.EmbedReader(f.Name, scratch, fo...))
				}
				continue
			case "reader":
				// the reader is consumed during the call: the caller may recycle the memory behind it afterwards
				own := append([]byte{}, f.Content...)
				scribble = append(scribble, own)
				if attach {
					note(m.AttachReader(f.Name, bytes.NewReader(own), fo...))
				} else {
					note(m.EmbedReader(f.Name, bytes.NewReader(own), fo...))
				}
				continue
			case "readseeker@", "reader@":
				// the caller has already consumed a header in front of the content: the source stands at an offset
				rd := bytes.NewReader(append([]byte("ENVELOPE-HEADER-CONSUMED-BY-THE-CALLER\n"), f.Content...))
				_, _ = rd.Seek(int64(len("ENVELOPE-HEADER-CONSUMED-BY-THE-CALLER\n")), io.SeekStart)
				switch {
				case f.Source == "reader@" && attach:
					note(m.AttachReader(f.Name, rd, fo...))
				case f.Source == "reader@":
					note(m.EmbedReader(f.Name, rd, fo...))
				case attach:
					m.AttachReadSeeker(f.Name, rd, fo...)
				default:
					m.EmbedReadSeeker(f.Name, rd, fo...)
				}
				continue
			case "readseeker+":
				// history: the same read-seeker (standing behind a header the caller has consumed) was attached to ANOTHER
				// message before, which was rendered once (a mailing loop that makes one Msg per recipient from one open file)
				rd := bytes.NewReader(append([]byte("HEADER-CONSUMED\n"), f.Content...))
				_, _ = rd.Seek(int64(len("HEADER-CONSUMED\n")), io.SeekStart)
				prev := mail.NewMsg()
				_ = prev.From("earlier@snd.example")
				_ = prev.To("earlier@rcp.example")
				prev.SetBodyString(mail.TypeTextPlain, "earlier message\r\n")
				prev.AttachReadSeeker("earlier-"+f.Name, rd)
				_, _ = prev.WriteTo(io.Discard)
				if attach {
					m.AttachReadSeeker(f.Name, rd, fo...)
				} else {
					m.EmbedReadSeeker(f.Name, rd, fo...)
				}
				continue
			case "readseeker":
				if attach {
					m.AttachReadSeeker(f.Name, bytes.NewReader(f.Content), fo...)
				} else {
					m.EmbedReadSeeker(f.Name, bytes.NewReader(f.Content), fo...)
				}
				continue
			}
			file := &mail.File{Name: f.Name, Header: textproto.MIMEHeader{}, Writer: wrap(name, f.Content)}
			for _, o := range fo {
				o(file)
			}
			if f.Enc == "qp" {
				file.Enc = mail.EncodingQP
			}
			structs = append(structs, file)
		}
		if len(structs) > 0 {
			if attach {
				m.SetAttachments(append(m.GetAttachments(), structs...))
			} else {
				m.SetEmbeds(append(m.GetEmbeds(), structs...))
			}
		}
	}
	if s.Grow > 0 {
		_, _ = m.WriteTo(io.Discard)
	}
	mkFiles("embed", s.Embeds, false)
	if s.Grow > 1 {
		_, _ = m.WriteTo(io.Discard)
	}
	mkFiles("attach", s.Attach, true)
	if s.ReAdd {
		m.UnsetAllEmbeds()
		m.UnsetAllAttachments()
		mkFiles("embed", s.Embeds, false)
		mkFiles("attach", s.Attach, true)
	}
	if donor != nil {
		// the files were added to another Msg and are taken over through its getters; that Msg is then recycled:
		// Reset(), new files, a rendering
		m.SetEmbeds(donor.GetEmbeds())
		m.SetAttachments(donor.GetAttachments())
		donor.Reset()
		_ = donor.From("donor@snd.example")
		_ = donor.To("donor-rcpt@rcp.example")
		donor.SetBodyString(mail.TypeTextPlain, "the donor message is used for something else now\r\n")
		for i := 0; i < 3; i++ {
			_ = donor.AttachReader(fmt.Sprintf("intruder-attachment-%d.bin", i), strings.NewReader("content of a file that belongs to the OTHER message"))
			_ = donor.EmbedReader(fmt.Sprintf("intruder-embed-%d.png", i), strings.NewReader("content of an embed that belongs to the OTHER message"))
		}
		if s.Donor == 2 {
			_, _ = donor.WriteTo(io.Discard)
		}
	}
	if s.Setters == 2 {
		msgSetters(m)
		for _, f := range later {
			f()
		}
	}
	if s.SMIME != 0 {
		mat := hx.Mat()
		kp := mat.SignRSA
		switch s.SMIME {
		case 2:
			kp = mat.SignECDSA
		case 3:
			kp = mat.SignP384
		case 4:
			kp = mat.SignP521
		case 5:
			kp = mat.SignSameSerial
		}
		inter := mat.InterCert
		if !s.Inter {
			inter = nil
		}
		if s.SignAPI > 0 {
			tc := tls.Certificate{Certificate: [][]byte{kp.Certificate[0]}, PrivateKey: kp.PrivateKey, Leaf: kp.Leaf}
			if s.SignAPI >= 2 {
				tc.Certificate = append(tc.Certificate, mat.InterCert.Raw)
			}
			if s.SignAPI >= 3 {
				tc.Certificate = append(tc.Certificate, mat.CACert.Raw)
			}
			if s.SignAPI == 4 {
				tc.Leaf = nil
			}
			note(m.SignWithTLSCertificate(&tc))
		} else {
			note(m.SignWithKeypair(kp.PrivateKey, kp.Leaf, inter))
		}
	}
	return m, firstErr
}

// Describe renders a short human-readable summary of a spec.
func (s Msg) Describe() string {
	var b strings.Builder
	fmt.Fprintf(&b, "enc=%s", orDefault(s.Enc, "qp"))
	for i, p := range s.Parts {
		fmt.Fprintf(&b, " part%d[%s enc=%s len=%d%s]", i, orDefault(p.Type, "text/plain"), orDefault(p.Enc, "-"), len(p.Content), descMark(p.Desc))
	}
	for i, f := range s.Embeds {
		fmt.Fprintf(&b, " embed%d[%q enc=%s len=%d%s%s]", i, f.Name, orDefault(f.Enc, "-"), len(f.Content), descMark(f.Desc), srcMark(f.Source))
	}
	for i, f := range s.Attach {
		fmt.Fprintf(&b, " attach%d[%q enc=%s len=%d%s%s]", i, f.Name, orDefault(f.Enc, "-"), len(f.Content), descMark(f.Desc), srcMark(f.Source))
	}
	if s.Boundary != "" {
		fmt.Fprintf(&b, " boundary=%q", s.Boundary)
	}
	if s.SMIME != 0 {
		fmt.Fprintf(&b, " smime=%d inter=%v", s.SMIME, s.Inter)
		if s.SignAPI > 0 {
			fmt.Fprintf(&b, " SignWithTLSCertificate(chain=%d)", s.SignAPI)
		}
	}
	if s.MW != 0 {
		fmt.Fprintf(&b, " middleware=%d", s.MW)
	}
	if s.ReBody {
		b.WriteString(" body-set-on-a-message-that-had-one")
	}
	if s.PGP != 0 {
		fmt.Fprintf(&b, " pgp-type=%d", s.PGP)
	}
	if s.Donor != 0 {
		fmt.Fprintf(&b, " files-taken-over-from-a-recycled-msg=%d", s.Donor)
	}
	if s.Setters != 0 {
		fmt.Fprintf(&b, " attributes-through-setters=%d", s.Setters)
	}
	if s.Recycle != 0 {
		fmt.Fprintf(&b, " recycled-msg=%d", s.Recycle)
	}
	if s.Grow != 0 {
		fmt.Fprintf(&b, " rendered-while-growing=%d", s.Grow)
	}
	return b.String()
}

func srcMark(s string) string {
	if s == "" {
		return ""
	}
	return " src=" + s
}

func orDefault(s, d string) string {
	if s == "" {
		return d
	}
	return s
}

func descMark(d string) string {
	if d != "" {
		return " desc"
	}
	return ""
}
