package checks

import (
	"bytes"
	"encoding/json"
	"errors"
	"fmt"
	"io"
	"os"
	"path/filepath"
	"strings"
	"sync"
	"sync/atomic"
	"time"

	mail "github.com/wneessen/go-mail"

	"verif/mb"
	"verif/vf"
)

// C09 — EML parsing is total: never a panic, always terminates.

type c09Case struct {
	Input  []byte `json:"input"`
	Mode   int    `json:"mode"`    // 0 FromReader, 1 FromString, 2 reader failing at FailAt, 3 one-byte reader, 4 FromFile
	FailAt int    `json:"fail_at"` // mode 2
	What   string `json:"what"`
}

type failingReader struct {
	data []byte
	pos  int
	at   int
}

func (f *failingReader) Read(p []byte) (int, error) {
	if f.pos >= f.at {
		return 0, errors.New("reader failed (injected)")
	}
	n := copy(p, f.data[f.pos:minInt(f.at, len(f.data))])
	f.pos += n
	if n == 0 {
		if f.pos >= len(f.data) {
			return 0, io.EOF
		}
		return 0, errors.New("reader failed (injected)")
	}
	return n, nil
}

type oneByteReader struct {
	data []byte
	pos  int
}

func (o *oneByteReader) Read(p []byte) (int, error) {
	if o.pos >= len(o.data) {
		return 0, io.EOF
	}
	if len(p) == 0 {
		return 0, nil
	}
	p[0] = o.data[o.pos]
	o.pos++
	return 1, nil
}

func c09Run(k c09Case, dir string) (panicked bool, what string) {
	return vf.Guard(func() {
		switch k.Mode {
		case 0:
			_, _ = mail.EMLToMsgFromReader(bytes.NewReader(k.Input))
		case 1:
			_, _ = mail.EMLToMsgFromString(string(k.Input))
		case 2:
			_, _ = mail.EMLToMsgFromReader(&failingReader{data: k.Input, at: k.FailAt})
		case 3:
			_, _ = mail.EMLToMsgFromReader(&oneByteReader{data: k.Input})
		case 4:
			p := filepath.Join(dir, fmt.Sprintf("in-%d.eml", time.Now().UnixNano()))
			if err := os.WriteFile(p, k.Input, 0o644); err == nil {
				_, _ = mail.EMLToMsgFromFile(p)
				_ = os.Remove(p)
			}
		}
	})
}

func c09Seeds(r *vf.Run) [][]byte {
	text := []byte("Hello plain text\r\nsecond line = with equals\r\n")
	html := []byte("<html><body><p>hello html</p></body></html>\r\n")
	specs := []mb.Msg{
		{Enc: "8bit", Parts: []mb.Part{{Type: "text/plain", Content: text}}},
		{Enc: "qp", Parts: []mb.Part{{Type: "text/plain", Content: text}}},
		{Enc: "b64", Parts: []mb.Part{{Type: "text/plain", Content: text}}},
		{Parts: []mb.Part{{Type: "text/plain", Content: text}, {Type: "text/html", Content: html}}, Boundary: "b-alt-0001"},
		{Parts: []mb.Part{{Type: "text/plain", Content: text}}, Attach: []mb.File{{Name: "file.txt", Content: []byte("attached text\r\n")}}, Boundary: "b-mixed-0001"},
		{Parts: []mb.Part{{Type: "text/plain", Content: text}, {Type: "text/html", Content: html, Enc: "b64"}}, Embeds: []mb.File{{Name: "pic.png", Content: []byte{1, 2, 3, 4, 5}}},
			Attach: []mb.File{{Name: "doc.bin", Content: []byte("binary\x00data")}}, Boundary: "b-outer-0001"},
	}
	var seeds [][]byte
	for _, s := range specs {
		m, err := mb.Build(s, nil)
		if err != nil {
			r.HarnessError("C09 seed build: %v", err)
			continue
		}
		var b bytes.Buffer
		if _, err := m.WriteTo(&b); err != nil {
			r.HarnessError("C09 seed render: %v", err)
			continue
		}
		// make inner (generated) boundaries deterministic so that inputs are stable between runs
		out := b.Bytes()
		seeds = append(seeds, out)
	}
	// hand-written seeds with features go-mail does not generate
	seeds = append(seeds,
		[]byte("From: a@b.example\r\nTo: c@d.example\r\nSubject: hand\r\nContent-Type: multipart/mixed; boundary=xyz\r\n\r\n--xyz\r\nContent-Type: text/plain; charset=utf-8\r\n\r\nbody\r\n--xyz\r\nContent-Type: application/octet-stream\r\nContent-Disposition: attachment; filename=\"a.bin\"\r\nContent-Transfer-Encoding: base64\r\n\r\nAAEC\r\n--xyz\r\nContent-Disposition: inline; filename=i.png\r\nContent-ID: <i.png>\r\nContent-Type: image/png\r\n\r\nraw\r\n--xyz--\r\n"),
		[]byte("Date: Mon, 02 Jan 2006 15:04:05 -0700\r\nFrom: \"N\" <a@b.example>\r\nCc: x@y.example, z@y.example\r\nContent-Type: text/html; charset=\"iso-8859-1\"\r\nContent-Transfer-Encoding: quoted-printable\r\n\r\n<p>=E4</p>=\r\n\r\n"),
	)
	return seeds
}

type span struct{ a, b int }

// c09Slots tokenises a message into mutation slots: header names, values, parameter names/values, boundary
// lines, blank lines.
func c09Slots(seed []byte) []span {
	var sl []span
	pos := 0
	for pos < len(seed) {
		nl := bytes.Index(seed[pos:], []byte("\r\n"))
		end := len(seed)
		next := len(seed)
		if nl >= 0 {
			end = pos + nl
			next = end + 2
		}
		line := seed[pos:end]
		switch {
		case len(line) == 0:
			sl = append(sl, span{pos, next}) // the blank line itself
		case bytes.HasPrefix(line, []byte("--")):
			sl = append(sl, span{pos, end}, span{pos + 2, end})
		default:
			if c := bytes.IndexByte(line, ':'); c > 0 && line[0] != ' ' && !bytes.ContainsAny(line[:c], " \t") && len(line) < 200 {
				sl = append(sl, span{pos, pos + c}) // name
				vstart := pos + c + 1
				for vstart < end && seed[vstart] == ' ' {
					vstart++
				}
				sl = append(sl, span{vstart, end}) // whole value
				// parameters
				v := seed[vstart:end]
				off := 0
				for {
					sc := bytes.IndexByte(v[off:], ';')
					if sc < 0 {
						break
					}
					ps := off + sc + 1
					for ps < len(v) && v[ps] == ' ' {
						ps++
					}
					pe := ps
					for pe < len(v) && v[pe] != ';' {
						pe++
					}
					if eq := bytes.IndexByte(v[ps:pe], '='); eq >= 0 {
						sl = append(sl, span{vstart + ps, vstart + ps + eq}, span{vstart + ps + eq + 1, vstart + pe})
					}
					sl = append(sl, span{vstart + off + sc, vstart + pe})
					off = pe
					if off >= len(v) {
						break
					}
				}
				if sc := bytes.IndexByte(v, ';'); sc > 0 {
					sl = append(sl, span{vstart, vstart + sc})
				}
			} else if len(line) > 0 && (line[0] == ' ' || line[0] == '\t') {
				sl = append(sl, span{pos, end})
				if eq := bytes.IndexByte(line, '='); eq >= 0 {
					sl = append(sl, span{pos + eq + 1, end})
				}
			}
		}
		pos = next
	}
	// dedupe
	seen := map[span]bool{}
	var out []span
	for _, s := range sl {
		if s.b >= s.a && !seen[s] {
			seen[s] = true
			out = append(out, s)
		}
	}
	return out
}

var c09MutNames = []string{"delete", "truncate-to-1", "duplicate", "unquote", "add-quote", "swap-case", "replace-by-other", "insert-semicolon", "insert-equals", "empty-quotes", "append-crlf", "nul",
	"lone-dquote", "lone-backslash", "encoded-word-start", "very-long", "high-bytes", "fold-inside", "append-dquote", "lone-angle", "percent-escape", "star-param"}

func c09Mutate(tok []byte, kind int, other []byte) []byte {
	switch kind {
	case 0:
		return nil
	case 1:
		if len(tok) > 1 {
			return tok[:1]
		}
		return tok
	case 2:
		return append(append([]byte{}, tok...), tok...)
	case 3:
		return bytes.ReplaceAll(tok, []byte(`"`), nil)
	case 4:
		return append([]byte(`"`), tok...)
	case 5:
		return bytes.Map(func(r rune) rune {
			switch {
			case r >= 'a' && r <= 'z':
				return r - 32
			case r >= 'A' && r <= 'Z':
				return r + 32
			}
			return r
		}, tok)
	case 6:
		return other
	case 7:
		return append(append([]byte{}, tok[:len(tok)/2]...), append([]byte(";"), tok[len(tok)/2:]...)...)
	case 8:
		return append(append([]byte{}, tok[:len(tok)/2]...), append([]byte("="), tok[len(tok)/2:]...)...)
	case 9:
		return []byte(`""`)
	case 10:
		return append(append([]byte{}, tok...), '\r', '\n')
	case 11:
		return append(append([]byte{}, tok[:len(tok)/2]...), append([]byte{0}, tok[len(tok)/2:]...)...)
	case 12:
		return []byte(`"`)
	case 13:
		return []byte(`\`)
	case 14:
		return []byte("=?utf-8?q?")
	case 15:
		return bytes.Repeat([]byte("x"), 5000)
	case 16:
		return []byte{0xff, 0xfe, 0x80, 'a'}
	case 17:
		return append(append([]byte{}, tok[:len(tok)/2]...), append([]byte("\r\n "), tok[len(tok)/2:]...)...)
	case 18:
		return append(append([]byte{}, tok...), '"')
	case 19:
		return []byte("<")
	case 20:
		return []byte("%41%")
	default:
		return append([]byte("*0*=utf-8''"), tok...)
	}
}

func applyMuts(seed []byte, slots []span, picks [][2]int) []byte {
	// picks sorted by slot start ascending, non-overlapping
	var out []byte
	pos := 0
	for _, p := range picks {
		s := slots[p[0]]
		if s.a < pos {
			continue
		}
		out = append(out, seed[pos:s.a]...)
		other := slots[(p[0]*7+3)%len(slots)]
		out = append(out, c09Mutate(seed[s.a:s.b], p[1], seed[other.a:other.b])...)
		pos = s.b
	}
	return append(out, seed[pos:]...)
}

func init() {
	vf.Register(&vf.Check{
		ID: "C09", Title: "EML parsing is total",
		Run: func(r *vf.Run) {
			r.SetRule("(a) every byte string of length <= 6 (thorough 7) over {a : SP CR LF ; = \" -} as whole input; (b) structure-aware mutants of 8 valid seeds (plain 8bit/QP/base64, alternative, mixed+attachment, mixed>related>alternative, two hand-written): every slot (header name, value, parameter name/value, boundary line, blank line, continuation) × 22 mutations — all single and all pairs of slot mutations (thorough: triples around Content-Type/Disposition); (c) for every seed and single mutant a reader failing at every offset (seeds) / 8 offsets (mutants), a one-byte reader, and the file entry point; (d) header-value grammars: every token string of length <= 4 (thorough 5) over an address alphabet {a @ b.example < > , : ; \" SP ( ) encoded-word} as From/To/Cc/Bcc/Reply-To/Content-ID value, over a media-type alphabet as Content-Type/-Transfer-Encoding/-Disposition value (top level and inside a multipart part; Content-ID, Content-Description, Content-Type and -Transfer-Encoding also inside attachment and inline-file parts), over a date alphabet as Date value; (e) size and depth sweeps: 16 structural elements (semicolons / parameters / RFC 2231 continuations in a header, nested multiparts closed and unclosed, parts, alternatives, continuation lines, header length, recipients, boundary length, header count, base64 / QP body lines, encoded-words) each repeated N times for N = 0..40, 63..65, 100, 127..129, 255..257, 1000, 1024, 4095..4097 (thorough: up to 100000); oracle: the call returns (no panic) within the watchdog; distinct by input bytes and mode; (f) 45 header-field names (standard and common extension fields, whether or not the parser looks at them) × 31 numeric and degenerate values around the integer boundaries, at the top level and inside multipart parts, through EMLToMsgFromReader / FromString / FromFile; (g) RFC 2047 encoded-words with 35 charset labels (implemented, registered but unimplemented, unknown, empty) × encodings {q, B, invalid} in file names, subject, display name, description and Content-ID")
			r.Assume("termination is decided by a 30 s per-case watchdog (a bound, not a proof)")
			dir := filepath.Join(os.Getenv("VERIF_WORK"), fmt.Sprintf("c09-%d", os.Getpid()))
			_ = os.MkdirAll(dir, 0o755)
			defer os.RemoveAll(dir)
			seeds := c09Seeds(r)
			// watchdog
			type slot struct {
				start int64
				cur   atomic.Value
			}
			var cur sync.Map // worker id -> *slot
			stop := make(chan struct{})
			go func() {
				for {
					select {
					case <-stop:
						return
					case <-time.After(time.Second):
					}
					cur.Range(func(_, v interface{}) bool {
						s := v.(*slot)
						st := atomic.LoadInt64(&s.start)
						if st != 0 && time.Since(time.Unix(0, st)) > 30*time.Second {
							k, _ := s.cur.Load().(c09Case)
							r.Violation("non-termination/"+k.What, fmt.Sprintf("parsing did not return within 30 s (mode %d, %d input bytes)", k.Mode, len(k.Input)), k, nil)
							fmt.Println("C09: watchdog fired; aborting the run")
							os.Exit(r.Finish("model_checking"))
						}
						return true
					})
				}
			}()
			defer close(stop)
			var wid int64
			exec := func(s *slot, k c09Case) {
				s.cur.Store(k)
				atomic.StoreInt64(&s.start, time.Now().UnixNano())
				pan, pw := c09Run(k, dir)
				atomic.StoreInt64(&s.start, 0)
				r.Eval(vf.Hash(string(k.Input), fmt.Sprint(k.Mode), fmt.Sprint(k.FailAt)), true)
				r.TraceValidated()
				if pan {
					r.Outcome("panic")
					site := vf.PanicSite(pw)
					k2 := k
					r.Violation("panic/"+site+"/"+panicKind(pw), fmt.Sprintf("EML parser panicked: %s (input class: %s, %q…)", firstLine(pw), k.What, clipb(k.Input, 80)), k, func() string {
						p2, w2 := c09Run(k2, dir)
						if p2 {
							return "panic/" + vf.PanicSite(w2) + "/" + panicKind(w2)
						}
						return ""
					})
				} else {
					r.Outcome("returned")
				}
			}
			newSlot := func() *slot {
				s := &slot{}
				cur.Store(atomic.AddInt64(&wid, 1), s)
				return s
			}
			// (a) short strings
			alpha := []byte("a: \r\n;=\"-")
			maxLen := 6
			if r.Thorough {
				maxLen = 7
			}
			total := 0
			pow := 1
			var offs []int
			for l := 0; l <= maxLen; l++ {
				offs = append(offs, total)
				total += pow
				pow *= len(alpha)
			}
			var wsl sync.Map
			getSlot := func(i int) *slot {
				// one watchdog slot per goroutine is approximated by one per 4096-block of indices processed sequentially
				v, _ := wsl.LoadOrStore(i%64, newSlot())
				return v.(*slot)
			}
			_ = getSlot
			chunk := 4096
			nch := (total + chunk - 1) / chunk
			r.Parallel(nch, "C09 short strings", func(ci int) {
				s := newSlot()
				for idx := ci * chunk; idx < (ci+1)*chunk && idx < total; idx++ {
					l := 0
					for l+1 < len(offs) && offs[l+1] <= idx {
						l++
					}
					code := idx - offs[l]
					in := make([]byte, l)
					for j := 0; j < l; j++ {
						in[j] = alpha[code%len(alpha)]
						code /= len(alpha)
					}
					exec(s, c09Case{Input: in, Mode: idx % 2, What: "short-string"})
				}
				r.Transition(vf.Hash("short"), fmt.Sprint(ci), vf.Hash("short-done", fmt.Sprint(ci%7)))
			})
			r.Extra("short_strings", total)
			// (b)+(c) mutants
			type job struct {
				seed  int
				picks [][2]int
			}
			var jobs []job
			slotsOf := make([][]span, len(seeds))
			for si, seed := range seeds {
				slots := c09Slots(seed)
				slotsOf[si] = slots
				nm := len(c09MutNames)
				for a := 0; a < len(slots); a++ {
					for ka := 0; ka < nm; ka++ {
						jobs = append(jobs, job{si, [][2]int{{a, ka}}})
						for b := a + 1; b < len(slots); b++ {
							if slots[b].a < slots[a].b {
								continue
							}
							for kb := 0; kb < nm; kb++ {
								if !r.Thorough && (a+b+ka+kb)%3 != 0 {
									continue // quick: a third of the pairs
								}
								jobs = append(jobs, job{si, [][2]int{{a, ka}, {b, kb}}})
							}
						}
					}
				}
			}
			r.Extra("mutant_jobs", len(jobs))
			var slotCount []int
			for _, s := range slotsOf {
				slotCount = append(slotCount, len(s))
			}
			r.Extra("slots_per_seed", slotCount)
			jchunk := 512
			r.Parallel((len(jobs)+jchunk-1)/jchunk, "C09 mutants", func(ci int) {
				s := newSlot()
				for ji := ci * jchunk; ji < (ci+1)*jchunk && ji < len(jobs); ji++ {
					j := jobs[ji]
					in := applyMuts(seeds[j.seed], slotsOf[j.seed], j.picks)
					var names []string
					for _, p := range j.picks {
						names = append(names, c09MutNames[p[1]])
					}
					what := fmt.Sprintf("seed%d/%s", j.seed, strings.Join(names, "+"))
					exec(s, c09Case{Input: in, Mode: 0, What: what})
					if len(j.picks) == 1 {
						exec(s, c09Case{Input: in, Mode: 1, What: what})
						exec(s, c09Case{Input: in, Mode: 3, What: what})
						for q := 1; q <= 8; q++ {
							exec(s, c09Case{Input: in, Mode: 2, FailAt: len(in) * q / 9, What: what})
						}
						if ji%16 == 0 {
							exec(s, c09Case{Input: in, Mode: 4, What: what})
						}
					}
					if ji%50021 == 0 {
						r.Sample(map[string]interface{}{"what": what, "input_head": string(clipb(in, 120))})
					}
					r.Transition(vf.Hash("seed", fmt.Sprint(j.seed)), what, vf.Hash("mutant", fmt.Sprint(j.seed), fmt.Sprint(len(j.picks))))
				}
			})
			// (d) header-value grammars: every token string up to length L as the value of every header the parser
			// interprets, at the top level and inside a multipart part
			{
				addrTok := []string{"a", "@", "b.example", "<", ">", ",", ":", ";", "\"", " ", "(", ")", "=?utf-8?q?x?="}
				ctTok := []string{"text", "/", "plain", "multipart", "mixed", ";", "=", "\"", " ", "boundary", "charset", "xyz", "*", "%", "filename", "attachment"}
				dateTok := []string{"Mon", ",", " ", "02", "Jan", "2006", "15:04:05", ":", "+0000", "-", "(", ")", "MST"}
				type hv struct {
					hdr  string
					toks []string
					part bool
					disp string // the part's Content-Disposition (part context: body part, attachment, inline file)
				}
				hvs := []hv{{"From", addrTok, false, ""}, {"To", addrTok, false, ""}, {"Cc", addrTok, false, ""}, {"Bcc", addrTok, false, ""}, {"Reply-To", addrTok, false, ""},
					{"Content-Type", ctTok, false, ""}, {"Content-Transfer-Encoding", ctTok, false, ""}, {"Content-Disposition", ctTok, false, ""}, {"Date", dateTok, false, ""},
					{"Content-Type", ctTok, true, ""}, {"Content-Transfer-Encoding", ctTok, true, ""}, {"Content-Disposition", ctTok, true, ""}, {"Content-ID", addrTok, true, ""},
					{hdr: "Content-ID", toks: addrTok, part: true, disp: "inline; filename=e.png"}, {hdr: "Content-ID", toks: addrTok, part: true, disp: "attachment; filename=a.bin"},
					{hdr: "Content-Description", toks: addrTok, part: true, disp: "inline; filename=e.png"}, {hdr: "Content-Type", toks: ctTok, part: true, disp: "inline; filename=e.png"},
					{hdr: "Content-Transfer-Encoding", toks: ctTok, part: true, disp: "attachment; filename=a.bin"}}
				L := 4
				if r.Thorough {
					L = 5
				}
				base := map[string]string{"From": "a@b.example", "To": "c@d.example", "Subject": "s", "Date": "Mon, 02 Jan 2006 15:04:05 -0700", "Content-Type": "text/plain; charset=utf-8"}
				order := []string{"Date", "From", "To", "Cc", "Bcc", "Reply-To", "Subject", "MIME-Version", "Content-Type", "Content-Transfer-Encoding", "Content-Disposition"}
				build := func(h hv, val string) []byte {
					var b bytes.Buffer
					if h.part {
						b.WriteString("From: a@b.example\r\nTo: c@d.example\r\nSubject: s\r\nContent-Type: multipart/mixed; boundary=xyz\r\n\r\n--xyz\r\n")
						pb := map[string]string{"Content-Type": "text/plain; charset=utf-8"}
						if h.disp != "" {
							pb["Content-Disposition"] = h.disp
						}
						pb[h.hdr] = val
						for _, n := range []string{"Content-Type", "Content-Transfer-Encoding", "Content-Disposition", "Content-ID", "Content-Description"} {
							if v, ok := pb[n]; ok {
								b.WriteString(n + ": " + v + "\r\n")
							}
						}
						b.WriteString("\r\nbody\r\n--xyz\r\nContent-Type: application/octet-stream\r\nContent-Disposition: attachment; filename=a.bin\r\n\r\nraw\r\n--xyz--\r\n")
						return b.Bytes()
					}
					hs := map[string]string{}
					for k, v := range base {
						hs[k] = v
					}
					hs[h.hdr] = val
					for _, n := range order {
						if v, ok := hs[n]; ok {
							b.WriteString(n + ": " + v + "\r\n")
						}
					}
					b.WriteString("\r\nbody text\r\n")
					return b.Bytes()
				}
				nvals := 0
				for hi, h := range hvs {
					hi, h := hi, h
					nt := len(h.toks)
					total := 0
					pw := 1
					var offs []int
					for l := 0; l <= L; l++ {
						offs = append(offs, total)
						total += pw
						pw *= nt
					}
					nvals += total
					chunk := 2048
					r.Parallel((total+chunk-1)/chunk, "C09 header-value grammar", func(ci int) {
						s := newSlot()
						for idx := ci * chunk; idx < (ci+1)*chunk && idx < total; idx++ {
							l := 0
							for l+1 < len(offs) && offs[l+1] <= idx {
								l++
							}
							code := idx - offs[l]
							var val strings.Builder
							for j := 0; j < l; j++ {
								val.WriteString(h.toks[code%nt])
								code /= nt
							}
							where := "top"
							if h.part {
								where = "part"
							}
							exec(s, c09Case{Input: build(h, val.String()), Mode: idx % 2, What: fmt.Sprintf("header-value/%s/%s", where, h.hdr)})
						}
						r.Transition(vf.Hash("hv", fmt.Sprint(hi)), fmt.Sprint(ci), vf.Hash("hv-done", fmt.Sprint(hi)))
					})
				}
				r.Extra("header_value_inputs", nvals)
			}
			// (f) any header field with numeric and degenerate values: header names the parser may or may not look at
			// (standard RFC 5322 / 2045 / 2183 / 3461 fields and common extension fields) × values around the integer
			// boundaries, at the top level and inside a multipart part
			{
				names := []string{"Content-Length", "Lines", "MIME-Version", "Content-MD5", "Content-Description", "Content-Language", "Content-Location", "Content-Base", "Content-Duration",
					"Message-ID", "In-Reply-To", "References", "Received", "Return-Path", "Sender", "Resent-Date", "Resent-From", "Resent-To", "Resent-Message-ID", "Keywords", "Comments",
					"X-Priority", "Importance", "Priority", "Precedence", "X-Mailer", "User-Agent", "Organization", "List-Id", "List-Unsubscribe", "Auto-Submitted", "Disposition-Notification-To",
					"Original-Recipient", "X-Spam-Score", "X-Originating-IP", "Expires", "Age", "Max-Forwards", "Content-Range", "Range", "Status", "X-UID", "X-Status", "Bytes", "X-Content-Length"}
				vals := []string{"", "0", "-0", "1", "-1", "-41", "+1", "007", "2147483647", "2147483648", "-2147483648", "-2147483649", "4294967295", "4294967296", "9223372036854775807", "9223372036854775808",
					"-9223372036854775808", "-9223372036854775809", "99999999999999999999999999", "1.5", "1e9", "0x10", "NaN", " 12 ", "12;q=1", "1,2", "abc", "-", "--1", "١٢", strings.Repeat("9", 400)}
				type nv struct{ n, v string }
				var cases []nv
				for _, n := range names {
					for _, v := range vals {
						cases = append(cases, nv{n, v})
					}
				}
				r.Parallel(len(cases), "C09 numeric header values", func(i int) {
					s := newSlot()
					c := cases[i]
					top := []byte("Date: Mon, 02 Jan 2006 15:04:05 -0700\r\nFrom: a@b.example\r\nTo: c@d.example\r\nSubject: s\r\n" + c.n + ": " + c.v + "\r\nContent-Type: text/plain; charset=utf-8\r\nContent-Transfer-Encoding: quoted-printable\r\n\r\nbody text\r\n")
					part := []byte("From: a@b.example\r\nTo: c@d.example\r\nSubject: s\r\n" + c.n + ": " + c.v + "\r\nContent-Type: multipart/mixed; boundary=xyz\r\n\r\n--xyz\r\nContent-Type: text/plain; charset=utf-8\r\n" + c.n + ": " + c.v +
						"\r\n\r\nbody\r\n--xyz\r\nContent-Type: application/octet-stream\r\nContent-Disposition: attachment; filename=a.bin\r\n" + c.n + ": " + c.v + "\r\nContent-Transfer-Encoding: base64\r\n\r\ncmF3\r\n--xyz--\r\n")
					for _, mode := range []int{0, 1, 4} {
						exec(s, c09Case{Input: top, Mode: mode, What: "numeric-header/top/" + c.n})
						exec(s, c09Case{Input: part, Mode: mode, What: "numeric-header/part/" + c.n})
					}
					r.Transition(vf.Hash("nh", c.n), c.v, vf.Hash("nh-done", c.n))
				})
				r.Extra("numeric_header_inputs", len(cases)*6)
			}
			// (g) RFC 2047 encoded-words with many charset labels (registered, unregistered, unimplemented, empty, odd case)
			// wherever the parser decodes them: file names, subject, display names, descriptions
			{
				charsets := []string{"utf-8", "UTF-8", "us-ascii", "iso-8859-1", "iso-8859-15", "windows-1252", "koi8-r", "gb2312", "gbk", "gb18030", "big5", "shift_jis", "euc-jp", "iso-2022-jp", "iso-2022-kr",
					"euc-kr", "utf-7", "utf-16", "utf-16le", "utf-32", "ucs-2", "ibm437", "macintosh", "tis-620", "hz-gb-2312", "x-unknown", "unknown-8bit", "", "utf8", "latin1", "cp1252", "iso-10646-ucs-2", "bocu-1", "scsu", "x-user-defined"}
				type cw struct{ cs, enc string }
				var cases []cw
				for _, cs := range charsets {
					for _, enc := range []string{"q", "B", "x"} {
						cases = append(cases, cw{cs, enc})
					}
				}
				r.Parallel(len(cases), "C09 encoded-word charsets", func(i int) {
					s := newSlot()
					c := cases[i]
					text := "Gr=FC=DFe"
					if c.enc == "B" {
						text = "R3L832U="
					}
					w := "=?" + c.cs + "?" + c.enc + "?" + text + "?="
					// the word stands in exactly one place per input (an early failure must not hide the later places), and in all at once
					for pos := 0; pos <= 7; pos++ {
						at := func(p int, plain string) string {
							if pos == p || pos == 7 {
								return w
							}
							return plain
						}
						in := []byte("Date: Mon, 02 Jan 2006 15:04:05 -0700\r\nFrom: " + at(0, "Name") + " <a@b.example>\r\nTo: c@d.example\r\nSubject: " + at(1, "subject") + "\r\nContent-Type: multipart/mixed; boundary=xyz\r\n\r\n--xyz\r\nContent-Type: text/plain; charset=utf-8\r\nContent-Description: " + at(2, "description") +
							"\r\n\r\nbody\r\n--xyz\r\nContent-Type: application/octet-stream; name=\"" + at(3, "a.bin") + "\"\r\nContent-Disposition: attachment; filename=\"" + at(4, "a.bin") + "\"\r\nContent-Transfer-Encoding: base64\r\n\r\ncmF3\r\n--xyz\r\nContent-Type: image/png\r\nContent-Disposition: inline; filename=" + at(5, "e.png") +
							"\r\nContent-ID: <" + at(6, "cid@x") + ">\r\nContent-Transfer-Encoding: base64\r\n\r\ncmF3\r\n--xyz--\r\n")
						for _, mode := range []int{0, 1, 4} {
							exec(s, c09Case{Input: in, Mode: mode, What: fmt.Sprintf("encoded-word-charset/%s/%s/pos=%d", c.cs, c.enc, pos)})
						}
					}
					r.Transition(vf.Hash("ewc", c.cs), c.enc, vf.Hash("ewc-done", c.cs))
				})
				r.Extra("encoded_word_charset_inputs", len(cases)*24)
			}
			// (e) size and depth sweeps: one structural element repeated N times, N = 0..40 and powers beyond
			{
				type gen struct {
					name string
					f    func(n int) []byte
				}
				rep := strings.Repeat
				hdr := "From: a@b.example\r\nTo: c@d.example\r\nSubject: s\r\n"
				nest := func(n int, closeAll bool) []byte {
					var b strings.Builder
					b.WriteString(hdr)
					for i := 0; i < n; i++ {
						fmt.Fprintf(&b, "Content-Type: multipart/mixed; boundary=b%d\r\n\r\n--b%d\r\n", i, i)
					}
					b.WriteString("Content-Type: text/plain\r\n\r\ninnermost\r\n")
					if closeAll {
						for i := n - 1; i >= 0; i-- {
							fmt.Fprintf(&b, "--b%d--\r\n", i)
						}
					}
					return []byte(b.String())
				}
				gens := []gen{
					{"n-semicolons-in-content-type", func(n int) []byte { return []byte(hdr + "Content-Type: text/plain" + rep(";", n) + "\r\n\r\nbody\r\n") }},
					{"n-parameters-in-content-type", func(n int) []byte {
						var b strings.Builder
						b.WriteString(hdr + "Content-Type: text/plain")
						for i := 0; i < n; i++ {
							fmt.Fprintf(&b, "; p%d=v%d", i, i)
						}
						b.WriteString("\r\n\r\nbody\r\n")
						return []byte(b.String())
					}},
					{"n-filename-continuations-in-part-disposition", func(n int) []byte {
						var b strings.Builder
						b.WriteString(hdr + "Content-Type: multipart/mixed; boundary=xyz\r\n\r\n--xyz\r\nContent-Type: text/plain\r\n\r\nbody\r\n--xyz\r\nContent-Type: application/octet-stream\r\nContent-Disposition: attachment")
						for i := 0; i < n; i++ {
							fmt.Fprintf(&b, ";\r\n filename*%d=\"part%d-\"", i, i)
						}
						b.WriteString("\r\nContent-Transfer-Encoding: base64\r\n\r\nAAEC\r\n--xyz--\r\n")
						return []byte(b.String())
					}},
					{"n-semicolons-in-part-transfer-encoding", func(n int) []byte {
						return []byte(hdr + "Content-Type: multipart/mixed; boundary=xyz\r\n\r\n--xyz\r\nContent-Type: text/plain\r\nContent-Transfer-Encoding: 8bit" + rep(";x", n) + "\r\n\r\nbody\r\n--xyz--\r\n")
					}},
					{"n-nested-multiparts-closed", func(n int) []byte { return nest(n, true) }},
					{"n-nested-multiparts-unclosed", func(n int) []byte { return nest(n, false) }},
					{"n-parts", func(n int) []byte {
						var b strings.Builder
						b.WriteString(hdr + "Content-Type: multipart/mixed; boundary=xyz\r\n\r\n")
						for i := 0; i < n; i++ {
							fmt.Fprintf(&b, "--xyz\r\nContent-Type: text/plain\r\nContent-Disposition: attachment; filename=f%d.txt\r\n\r\npart %d\r\n", i, i)
						}
						b.WriteString("--xyz--\r\n")
						return []byte(b.String())
					}},
					{"n-alternatives", func(n int) []byte {
						var b strings.Builder
						b.WriteString(hdr + "Content-Type: multipart/alternative; boundary=xyz\r\n\r\n")
						for i := 0; i < n; i++ {
							fmt.Fprintf(&b, "--xyz\r\nContent-Type: text/%s\r\n\r\nalt %d\r\n", []string{"plain", "html"}[i%2], i)
						}
						b.WriteString("--xyz--\r\n")
						return []byte(b.String())
					}},
					{"n-continuation-lines-in-subject", func(n int) []byte {
						return []byte("From: a@b.example\r\nSubject: s" + rep("\r\n more", n) + "\r\n\r\nbody\r\n")
					}},
					{"subject-of-n-characters", func(n int) []byte { return []byte("From: a@b.example\r\nSubject: " + rep("x", n) + "\r\n\r\nbody\r\n") }},
					{"n-recipients", func(n int) []byte {
						var l []string
						for i := 0; i < n; i++ {
							l = append(l, fmt.Sprintf("\"N %d\" <r%d@x.example>", i, i))
						}
						return []byte("From: a@b.example\r\nTo: " + strings.Join(l, ",\r\n ") + "\r\n\r\nbody\r\n")
					}},
					{"boundary-of-n-characters", func(n int) []byte {
						bd := rep("b", n)
						return []byte(hdr + "Content-Type: multipart/mixed; boundary=\"" + bd + "\"\r\n\r\n--" + bd + "\r\nContent-Type: text/plain\r\n\r\nbody\r\n--" + bd + "--\r\n")
					}},
					{"n-generic-headers", func(n int) []byte {
						var b strings.Builder
						b.WriteString(hdr)
						for i := 0; i < n; i++ {
							fmt.Fprintf(&b, "X-H%d: v%d\r\n", i, i)
						}
						b.WriteString("\r\nbody\r\n")
						return []byte(b.String())
					}},
					{"base64-body-of-n-lines", func(n int) []byte {
						return []byte(hdr + "Content-Type: text/plain\r\nContent-Transfer-Encoding: base64\r\n\r\n" + rep("QUJDREVGR0hJSktMTU5PUFFSU1RVVldYWVo=\r\n", n))
					}},
					{"qp-body-of-n-soft-breaks", func(n int) []byte {
						return []byte(hdr + "Content-Type: text/plain\r\nContent-Transfer-Encoding: quoted-printable\r\n\r\n" + rep("abc=\r\n", n) + "end\r\n")
					}},
					{"n-encoded-words-in-subject", func(n int) []byte {
						return []byte("From: a@b.example\r\nSubject: " + rep("=?utf-8?q?x=C3=BC?= ", n) + "\r\n\r\nbody\r\n")
					}},
				}
				var ns []int
				for n := 0; n <= 40; n++ {
					ns = append(ns, n)
				}
				ns = append(ns, 63, 64, 65, 100, 127, 128, 129, 255, 256, 257, 1000, 1024, 4095, 4096, 4097)
				if r.Thorough {
					ns = append(ns, 10000, 65535, 65536, 100000)
				}
				type sz struct{ g, n int }
				var jobs []sz
				for gi := range gens {
					for _, n := range ns {
						if strings.Contains(gens[gi].name, "nested") && n > 1100 {
							continue
						}
						jobs = append(jobs, sz{gi, n})
					}
				}
				r.Parallel(len(jobs), "C09 size sweeps", func(i int) {
					s := newSlot()
					j := jobs[i]
					in := gens[j.g].f(j.n)
					what := fmt.Sprintf("size/%s", gens[j.g].name)
					exec(s, c09Case{Input: in, Mode: 0, What: what})
					exec(s, c09Case{Input: in, Mode: 1, What: what})
					if j.n <= 64 {
						exec(s, c09Case{Input: in, Mode: 3, What: what})
					}
					r.Transition(vf.Hash("size", gens[j.g].name), fmt.Sprint(j.n), vf.Hash("size-done", gens[j.g].name))
				})
				r.Extra("size_sweep_inputs", len(jobs))
			}
			// (c) seeds with a reader failing at every offset
			for si, seed := range seeds {
				si, seed := si, seed
				r.Parallel(len(seed)+1, "C09 failing reader", func(at int) {
					s := newSlot()
					exec(s, c09Case{Input: seed, Mode: 2, FailAt: at, What: fmt.Sprintf("seed%d/reader-fails", si)})
				})
			}
			r.TraceValidated()
		},
		Replay: func(r *vf.Run, kase json.RawMessage) {
			var k c09Case
			if err := json.Unmarshal(kase, &k); err != nil {
				r.HarnessError("bad case: %v", err)
				return
			}
			r.Eval(1, true)
			dir := os.TempDir()
			fmt.Printf("  mode=%d what=%s input=%q\n", k.Mode, k.What, clipb(k.Input, 300))
			if pan, pw := c09Run(k, dir); pan {
				key := "panic/" + vf.PanicSite(pw) + "/" + panicKind(pw)
				fmt.Printf("  -> %s\n%s\n", key, pw)
				r.Violation(key, firstLine(pw), k, nil)
			}
		},
	})
}

func panicKind(pw string) string {
	l := firstLine(pw)
	switch {
	case strings.Contains(l, "slice bounds out of range"):
		return "slice-bounds"
	case strings.Contains(l, "index out of range"):
		return "index-range"
	case strings.Contains(l, "nil pointer"):
		return "nil-deref"
	case strings.Contains(l, "nil map"):
		return "nil-map"
	}
	return "other"
}
