package checks

import (
	"bytes"
	"context"
	"crypto/tls"
	"encoding/base64"
	"encoding/json"
	"fmt"
	"github.com/wneessen/go-mail/log"
	"io"
	"strings"

	mail "github.com/wneessen/go-mail"
	"github.com/wneessen/go-mail/smtp"

	"verif/hx"
	"verif/refsmtp"
	"verif/sasl"
	"verif/vf"
)

// C14 — SASL mechanisms interoperate with conforming servers.

type c14Case struct {
	Mech   string `json:"mech"`
	User   string `json:"user"`
	Pass   string `json:"pass"`
	SUser  string `json:"suser"` // server-side credentials
	SPass  string `json:"spass"`
	Salt   []byte `json:"salt,omitempty"`
	Iter   int    `json:"iter,omitempty"`
	SNonce string `json:"snonce,omitempty"`
	Chal   string `json:"chal,omitempty"`
	Ext    string `json:"ext,omitempty"`    // SCRAM: optional extension attributes appended to the server-first-message
	TLSVer int    `json:"tlsver,omitempty"` // 0 none, 12, 13
	Twice  bool   `json:"twice,omitempty"`  // two exchanges with one Auth object (nonce freshness)
	Redial bool   `json:"redial,omitempty"` // through mail.Client: dial, close, dial again on the SAME Client (two connections)
	// Rounds: history — one Auth object used for len(Rounds) exchanges in a row, each against a server with its
	// own parameters (overriding the ones above)
	Rounds []c14Round `json:"rounds,omitempty"`
	// AbortAt/AbortHow: history — a first exchange with the same Auth object is ended by the server at its AbortAt-th
	// AUTH step (1 = the AUTH line itself) with AbortHow (0: 454, 1: 535, 2: disconnect); the judged exchange is the
	// conforming one that follows on a new connection
	AbortAt  int `json:"abort_at,omitempty"`
	AbortHow int `json:"abort_how,omitempty"`
	// Debug: 1 = the client logs its dialogue (debug log into a discarding logger), 2 = additionally with auth-data logging
	Debug int `json:"debug,omitempty"`
}

type c14Round struct {
	Salt  []byte `json:"salt"`
	Iter  int    `json:"iter"`
	SPass string `json:"spass"` // what the server expects in this round
}

var c14Mechs = []string{"PLAIN", "LOGIN", "CRAM-MD5", "XOAUTH2", "SCRAM-SHA-1", "SCRAM-SHA-256"}

func c14Admissible(mech, user, pass string) bool {
	has := func(s, set string) bool { return strings.ContainsAny(s, set) }
	switch mech {
	case "PLAIN":
		return user != "" && pass != "" && !has(user+pass, "\x00")
	case "LOGIN":
		return true
	case "CRAM-MD5":
		return user != "" && !has(user, "\x00")
	case "XOAUTH2":
		return user != "" && pass != "" && !has(user+pass, "\x01")
	default: // SCRAM: SASLprep / PRECIS prohibit control characters; empty user or password is not a credential
		for _, r := range user + pass {
			if r < 32 || r == 127 {
				return false
			}
		}
		return user != "" && pass != ""
	}
}

func c14Auth(k c14Case, st *tls.ConnectionState) smtp.Auth {
	switch k.Mech {
	case "PLAIN":
		return smtp.PlainAuth("", k.User, k.Pass, hx.Host, true)
	case "LOGIN":
		return smtp.LoginAuth(k.User, k.Pass, hx.Host, true)
	case "CRAM-MD5":
		return smtp.CRAMMD5Auth(k.User, k.Pass)
	case "XOAUTH2":
		return smtp.XOAuth2Auth(k.User, k.Pass)
	case "SCRAM-SHA-1":
		return smtp.ScramSHA1Auth(k.User, k.Pass)
	case "SCRAM-SHA-256":
		return smtp.ScramSHA256Auth(k.User, k.Pass)
	case "SCRAM-SHA-1-PLUS":
		return smtp.ScramSHA1PlusAuth(k.User, k.Pass, st)
	default:
		return smtp.ScramSHA256PlusAuth(k.User, k.Pass, st)
	}
}

func c14Server(k c14Case, conn *refsmtp.Conn, trace *sasl.Trace) func(s *refsmtp.Session, m string) refsmtp.AuthExchange {
	return func(s *refsmtp.Session, m string) refsmtp.AuthExchange {
		*trace = sasl.Trace{}
		switch m {
		case "PLAIN":
			return &sasl.Plain{User: k.SUser, Pass: k.SPass, T: trace}
		case "LOGIN":
			return &sasl.Login{User: k.SUser, Pass: k.SPass, T: trace}
		case "CRAM-MD5":
			ch := k.Chal
			if ch == "" {
				ch = "<1896.697170952@mail.example.test>"
			}
			return &sasl.CramMD5{User: k.SUser, Pass: k.SPass, Challenge: ch, T: trace}
		case "XOAUTH2":
			return &sasl.XOAuth2{User: k.SUser, Token: k.SPass, T: trace}
		}
		salt, iter, sn := k.Salt, k.Iter, k.SNonce
		if salt == nil {
			salt = []byte("0123456789abcdef")
		}
		if iter == 0 {
			iter = 16
		}
		if sn == "" {
			sn = "srvnonce"
		}
		sc := &sasl.Scram{User: k.SUser, Pass: k.SPass, SHA256: strings.Contains(m, "256"), Plus: strings.HasSuffix(m, "-PLUS"), Salt: salt, Iter: iter, SNonce: sn, FirstExt: k.Ext, T: trace}
		if sc.Plus && conn.ServerTLS != nil {
			st := conn.ServerTLS
			if st.Version >= tls.VersionTLS13 {
				sc.CBType = "tls-exporter"
				sc.CBData, _ = st.ExportKeyingMaterial("EXPORTER-Channel-Binding", nil, 32)
			} else {
				sc.CBType, sc.CBData = "tls-unique", st.TLSUnique
			}
		}
		return sc
	}
}

func c14Exec(r *vf.Run, k c14Case) []finding {
	var out []finding
	add := func(key, f string, a ...interface{}) { out = append(out, finding{key, fmt.Sprintf(f, a...)}) }
	k0 := k
	adm := c14Admissible(strings.TrimSuffix(k.Mech, "-PLUS"), k.User, k.Pass)
	mechs := "PLAIN LOGIN CRAM-MD5 XOAUTH2 SCRAM-SHA-1 SCRAM-SHA-256 SCRAM-SHA-1-PLUS SCRAM-SHA-256-PLUS"
	var nonces []string
	rounds := 1
	if k.Twice {
		rounds = 2
	}
	var sharedAuth smtp.Auth
	var sharedClient *mail.Client
	var curConn *refsmtp.Conn
	if k.Redial {
		rounds = 2
	}
	if len(k0.Rounds) > 0 {
		rounds = len(k0.Rounds)
	}
	if k0.AbortAt > 0 {
		rounds = 2
	}
	for round := 0; round < rounds; round++ {
		if len(k0.Rounds) > 0 {
			k.Salt, k.Iter, k.SPass = k0.Rounds[round].Salt, k0.Rounds[round].Iter, k0.Rounds[round].SPass
		}
		right := k.User == k.SUser && k.Pass == k.SPass
		caps := []string{"AUTH " + mechs}
		if k.TLSVer != 0 {
			caps = append(caps, "STARTTLS")
		}
		sess := &refsmtp.Session{Host: hx.Host, Caps: caps}
		conn := refsmtp.NewConn(sess)
		trace := &sasl.Trace{}
		sess.NewAuth = c14Server(k, conn, trace)
		aborted := false
		if k0.AbortAt > 0 && round == 0 {
			step := 0
			sess.Script = func(s *refsmtp.Session, ev *refsmtp.Event, def refsmtp.Action) refsmtp.Action {
				if ev.Verb != "AUTH" && ev.Verb != "AUTHRESP" {
					return def
				}
				step++
				if step != k0.AbortAt {
					return def
				}
				aborted = true
				switch k0.AbortHow {
				case 1:
					return refsmtp.Action{Kind: refsmtp.ActReply, Code: 535, Text: []string{"5.7.8 authentication failed"}}
				case 2:
					return refsmtp.Action{Kind: refsmtp.ActDrop}
				}
				return refsmtp.Action{Kind: refsmtp.ActReply, Code: 454, Text: []string{"4.7.0 temporary authentication failure"}}
			}
		}
		var authErr error
		if k.TLSVer != 0 {
			cfg := hx.ServerTLS(hx.Mat().Good)
			if k.TLSVer == 12 {
				cfg.MaxVersion = tls.VersionTLS12
			} else {
				cfg.MinVersion = tls.VersionTLS13
			}
			conn.TLSConfig = cfg
			curConn = conn
			rig := &hx.Rig{Mk: func(n int) *refsmtp.Conn { return curConn }}
			types := map[string]mail.SMTPAuthType{"SCRAM-SHA-1-PLUS": mail.SMTPAuthSCRAMSHA1PLUS, "SCRAM-SHA-256-PLUS": mail.SMTPAuthSCRAMSHA256PLUS, "PLAIN": mail.SMTPAuthPlain,
				"LOGIN": mail.SMTPAuthLogin, "CRAM-MD5": mail.SMTPAuthCramMD5, "XOAUTH2": mail.SMTPAuthXOAUTH2, "SCRAM-SHA-1": mail.SMTPAuthSCRAMSHA1, "SCRAM-SHA-256": mail.SMTPAuthSCRAMSHA256}
			cl := sharedClient
			if cl == nil || !k.Redial {
				var err error
				cl, err = mail.NewClient(hx.Host, mail.WithDialContextFunc(rig.Dial), mail.WithHELO("client.example.test"), mail.WithTLSConfig(hx.ClientTLS(hx.Host)),
					mail.WithTLSPolicy(mail.TLSMandatory), mail.WithSMTPAuth(types[k.Mech]), mail.WithUsername(k.User), mail.WithPassword(k.Pass))
				if err == nil && k.Debug > 0 {
					cl.SetLogger(log.New(io.Discard, log.LevelDebug))
					cl.SetDebugLog(true)
					cl.SetLogAuthData(k.Debug == 2)
				}
				if err != nil {
					r.HarnessError("C14 NewClient: %v", err)
					return nil
				}
				sharedClient = cl
			}
			pan, pw := vf.Guard(func() { authErr = cl.DialWithContext(context.Background()) })
			if pan {
				return []finding{{"panic/" + vf.PanicSite(pw), firstLine(pw)}}
			}
			if authErr == nil {
				_ = cl.Close()
			}
			if conn.ServerTLS == nil {
				r.HarnessError("C14: TLS handshake did not complete: %v / %v", conn.TLSErr, authErr)
				return nil
			}
			wantVer := uint16(tls.VersionTLS12)
			if k.TLSVer == 13 {
				wantVer = tls.VersionTLS13
			}
			if conn.ServerTLS.Version != wantVer {
				r.HarnessError("C14: negotiated TLS version %x, wanted %x", conn.ServerTLS.Version, wantVer)
			}
		} else {
			pan, pw := vf.Guard(func() {
				cl, err := smtp.NewClient(conn, hx.Host)
				if err != nil {
					r.HarnessError("C14 smtp.NewClient: %v", err)
					return
				}
				if sharedAuth == nil || !(k.Twice || len(k0.Rounds) > 0 || k0.AbortAt > 0) {
					sharedAuth = c14Auth(k, nil)
				}
				if k.Debug > 0 {
					cl.SetLogger(log.New(io.Discard, log.LevelDebug))
					cl.SetDebugLog(true)
					if k.Debug == 2 {
						cl.SetLogAuthData()
					}
				}
				authErr = cl.Auth(sharedAuth)
				if authErr == nil {
					_ = cl.Quit()
				}
				_ = cl.Close()
			})
			if pan {
				return []finding{{"panic/" + vf.PanicSite(pw), firstLine(pw)}}
			}
		}
		if k0.AbortAt > 0 && round == 0 {
			if aborted {
				r.Outcome(fmt.Sprintf("reached/first-exchange-aborted/%s/step=%d", k.Mech, k0.AbortAt))
			}
			continue // the first exchange is history: only the conforming one that follows is judged
		}
		for _, il := range sess.Illegal {
			if il.Key == "unknown-command" && strings.Contains(il.What, `"*"`) {
				continue // C04's known finding
			}
			add("malformed-command/"+il.Key+"/"+k.Mech, "%s", il.What)
			break
		}
		ok := authErr == nil
		if ok && trace.Accepted && right && len(k0.Rounds) > 0 {
			r.Outcome(fmt.Sprintf("reached/history-exchange-%d-accepted", round+1))
		}
		if ok && trace.Accepted && right && k.Redial && round == 1 {
			r.Outcome("reached/redial-accepted")
		}
		if ok && trace.Accepted && right && strings.Contains(k.User+k.Pass, "%") {
			r.Outcome("reached/percent-credentials-accepted/" + k.Mech)
		}
		if ok && trace.Accepted && right {
			if k.TLSVer != 0 {
				r.Outcome(fmt.Sprintf("accepted/%s/tls1.%d", k.Mech, k.TLSVer-10))
			} else {
				r.Outcome("accepted/" + k.Mech)
			}
		}
		cls := credClass(k.User) + "," + credClass(k.Pass)
		switch {
		case right && adm && (!ok || !trace.Accepted):
			reason := trace.Reason
			if reason == "" && authErr != nil {
				reason = "client error: " + authErr.Error()
			}
			if len(k0.Rounds) > 0 {
				cls += fmt.Sprintf("/exchange-%d-of-one-auth-object", round+1)
			}
			if k0.AbortAt > 0 {
				cls += fmt.Sprintf("/after-an-exchange-aborted-at-step-%d", k0.AbortAt)
			}
			add(fmt.Sprintf("right-credentials-rejected/%s/%s", k.Mech, cls), "%s with the right credentials (user %q) was not accepted by the reference verifier: %s", k.Mech, k.User, clipS(reason, 200))
		case !right && (ok || trace.Accepted):
			add(fmt.Sprintf("wrong-credentials-accepted/%s/%s", k.Mech, cls), "%s: client has (%q,%q), server expects (%q,%q), yet the exchange succeeded", k.Mech, k.User, k.Pass, k.SUser, k.SPass)
		case ok != trace.Accepted:
			add(fmt.Sprintf("verdicts-disagree/%s", k.Mech), "%s: client says success=%v, reference verifier says accepted=%v (%s)", k.Mech, ok, trace.Accepted, trace.Reason)
		}
		if strings.HasPrefix(k.Mech, "SCRAM") && trace.CNonce != "" {
			nonces = append(nonces, trace.CNonce)
			raw, err := base64.StdEncoding.DecodeString(trace.CNonce)
			if err != nil || len(raw) < 18 {
				add("weak-client-nonce/"+k.Mech, "client nonce %q carries less than 18 bytes", trace.CNonce)
			}
		}
		if right && adm && k.TLSVer != 0 && trace.Accepted && strings.HasSuffix(k.Mech, "-PLUS") {
			wantCB := "p=tls-unique,,"
			if k.TLSVer == 13 {
				wantCB = "p=tls-exporter,,"
			}
			if trace.GS2 != wantCB {
				add(fmt.Sprintf("channel-binding-type/tls1.%d", k.TLSVer-10), "gs2 header %q, want %q", trace.GS2, wantCB)
			}
		}
	}
	if k.Twice && len(nonces) == 2 && nonces[0] == nonces[1] {
		add("client-nonce-reused/"+k.Mech, "two exchanges with one Auth object used the same client nonce %q", nonces[0])
	}
	if k.Twice && len(nonces) != 2 && c14Admissible("SCRAM", k.User, k.Pass) {
		add("nonce-not-observed/"+k.Mech, "expected two client-first messages, saw %d", len(nonces))
	}
	return out
}

func clipS(s string, n int) string {
	if len(s) > n {
		return s[:n] + "…"
	}
	return s
}

func credClass(s string) string {
	switch {
	case s == "":
		return "empty"
	case strings.ContainsAny(s, "\x00\x01"):
		return "control"
	case strings.Contains(s, "%"):
		return "percent"
	case strings.Contains(s, ",") && strings.Contains(s, "="):
		return "comma+equals"
	case strings.Contains(s, ","):
		return "comma"
	case strings.Contains(s, "="):
		return "equals"
	case strings.Contains(s, " "):
		return "blank"
	case strings.IndexFunc(s, func(r rune) bool { return r > 127 }) >= 0:
		return "non-ascii"
	case len(s) > 100:
		return "long"
	}
	return "plain"
}

func init() {
	vf.Register(&vf.Check{
		ID: "C14", Title: "SASL mechanisms interoperate with conforming servers",
		Run: func(r *vf.Run) {
			r.SetRule("user names and passwords/tokens: ALL strings of length 0..2 (thorough 0..3 for users) over {a B = , SP é 日 \\x01 %} plus a 300-byte value, plus users and passwords of 28 lengths between 63 and 16384 bytes (around the powers of two and the 512-octet command line), as (user, password) pairs with the right and with two kinds of wrong server-side credentials (a sample of them also while the client logs its dialogue, with and without auth-data logging), for PLAIN, LOGIN, CRAM-MD5 (× challenge strings), XOAUTH2, SCRAM-SHA-1, SCRAM-SHA-256; SCRAM parameter sweeps (pseudo-random salts of length 1..20 and 64, all salts of length 1..3 over {00 01 '=' ff} and 16-byte salts framed by / made of those bytes, iteration counts {1,2,3,4,4095,4096,4097,10000,20000} (thorough: every i<=512 and every 97th up to 20000), server nonce suffixes incl. '=' and 24 printable chars, optional extension attributes after the iteration count); SCRAM-SHA-1/256-PLUS over real TLS 1.2 (tls-unique) and TLS 1.3 (tls-exporter) handshakes; two exchanges on one Auth object (nonce freshness); for every mechanism, a first exchange that the server ends at its 1st..4th AUTH step with {454, 535, disconnect} followed by a conforming exchange with the same Auth object; histories of 2 (thorough 3) exchanges with one Auth object, every combination of per-exchange server parameters over {2 salts} × {i=16,17,1,4096} × {server expects the right / another password}; all mechanisms through mail.Client over real TLS 1.2/1.3 with a re-dial on the same Client (two connections, fresh channel binding each); the verdict of reference verifiers written from the RFCs (self-tested on RFC 5802/7677/2195/4616/6070 vectors) must be 'accepted' exactly when credentials are equal; distinct by case tuple")
			r.Assume("admissible credentials per mechanism: PLAIN non-empty without NUL; XOAUTH2 without ^A; SCRAM non-empty without control characters (SASLprep/PRECIS prohibit them); Unicode restricted to strings on which SASLprep and PRECIS OpaqueString agree",
				"an empty server nonce suffix is not exercised (the property is silent)")
			alpha := []string{"a", "B", "=", ",", " ", "é", "日", "\x01", "%"}
			strs := []string{"", repeatTo("long-credential-", 300)}
			for _, x := range alpha {
				strs = append(strs, x)
				for _, y := range alpha {
					strs = append(strs, x+y)
				}
			}
			users := append([]string{}, strs...)
			if r.Thorough {
				for _, x := range alpha {
					for _, y := range alpha {
						for _, z := range alpha {
							users = append(users, x+y+z)
						}
					}
				}
			}
			var cases []c14Case
			for _, mech := range c14Mechs {
				// the same exchanges while the client logs its dialogue (with and without auth-data logging)
				for dbg := 1; dbg <= 2; dbg++ {
					for _, u := range []string{"user", "us,er=1"} {
						for _, pw := range []string{"pw", "p=,w d"} {
							cases = append(cases, c14Case{Mech: mech, User: u, Pass: pw, SUser: u, SPass: pw, Debug: dbg},
								c14Case{Mech: mech, User: u, Pass: pw, SUser: u, SPass: pw + "x", Debug: dbg})
						}
					}
				}
				// credential lengths around the powers of two, the 512-octet command line and beyond
				for _, n := range []int{63, 64, 65, 127, 128, 129, 254, 255, 256, 257, 340, 355, 356, 372, 373, 400, 497, 498, 499, 511, 512, 513, 990, 1000, 1024, 2048, 4096, 16384} {
					long := repeatTo("Long-credential-0123456789-", n)
					cases = append(cases, c14Case{Mech: mech, User: "user", Pass: long, SUser: "user", SPass: long},
						c14Case{Mech: mech, User: "user", Pass: long, SUser: "user", SPass: long[:n-1] + "x"},
						c14Case{Mech: mech, User: long, Pass: "pw", SUser: long, SPass: "pw"},
						c14Case{Mech: mech, User: long, Pass: "pw", SUser: long[:n-1] + "x", SPass: "pw"})
				}
				for ui, u := range users {
					for pi, p := range strs {
						if !r.Thorough && len(u) > 2 && len(p) > 2 && (ui+pi)%3 != 0 {
							continue
						}
						if len(u) > 4 && !r.Thorough && pi%5 != 0 {
							continue
						}
						cases = append(cases, c14Case{Mech: mech, User: u, Pass: p, SUser: u, SPass: p})
						if (ui+pi)%4 == 0 {
							cases = append(cases, c14Case{Mech: mech, User: u, Pass: p, SUser: u, SPass: p + "x"})
							cases = append(cases, c14Case{Mech: mech, User: u, Pass: p, SUser: "x" + u, SPass: p})
						}
					}
				}
			}
			for _, ch := range []string{"<1.2@h>", "", "a b", "=,=", "é日", repeatTo("c", 300)} {
				cases = append(cases, c14Case{Mech: "CRAM-MD5", User: "us er", Pass: "p=,w", SUser: "us er", SPass: "p=,w", Chal: ch + " "})
			}
			iters := []int{1, 2, 3, 4, 4095, 4096, 4097, 10000, 20000}
			if r.Thorough {
				iters = nil
				for i := 1; i <= 512; i++ {
					iters = append(iters, i)
				}
				for i := 609; i <= 20000; i += 97 {
					iters = append(iters, i)
				}
			}
			for _, mech := range []string{"SCRAM-SHA-1", "SCRAM-SHA-256"} {
				for _, it := range iters {
					cases = append(cases, c14Case{Mech: mech, User: "us,er=1", Pass: "pass word", SUser: "us,er=1", SPass: "pass word", Iter: it})
				}
				for sl := 1; sl <= 20; sl++ {
					cases = append(cases, c14Case{Mech: mech, User: "user", Pass: "pencil", SUser: "user", SPass: "pencil", Salt: c18Bin(sl)})
				}
				cases = append(cases, c14Case{Mech: mech, User: "user", Pass: "pencil", SUser: "user", SPass: "pencil", Salt: c18Bin(64)})
				// salts are arbitrary octets: all salts of length 1..3 over {0x00, 0x01, 0x3d '=', 0xff} and long salts
				// framed by / made of the extreme bytes
				sb := []byte{0x00, 0x01, '=', 0xff}
				for _, a := range sb {
					cases = append(cases, c14Case{Mech: mech, User: "user", Pass: "pencil", SUser: "user", SPass: "pencil", Salt: []byte{a}})
					for _, b := range sb {
						cases = append(cases, c14Case{Mech: mech, User: "user", Pass: "pencil", SUser: "user", SPass: "pencil", Salt: []byte{a, b}})
						for _, c := range sb {
							cases = append(cases, c14Case{Mech: mech, User: "user", Pass: "pencil", SUser: "user", SPass: "pencil", Salt: []byte{a, b, c}})
						}
						long := append(append([]byte{a}, c18Bin(14)...), b)
						cases = append(cases, c14Case{Mech: mech, User: "user", Pass: "pencil", SUser: "user", SPass: "pencil", Salt: long})
					}
					cases = append(cases, c14Case{Mech: mech, User: "user", Pass: "pencil", SUser: "user", SPass: "pencil", Salt: bytes.Repeat([]byte{a}, 16)})
				}
				for _, sn := range []string{"x", "=", "==a=", "abcdefghijklmnopqrstuvwx", "!#$%&'()*+-./:;<>?@[]^_"} {
					cases = append(cases, c14Case{Mech: mech, User: "user", Pass: "pencil", SUser: "user", SPass: "pencil", SNonce: sn})
				}
				// optional extensions after the iteration count (RFC 5802 5.1: unknown optional attributes are ignored)
				for _, ext := range []string{",x=opaque", ",y=1,z=2", ",a=b=c", ",x="} {
					cases = append(cases, c14Case{Mech: mech, User: "user", Pass: "pencil", SUser: "user", SPass: "pencil", Ext: ext},
						c14Case{Mech: mech, User: "user", Pass: "pencil", SUser: "user", SPass: "other", Ext: ext})
				}
				cases = append(cases, c14Case{Mech: mech, User: "user", Pass: "pencil", SUser: "user", SPass: "pencil", Twice: true})
				cases = append(cases, c14Case{Mech: mech, User: "us,er", Pass: "pen=cil", SUser: "us,er", SPass: "pen=cil", Twice: true})
			}
			// histories: one Auth object through 2 (thorough: 3) exchanges, every combination of per-exchange server
			// parameters over {salt A, salt B} × {i=16, 17, 1, 4096} × {server expects the right / another password}
			{
				salts := [][]byte{[]byte("salt-AAAA-0123456"), []byte("salt-BBBB-6543210")}
				its := []int{16, 17, 1, 4096}
				var alts []c14Round
				for _, sa := range salts {
					for _, it := range its {
						for _, sp := range []string{"pencil", "other"} {
							alts = append(alts, c14Round{Salt: sa, Iter: it, SPass: sp})
						}
					}
				}
				for _, mech := range []string{"SCRAM-SHA-1", "SCRAM-SHA-256"} {
					for _, a := range alts {
						for _, b := range alts {
							cases = append(cases, c14Case{Mech: mech, User: "user", Pass: "pencil", SUser: "user", SPass: "pencil", Rounds: []c14Round{a, b}})
							if r.Thorough {
								for _, c := range alts {
									cases = append(cases, c14Case{Mech: mech, User: "user", Pass: "pencil", SUser: "user", SPass: "pencil", Rounds: []c14Round{a, b, c}})
								}
							}
						}
					}
				}
			}
			// histories: a first exchange ended by the server at every step, then a conforming exchange with the same object
			for _, mech := range c14Mechs {
				for at := 1; at <= 4; at++ {
					for how := 0; how < 3; how++ {
						cases = append(cases, c14Case{Mech: mech, User: "user", Pass: "pencil", SUser: "user", SPass: "pencil", AbortAt: at, AbortHow: how})
					}
				}
			}
			plusCreds := [][2]string{{"user", "pencil"}, {"us,er=x", "p=,w d"}, {"é日", "pä ss"}, {"a", "b"}, {"user", "wrong"}}
			for _, mech := range []string{"SCRAM-SHA-1-PLUS", "SCRAM-SHA-256-PLUS"} {
				for _, ver := range []int{12, 13} {
					for ci, c := range plusCreds {
						k := c14Case{Mech: mech, User: c[0], Pass: c[1], SUser: c[0], SPass: c[1], TLSVer: ver}
						if ci == len(plusCreds)-1 {
							k.SPass = "pencil"
						}
						cases = append(cases, k)
					}
				}
			}
			for _, mech := range []string{"SCRAM-SHA-1-PLUS", "SCRAM-SHA-256-PLUS", "PLAIN", "LOGIN", "CRAM-MD5", "XOAUTH2", "SCRAM-SHA-1", "SCRAM-SHA-256"} {
				for _, ver := range []int{12, 13} {
					cases = append(cases, c14Case{Mech: mech, User: "user", Pass: "pencil", SUser: "user", SPass: "pencil", TLSVer: ver, Redial: true},
						c14Case{Mech: mech, User: "us,er=x", Pass: "p=,w d", SUser: "us,er=x", SPass: "p=,w d", TLSVer: ver, Redial: true})
				}
			}
			r.Extra("credential_strings", len(strs))
			r.Parallel(len(cases), "C14 cases", func(i int) {
				k := cases[i]
				fs := c14Exec(r, k)
				b, _ := json.Marshal(k)
				r.Eval(vf.Hash(string(b)), true)
				r.TraceValidated()
				right := k.User == k.SUser && k.Pass == k.SPass
				r.Transition(vf.Hash(k.Mech), credClass(k.User)+"/"+credClass(k.Pass)+fmt.Sprint(right), vf.Hash(k.Mech, fmt.Sprint(right), fmt.Sprint(len(fs) == 0)))
				if i%3001 == 0 {
					r.Sample(k)
				}
				if len(fs) == 0 {
					if right {
						r.Outcome("right-accepted-or-inadmissible")
					} else {
						r.Outcome("wrong-rejected")
					}
				}
				for _, f := range fs {
					f := f
					r.Outcome(strings.SplitN(f.key, "/", 2)[0])
					r.Violation(f.key, f.what, k, func() string {
						for _, x := range c14Exec(r, k) {
							if x.key == f.key {
								return f.key
							}
						}
						return ""
					})
				}
			})
			r.Reached("reached/first-exchange-aborted/LOGIN/step=2", "reached/first-exchange-aborted/LOGIN/step=3", "reached/first-exchange-aborted/PLAIN/step=1", "reached/first-exchange-aborted/SCRAM-SHA-256/step=3", "reached/first-exchange-aborted/CRAM-MD5/step=2", "reached/history-exchange-1-accepted", "reached/history-exchange-2-accepted", "reached/redial-accepted", "reached/percent-credentials-accepted/CRAM-MD5", "reached/percent-credentials-accepted/PLAIN",
				"reached/percent-credentials-accepted/SCRAM-SHA-256", "accepted/SCRAM-SHA-256-PLUS/tls1.2", "accepted/SCRAM-SHA-256-PLUS/tls1.3", "accepted/XOAUTH2", "accepted/LOGIN")
		},
		Replay: func(r *vf.Run, kase json.RawMessage) {
			var k c14Case
			if err := json.Unmarshal(kase, &k); err != nil {
				r.HarnessError("bad case: %v", err)
				return
			}
			r.Eval(1, true)
			fmt.Printf("  case: %+v\n", k)
			for _, f := range c14Exec(r, k) {
				fmt.Printf("  -> %s: %s\n", f.key, f.what)
				r.Violation(f.key, f.what, k, nil)
			}
		},
	})
}
