package checks

import (
	"bytes"
	"encoding/json"
	"fmt"
	"io"
	"strings"

	mail "github.com/wneessen/go-mail"

	"verif/hx"
	"verif/mb"
	"verif/mimeread"
	"verif/vf"
)

// C18 — generated output obeys Internet-message line discipline, however producers chunk their writes.

type c18Case struct {
	Kind   string   `json:"kind"`             // "body" or "header"
	N      int      `json:"n,omitempty"`      // content length
	B64    bool     `json:"b64,omitempty"`    // message encoding base64 instead of QP
	Cuts   []int    `json:"cuts,omitempty"`   // producer output is split at these offsets
	Chunk  int      `json:"chunk,omitempty"`  // or: uniform chunk size
	Header string   `json:"header,omitempty"` // header name
	Words  []string `json:"words,omitempty"`  // header value = words joined as given in Seps
	Seps   []string `json:"seps,omitempty"`
	Addrs  int      `json:"addrs,omitempty"` // number of To addresses (header kind "to")
	// NVals > 0: the header is set with NVals separate values of VLen characters each (one multi-valued call);
	// with Addrs > 0, VLen > 0 makes the addresses short ones whose local part has VLen characters
	NVals int `json:"nvals,omitempty"`
	VLen  int `json:"vlen,omitempty"`
	// BLen > 0 (kind "boundary"): a multipart message of shape BShape (0 alternative, 1 body+embed, 2 body+attachment,
	// 3 all three levels) with a caller-fixed boundary of BLen characters: go-mail's own multipart header lines
	BLen   int `json:"blen,omitempty"`
	BShape int `json:"bshape,omitempty"`
}

// c18ShortAddr is the i-th short address with a local part of l characters.
func c18ShortAddr(i, l int) string {
	return fmt.Sprintf("<%s@%c%d.ex>", repeatTo("abcdefghijklmnopqrstuvwxyz"[i%26:], l), 'a'+rune(i%26), i)
}

// c18Text builds deterministic text content of length n that exercises the QP encoder.
func c18Text(n int) []byte {
	pat := "The quick=brown fox jumps ovér the lazy dog. \r\nSecond line with trailing blank \r\n.dot\tTab and a very-long-unbroken-token-that-goes-on-and-on-and-on-and-on-and-on-and-on-and-on-and-on-for-a-while\r\n"
	var b bytes.Buffer
	for b.Len() < n {
		b.WriteString(pat)
	}
	return b.Bytes()[:n]
}

func c18Bin(n int) []byte {
	b := make([]byte, n)
	x := uint32(n*2654435761 + 7)
	for i := range b {
		x = x*1664525 + 1013904223
		b[i] = byte(x >> 24)
	}
	return b
}

// scanLines checks raw line discipline of a byte block: CRLF only; returns the lines.
func scanLines(raw []byte) (lines []string, problems []string) {
	start := 0
	for i := 0; i < len(raw); i++ {
		switch raw[i] {
		case '\r':
			if i+1 >= len(raw) || raw[i+1] != '\n' {
				problems = append(problems, "bare-CR")
			}
		case '\n':
			if i == 0 || raw[i-1] != '\r' {
				problems = append(problems, "bare-LF")
				lines = append(lines, string(raw[start:i]))
			} else {
				lines = append(lines, string(raw[start:i-1]))
			}
			start = i + 1
		}
	}
	if start < len(raw) {
		lines = append(lines, string(raw[start:]))
		problems = append(problems, "last-line-without-CRLF")
	}
	return
}

func c18CheckEntity(e *mimeread.Entity, add func(key, f string, a ...interface{}), where string) {
	// header lines
	hl, probs := scanLines(e.HeaderRaw)
	for _, p := range probs {
		add("header/"+p, "%s: %s in a header section", where, p)
	}
	for _, ln := range hl {
		if len(ln) > 78 {
			body := ln
			if len(body) > 0 && (body[0] == ' ' || body[0] == '\t') {
				body = strings.TrimLeft(body, " \t")
			} else if i := strings.Index(body, ": "); i >= 0 {
				body = body[i+2:]
				if strings.TrimSpace(body) != "" && !strings.ContainsAny(body, " \t") {
					// "Name: token": the line is not a single token — it could have been folded behind the colon
					add("header/line-too-long/foldable-after-colon", "%s: header line of %d characters holds the field name and a token that could have gone to a continuation line: %q", where, len(ln), clipb([]byte(ln), 100))
				}
			}
			if strings.ContainsAny(body, " \t") {
				kind := "foldable-at-space"
				if !strings.Contains(body, " ") {
					kind = "only-TAB-blanks"
				}
				add("header/line-too-long/"+kind, "%s: header line of %d characters contains blanks where it could have been folded: %q", where, len(ln), clipb([]byte(ln), 100))
			}
		}
	}
	if strings.HasPrefix(e.MediaType, "multipart/") {
		for i, c := range e.Children {
			c18CheckEntity(c, add, fmt.Sprintf("%s.%d", where, i+1))
		}
		return
	}
	if e.CTE == "quoted-printable" || e.CTE == "base64" {
		bl, probs := scanLines(e.Body)
		for _, p := range probs {
			if p == "last-line-without-CRLF" {
				continue // inside a multipart the CRLF before the delimiter belongs to the delimiter
			}
			add("body/"+p+"/"+e.CTE, "%s: %s in a %s body", where, p, e.CTE)
		}
		for _, ln := range bl {
			if len(ln) > 76 {
				add("body/line-too-long/"+e.CTE, "%s: %s body line of %d characters", where, e.CTE, len(ln))
				break
			}
		}
	}
}

func c18Exec(r *vf.Run, k c18Case) []finding {
	var out []finding
	add := func(key, f string, a ...interface{}) { out = append(out, finding{key, fmt.Sprintf(f, a...)}) }
	if k.Kind == "body" {
		text, bin := c18Text(k.N), c18Bin(k.N)
		chunked := func(name string, content []byte, def func(io.Writer) (int64, error)) func(io.Writer) (int64, error) {
			return func(w io.Writer) (int64, error) {
				var total int64
				write := func(p []byte) error {
					n, err := w.Write(p)
					total += int64(n)
					return err
				}
				if k.Chunk > 0 {
					for i := 0; i < len(content); i += k.Chunk {
						j := i + k.Chunk
						if j > len(content) {
							j = len(content)
						}
						if err := write(content[i:j]); err != nil {
							return total, err
						}
					}
					return total, nil
				}
				prev := 0
				for _, c := range k.Cuts {
					if c > len(content) {
						c = len(content)
					}
					if c > prev {
						if err := write(content[prev:c]); err != nil {
							return total, err
						}
						prev = c
					}
				}
				if err := write(content[prev:]); err != nil {
					return total, err
				}
				return total, nil
			}
		}
		enc := "qp"
		if k.B64 {
			enc = "b64"
		}
		spec := mb.Msg{Enc: enc, Parts: []mb.Part{{Type: "text/plain", Content: text}}, Attach: []mb.File{{Name: "data.bin", Content: bin}}}
		single := mb.Msg{Enc: enc, Parts: []mb.Part{{Type: "text/plain", Content: text}}}
		for si, sp := range []mb.Msg{spec, single} {
			m, err := mb.Build(sp, &mb.Hooks{Wrap: chunked})
			if err != nil {
				r.HarnessError("C18 build: %v", err)
				return nil
			}
			var buf bytes.Buffer
			pan, pw := vf.Guard(func() { _, err = m.WriteTo(&buf) })
			if pan {
				return []finding{{"panic/" + vf.PanicSite(pw), firstLine(pw)}}
			}
			if err != nil {
				add("render-error", "WriteTo: %v", err)
				continue
			}
			e := mimeread.Parse(buf.Bytes())
			shape := []string{"multipart", "single"}[si]
			c18CheckEntity(e, func(key, f string, a ...interface{}) { add(key+"/"+shape, f, a...) }, "message")
			for _, f := range checkRendered(sp, buf.Bytes(), e) {
				if strings.HasPrefix(f.key, "content/qp-bare-CR") {
					continue
				}
				out = append(out, finding{"decode/" + f.key + "/" + shape, f.what})
			}
		}
		return out
	}
	if k.Kind == "parthdr" {
		// a message without multipart: the part's / the file's own header lines stand in the message header. BShape 0 = one
		// body part with a description of BLen characters, 1 = nothing but one attachment whose name (with blanks) has BLen
		// characters and that carries a description; N = 1: rendered through WriteToSkipMiddleware instead of WriteTo
		words := repeatTo("quarterly figures and other words ", k.BLen)
		sp := mb.Msg{Parts: []mb.Part{{Type: "text/plain", Content: []byte("body\r\n"), Desc: words}}}
		if k.BShape == 1 {
			sp = mb.Msg{Attach: []mb.File{{Name: strings.TrimSpace(words) + ".txt", Content: c18Bin(30), Desc: words}}}
		}
		m, err := mb.Build(sp, nil)
		if err != nil {
			r.HarnessError("C18 build: %v", err)
			return nil
		}
		var buf bytes.Buffer
		pan, pw := vf.Guard(func() {
			if k.N == 1 {
				_, err = m.WriteToSkipMiddleware(&buf, "verif-no-such-middleware")
			} else {
				_, err = m.WriteTo(&buf)
			}
		})
		if pan {
			return []finding{{"panic/" + vf.PanicSite(pw), firstLine(pw)}}
		}
		if err != nil {
			return []finding{{"render-error", err.Error()}}
		}
		e := mimeread.Parse(buf.Bytes())
		via := []string{"WriteTo", "WriteToSkipMiddleware"}[k.N]
		c18CheckEntity(e, func(key, f string, a ...interface{}) { add(key+"/top-level-part-header/via="+via, f, a...) }, "message")
		return out
	}
	if k.Kind == "boundary" {
		sp := mb.Msg{Boundary: repeatTo("boundary-0123456789-ABCDEFGHIJKLMNOPQRSTUVWXYZ-", k.BLen), Parts: []mb.Part{{Type: "text/plain", Content: []byte("body\r\n")}}}
		if k.BShape == 0 || k.BShape == 3 {
			sp.Parts = append(sp.Parts, mb.Part{Type: "text/html", Content: []byte("<p>body</p>\r\n")})
		}
		if k.BShape == 1 || k.BShape == 3 {
			sp.Embeds = []mb.File{{Name: "e.png", Content: c18Bin(40)}}
		}
		if k.BShape >= 2 {
			sp.Attach = []mb.File{{Name: "a.bin", Content: c18Bin(40)}}
		}
		m, err := mb.Build(sp, nil)
		if err != nil {
			r.HarnessError("C18 build: %v", err)
			return nil
		}
		var buf bytes.Buffer
		pan, pw := vf.Guard(func() { _, err = m.WriteTo(&buf) })
		if pan {
			return []finding{{"panic/" + vf.PanicSite(pw), firstLine(pw)}}
		}
		if err != nil {
			return []finding{{"render-error", err.Error()}}
		}
		e := mimeread.Parse(buf.Bytes())
		c18CheckEntity(e, add, "message")
		for _, f := range checkRendered(sp, buf.Bytes(), e) {
			out = append(out, finding{"decode/" + f.key + "/fixed-boundary", f.what})
		}
		return out
	}
	// header cases
	m := mail.NewMsg()
	_ = m.From("sender@snd.example")
	m.SetDateWithValue(hx.T0)
	m.SetMessageIDWithValue("fixed.id@harness.example")
	m.SetBodyString(mail.TypeTextPlain, "body\r\n")
	var value string
	hname := k.Header
	if k.Addrs > 0 {
		hname = "To"
		var as []string
		for i := 0; i < k.Addrs; i++ {
			if k.VLen > 0 {
				as = append(as, c18ShortAddr(i, k.VLen))
				continue
			}
			as = append(as, fmt.Sprintf(`"Recipient number %d with a long display name" <recipient-%d-with-long-local-part@subdomain%d.rcp.example>`, i, i, i))
		}
		if err := m.To(as...); err != nil {
			r.HarnessError("C18 To: %v", err)
			return nil
		}
	} else if k.NVals > 0 {
		_ = m.To("rcpt@rcp.example")
		var vals []string
		for i := 0; i < k.NVals; i++ {
			vals = append(vals, repeatTo("abcdefghijklmnopqrstuvwxyz"[i%26:], k.VLen))
		}
		value = strings.Join(vals, ", ")
		m.SetGenHeader(mail.Header(hname), vals...)
	} else {
		_ = m.To("rcpt@rcp.example")
		var b strings.Builder
		for i, w := range k.Words {
			b.WriteString(w)
			if i < len(k.Seps) {
				b.WriteString(k.Seps[i])
			}
		}
		value = b.String()
		if hname == "Subject" {
			m.Subject(value)
		} else {
			m.SetGenHeader(mail.Header(hname), value)
		}
	}
	var buf bytes.Buffer
	var err error
	pan, pw := vf.Guard(func() { _, err = m.WriteTo(&buf) })
	if pan {
		return []finding{{"panic/" + vf.PanicSite(pw), firstLine(pw)}}
	}
	if err != nil {
		return []finding{{"render-error", err.Error()}}
	}
	e := mimeread.Parse(buf.Bytes())
	for _, p := range e.AllProblems() {
		add("header/malformed", "%s", p)
	}
	c18CheckEntity(e, add, "message")
	if k.Addrs == 0 {
		got := e.First(hname)
		ascii := true
		for i := 0; i < len(value); i++ {
			if value[i] < 32 || value[i] > 126 {
				ascii = false
			}
		}
		if strings.Contains(value, "=?") {
			ascii = false
		}
		want := strings.TrimLeft(value, " \t")
		if ascii {
			if got != want {
				if normWS(got) == normWS(want) {
					kind := "inner-blanks"
					if strings.TrimRight(want, " \t") != want && strings.TrimRight(want, " \t") == got {
						kind = "trailing-blanks-dropped"
					} else if strings.TrimRight(want, " \t") != want {
						kind = "trailing-and-inner"
					}
					add("header/unfold-whitespace-changed/"+kind, "field %s unfolds to %q, the value set was %q", hname, got, want)
				} else {
					add("header/unfold-value-changed", "field %s unfolds to %q, the value set was %q", hname, got, want)
				}
			}
		} else {
			d, derr := mimeread.DecodeWords(got)
			if derr != nil || normWS(d) != normWS(want) {
				add("header/unfold-value-changed/encoded", "field %s decodes to %q (err %v), the value set was %q", hname, d, derr, want)
			}
		}
	} else {
		got := e.First("To")
		for i := 0; i < k.Addrs; i++ {
			if k.VLen > 0 {
				if !strings.Contains(got, c18ShortAddr(i, k.VLen)) {
					add("header/address-lost", "address %d missing from unfolded To: %q", i, got)
				}
				continue
			}
			if !strings.Contains(got, fmt.Sprintf("<recipient-%d-with-long-local-part@subdomain%d.rcp.example>", i, i)) {
				add("header/address-lost", "address %d missing from unfolded To: %q", i, got)
			}
		}
	}
	return out
}

func c18Cases(thorough bool) []c18Case {
	var cs []c18Case
	// header folding: words of every length
	wordOf := func(n int, enc bool) string {
		if enc {
			return repeatTo("ü", n*2)[:n*2]
		}
		return repeatTo("abcdefghijklmnopqrstuvwxyz", n)
	}
	names := []string{"X-", "X-Twelve-Chr", "X-Header-Name-That-Is-33-Chars-Lng", "Subject"}
	lens := []int{0, 1, 2, 30, 60, 61, 62, 63, 64, 65, 66, 67, 68, 69, 70, 71, 72, 73, 74, 75, 76, 77, 78, 79, 80, 150, 300}
	for _, hn := range names {
		for a := 0; a <= 80; a++ {
			for b := 0; b <= 80; b++ {
				if !thorough && hn != "Subject" && (a+b)%3 != 0 {
					continue
				}
				cs = append(cs, c18Case{Kind: "header", Header: hn, Words: []string{wordOf(a, false), wordOf(b, false)}, Seps: []string{" "}})
			}
		}
		// leading / trailing blanks with every total length around the folding point
		for a := 40; a <= 90; a++ {
			for _, tail := range []string{" ", "  ", "\t"} {
				cs = append(cs, c18Case{Kind: "header", Header: hn, Words: []string{wordOf(a, false), ""}, Seps: []string{tail}},
					c18Case{Kind: "header", Header: hn, Words: []string{"", wordOf(a, false)}, Seps: []string{tail}},
					c18Case{Kind: "header", Header: hn, Words: []string{wordOf(20, false), wordOf(a-20, false), ""}, Seps: []string{" ", tail}})
			}
		}
		// multiple blanks between words around the folding point
		for a := 55; a <= 80; a++ {
			for b := 55; b <= 80; b++ {
				for _, sep := range []string{"  ", "   ", "      "} {
					if !thorough && hn != "Subject" && (a+b)%2 != 0 {
						continue
					}
					cs = append(cs, c18Case{Kind: "header", Header: hn, Words: []string{wordOf(a, false), wordOf(b, false)}, Seps: []string{sep}})
				}
			}
		}
		for _, k := range []int{40, 70, 74, 75, 76, 77, 78, 80, 150} {
			cs = append(cs, c18Case{Kind: "header", Header: hn, Words: []string{"a", "b"}, Seps: []string{strings.Repeat(" ", k)}},
				c18Case{Kind: "header", Header: hn, Words: []string{wordOf(70, false), "b", wordOf(72, false)}, Seps: []string{strings.Repeat(" ", k), " "}})
		}
		for _, a := range lens {
			for _, b := range lens {
				for _, c := range lens {
					if !thorough && (a+b+c)%4 != 0 {
						continue
					}
					cs = append(cs, c18Case{Kind: "header", Header: hn, Words: []string{wordOf(a, false), wordOf(b, false), wordOf(c, false)}, Seps: []string{" ", " "}})
				}
			}
		}
		for _, a := range []int{1, 10, 20, 30, 40, 60} {
			for _, b := range []int{1, 10, 30, 37, 38, 39, 70} {
				cs = append(cs,
					c18Case{Kind: "header", Header: hn, Words: []string{wordOf(a, true), wordOf(b, false)}, Seps: []string{" "}},
					c18Case{Kind: "header", Header: hn, Words: []string{wordOf(a, false), wordOf(b, true), "tail"}, Seps: []string{" ", " "}},
					c18Case{Kind: "header", Header: hn, Words: []string{wordOf(a, false), wordOf(b, false)}, Seps: []string{"  "}},
					c18Case{Kind: "header", Header: hn, Words: []string{"", wordOf(a, false), wordOf(b, false)}, Seps: []string{" ", " "}},
					c18Case{Kind: "header", Header: hn, Words: []string{wordOf(a, false), wordOf(b, false), ""}, Seps: []string{" ", " "}},
					c18Case{Kind: "header", Header: hn, Words: []string{wordOf(a, false), wordOf(b, false), ""}, Seps: []string{"\t", "   "}},
				)
			}
		}
	}
	for n := 1; n <= 6; n++ {
		cs = append(cs, c18Case{Kind: "header", Addrs: n})
	}
	// many short values in one header: every count 1..60 × every value length 1..12, and lists of short addresses
	for n := 1; n <= 60; n++ {
		for l := 1; l <= 12; l++ {
			for _, hn := range names[:3] {
				cs = append(cs, c18Case{Kind: "header", Header: hn, NVals: n, VLen: l})
			}
			if l <= 6 {
				cs = append(cs, c18Case{Kind: "header", Addrs: n, VLen: l})
			}
		}
	}
	// go-mail's own multipart header lines with a caller-fixed boundary of every length 1..70, four shapes
	for bl := 1; bl <= 70; bl++ {
		for sh := 0; sh < 4; sh++ {
			cs = append(cs, c18Case{Kind: "boundary", BLen: bl, BShape: sh})
		}
	}
	// part / file header lines at the top level (messages without multipart), through both render entry points
	for bl := 20; bl <= 140; bl++ {
		for sh := 0; sh < 2; sh++ {
			for via := 0; via < 2; via++ {
				cs = append(cs, c18Case{Kind: "parthdr", BLen: bl, BShape: sh, N: via})
			}
		}
	}
	// bodies: every length, uniform chunk sizes, all cut sets up to 2 (thorough 3) cuts
	for _, b64 := range []bool{false, true} {
		maxN := 200
		for n := 0; n <= maxN; n++ {
			cs = append(cs, c18Case{Kind: "body", N: n, B64: b64})
			for ch := 1; ch <= n; ch++ {
				if !thorough && n > 100 && ch > 8 && ch%7 != 0 && ch%57 != 0 && ch%76 != 0 && ch%19 != 0 && ch != 3 {
					continue
				}
				cs = append(cs, c18Case{Kind: "body", N: n, B64: b64, Chunk: ch})
			}
			for c1 := 1; c1 < n; c1++ {
				cs = append(cs, c18Case{Kind: "body", N: n, B64: b64, Cuts: []int{c1}})
				if n > 130 && !thorough {
					continue
				}
				for c2 := c1 + 1; c2 < n; c2++ {
					if !thorough && (n > 80 && (c1+c2+n)%5 != 0) {
						continue
					}
					cs = append(cs, c18Case{Kind: "body", N: n, B64: b64, Cuts: []int{c1, c2}})
					if thorough && n <= 90 {
						for c3 := c2 + 1; c3 < n; c3++ {
							if (c1+c2+c3)%3 == 0 {
								cs = append(cs, c18Case{Kind: "body", N: n, B64: b64, Cuts: []int{c1, c2, c3}})
							}
						}
					}
				}
			}
		}
		for _, n := range []int{1000, 4096, 16000, 33000} {
			for _, ch := range []int{1, 2, 3, 7, 56, 57, 58, 75, 76, 77, 114, 171, 228, 285, 342, 399, 456, 513, 570, 768, 1000, 1024, 2048, 4095, 4096, 8192, 32768} {
				if ch == 1 && n > 5000 {
					continue
				}
				cs = append(cs, c18Case{Kind: "body", N: n, B64: b64, Chunk: ch})
			}
		}
		// every multiple of 3, 19 and 57 up to 600 as chunk size on a 1200-byte content (line-aligned encoder output)
		for ch := 3; ch <= 600; ch++ {
			if ch%57 == 0 || ch%19 == 0 || (thorough && ch%3 == 0) {
				cs = append(cs, c18Case{Kind: "body", N: 1200, B64: b64, Chunk: ch})
			}
		}
		// all 2^(n-1) splittings for small n
		for n := 2; n <= 13; n++ {
			for mask := 0; mask < 1<<(n-1); mask++ {
				var cuts []int
				for i := 0; i < n-1; i++ {
					if mask&(1<<i) != 0 {
						cuts = append(cuts, i+1)
					}
				}
				if len(cuts) > 2 {
					cs = append(cs, c18Case{Kind: "body", N: n * 9, B64: b64, Cuts: scale(cuts, 9)})
				}
			}
		}
	}
	return cs
}

func scale(c []int, f int) []int {
	o := make([]int, len(c))
	for i, x := range c {
		o[i] = x * f
	}
	return o
}

func init() {
	vf.Register(&vf.Check{
		ID: "C18", Title: "generated output obeys Internet-message line discipline",
		Run: func(r *vf.Run) {
			r.SetRule("(a) header folding: generic headers with names of 2/12/33 characters and Subject, values of 2 words with every length pair 0..80 and 3 words over 27 lengths up to 300, with double/leading/trailing blanks, TAB, to-be-encoded words; To lists of 1..6 long addresses; one header set with 1..60 separate values of 1..12 characters each, To lists of 1..60 short addresses; multipart messages (4 shapes) with a caller-fixed boundary of every length 1..70 (go-mail's own Content-Type lines); messages without multipart whose part / file headers (description, file name of 20..140 characters) stand in the message header, through WriteTo and WriteToSkipMiddleware; (b) QP text bodies and base64 attachments of every length 0..200, 1000 and 4096, whose producers split their output at every set of <=2 (thorough <=3) cut positions, in uniform chunks of every size, and in all 2^(n-1) splittings of 13 nine-byte blocks; an independent line scanner checks CRLF-only, body lines <=76, header lines <=78 unless unbreakable, unfolded value = value set, decoded body = content; distinct by case tuple")
			r.Assume("trailing blanks of a header value are not significant", "a header line may exceed 78 characters only if the part after the field name / folding blank contains no blank")
			cases := c18Cases(r.Thorough)
			r.Extra("cases", len(cases))
			r.Parallel(len(cases), "C18 cases", func(i int) {
				k := cases[i]
				fs := c18Exec(r, k)
				b, _ := json.Marshal(k)
				r.Eval(vf.Hash(string(b)), true)
				cls := k.Kind
				if k.Kind == "body" {
					cls = fmt.Sprintf("body n=%d b64=%v", k.N, k.B64)
				} else {
					cls = "header " + k.Header
				}
				r.Transition(vf.Hash(cls), string(b), vf.Hash(cls, fmt.Sprint(len(k.Cuts)), fmt.Sprint(k.Chunk), fmt.Sprint(len(fs) == 0)))
				r.TraceValidated()
				if i%100003 == 0 {
					r.Sample(k)
				}
				if len(fs) == 0 {
					r.Outcome("disciplined")
				}
				for _, f := range fs {
					f := f
					r.Outcome(strings.SplitN(f.key, "/", 3)[0] + "/" + strings.SplitN(f.key+"//", "/", 3)[1])
					r.Violation(f.key, f.what, k, func() string {
						for _, x := range c18Exec(r, k) {
							if x.key == f.key {
								return f.key
							}
						}
						return ""
					})
				}
			})
		},
		Replay: func(r *vf.Run, kase json.RawMessage) {
			var k c18Case
			if err := json.Unmarshal(kase, &k); err != nil {
				r.HarnessError("bad case: %v", err)
				return
			}
			r.Eval(1, true)
			for _, f := range c18Exec(r, k) {
				fmt.Printf("  -> %s: %s\n", f.key, f.what)
				r.Violation(f.key, f.what, k, nil)
			}
		},
	})
}
