package checks

import (
	"context"
	"encoding/json"
	"fmt"
	"strings"
	"unicode/utf8"

	mail "github.com/wneessen/go-mail"
	"github.com/wneessen/go-mail/smtp"

	"verif/hx"
	"verif/refsmtp"
	"verif/sasl"
	"verif/vf"
)

// C05 — envelope addresses and command lines cannot be smuggled.

type c05Case struct {
	Kind   string `json:"kind"`            // "addr", "helo", "cred", "dsn", "smtpapi"
	Calls  []int  `json:"calls,omitempty"` // smtpapi: sequence of smtp.Client calls
	Arg    string `json:"arg,omitempty"`   // smtpapi: the hostile argument
	Local  string `json:"local,omitempty"`
	Quoted bool   `json:"quoted,omitempty"`
	Domain string `json:"domain,omitempty"`
	Setter int    `json:"setter,omitempty"`
	Helo   string `json:"helo,omitempty"`
	Mech   int    `json:"mech,omitempty"`
	User   string `json:"user,omitempty"`
	Pass   string `json:"pass,omitempty"`
	DSN    int    `json:"dsn,omitempty"`
	// kind "dsnval": caller-supplied DSN option strings (the option types are plain strings)
	Notify []string `json:"notify,omitempty"`
	Ret    string   `json:"ret,omitempty"`
}

var c05Setters = []string{"From", "EnvelopeFrom", "To", "Cc", "Bcc", "FromFormat", "AddToFormat", "AddBccFormat"}
var c05Runes = []string{"\u00a0", "\u00ad", "\u0085", "\u200d", "\u2028", "\u3000", "\ufeff", "\u0301", "\ue000", "\U0001F600", "\ufffd", "\U0010FFFF", "é"}
var c05Alphabet = []string{"a", ".", " ", "<", ">", "@", ",", ";", ":", `\`, `"`, "ü", "(", "+", "%"}
var c05Mechs = []string{"PLAIN", "LOGIN", "CRAM-MD5", "XOAUTH2", "SCRAM-SHA-256"}

// isDotAtom reports whether s is an RFC 5322 dot-atom-text (RFC 6532: UTF-8 allowed).
func isDotAtom(s string) bool {
	if s == "" || s[0] == '.' || s[len(s)-1] == '.' || strings.Contains(s, "..") {
		return false
	}
	for i := 0; i < len(s); {
		c := s[i]
		if c >= 0x80 {
			r, n := utf8.DecodeRuneInString(s[i:])
			if r == utf8.RuneError && n <= 1 {
				return false
			}
			i += n
			continue
		}
		ok := (c >= 'a' && c <= 'z') || (c >= 'A' && c <= 'Z') || (c >= '0' && c <= '9') || c == '.' || strings.IndexByte("!#$%&'*+-/=?^_`{|}~", c) >= 0
		if !ok {
			return false
		}
		i++
	}
	return true
}

func localClass(l string) string {
	var cs []string
	for _, x := range []struct{ ch, name string }{{" ", "SP"}, {"<", "LT"}, {">", "GT"}, {"@", "AT"}, {",", "comma"}, {";", "semicolon"}, {":", "colon"}, {`\`, "backslash"}, {`"`, "dquote"}, {"(", "paren"}} {
		if strings.Contains(l, x.ch) {
			cs = append(cs, x.name)
		}
	}
	if !isDotAtom(l) && len(cs) == 0 {
		cs = append(cs, "dots")
	}
	if len(cs) == 0 {
		return "dot-atom"
	}
	if len(cs) > 2 {
		cs = cs[:2]
	}
	return strings.Join(cs, "+")
}

var c05APICalls = []string{"Hello(arg)", "Mail(arg)", "Rcpt(arg)", "Verify(arg)", "Noop", "Reset", "Extension", "Quit", "Mail(ok)", "Rcpt(ok)", "SetDSNRcptNotifyOption(SUCCESS,FAILURE)", "SetDSNMailReturnOption(FULL)"}

// c05ExecAPI drives smtp.Client directly: every call sequence over the exported methods with one hostile argument.
func c05ExecAPI(r *vf.Run, k c05Case) []finding {
	var out []finding
	sess := &refsmtp.Session{Host: hx.Host, Caps: []string{"8BITMIME", "SMTPUTF8", "DSN"}}
	conn := refsmtp.NewConn(sess)
	pan, pw := vf.Guard(func() {
		cl, err := smtp.NewClient(conn, hx.Host)
		if err != nil {
			return
		}
		for _, c := range k.Calls {
			switch c05APICalls[c] {
			case "Hello(arg)":
				_ = cl.Hello(k.Arg)
			case "Mail(arg)":
				_ = cl.Mail(k.Arg)
			case "Rcpt(arg)":
				_ = cl.Rcpt(k.Arg)
			case "Verify(arg)":
				_ = cl.Verify(k.Arg)
			case "Noop":
				_ = cl.Noop()
			case "Reset":
				_ = cl.Reset()
			case "Extension":
				_, _ = cl.Extension("8BITMIME")
			case "Quit":
				_ = cl.Quit()
			case "Mail(ok)":
				_ = cl.Mail("sender@snd.example")
			case "Rcpt(ok)":
				_ = cl.Rcpt("rcpt@rcp.example")
			case "SetDSNRcptNotifyOption(SUCCESS,FAILURE)":
				cl.SetDSNRcptNotifyOption("SUCCESS,FAILURE")
			case "SetDSNMailReturnOption(FULL)":
				cl.SetDSNMailReturnOption("FULL")
			}
		}
		_ = cl.Close()
	})
	if pan {
		return []finding{{"panic/" + vf.PanicSite(pw), firstLine(pw)}}
	}
	var names []string
	for _, c := range k.Calls {
		names = append(names, c05APICalls[c])
	}
	for _, il := range sess.Illegal {
		switch il.Key {
		case "line-ending", "line-ctl", "helo-syntax", "mail-syntax", "mail-path-syntax", "mail-param-syntax", "rcpt-syntax", "rcpt-path-syntax", "rcpt-param-syntax", "unknown-command", "pipelining", "param-unknown":
			// sequence errors (RCPT without MAIL …) are the caller's business at this API level; malformed lines are not
			if il.Key == "helo-syntax" && !strings.ContainsAny(k.Arg, " \t\r\n") {
				continue // not a domain, but a single argument (known finding of the mail-level check)
			}
			if (strings.HasPrefix(il.Key, "mail-") || strings.HasPrefix(il.Key, "rcpt-") || il.Key == "param-unknown") && !strings.ContainsAny(k.Arg, "\r\n") {
				continue // smtp.Client.Mail/Rcpt take the path as given; quoting is done by the mail package
			}
			out = append(out, finding{fmt.Sprintf("smtp-api/malformed-command/%s/arg=%s", il.Key, valueClass([]byte(k.Arg))), fmt.Sprintf("smtp.Client calls %v with argument %q: %s", names, k.Arg, il.What)})
			return out
		}
	}
	return out
}

// domainClass names what is unusual about a domain (finding keys).
func domainClass(d string) string {
	switch {
	case strings.ContainsAny(d, " >"):
		return "blank-or-angle"
	case strings.HasPrefix(d, "["):
		return "address-literal"
	case strings.Contains(d, "%"):
		return "percent"
	case strings.Contains(d, ".."):
		return "empty-label"
	case strings.HasSuffix(d, "."):
		return "trailing-dot"
	case strings.HasPrefix(d, "-") || strings.Contains(d, "-."):
		return "hyphen-at-label-edge"
	case len(d) > 200:
		return "long"
	case strings.IndexFunc(d, func(r rune) bool { return r > 127 }) >= 0:
		return "utf8"
	}
	return "plain"
}

func c05Exec(r *vf.Run, k c05Case) []finding {
	if k.Kind == "smtpapi" {
		return c05ExecAPI(r, k)
	}
	var out []finding
	add := func(key, f string, a ...interface{}) { out = append(out, finding{key, fmt.Sprintf(f, a...)}) }
	caps := []string{"8BITMIME", "SMTPUTF8", "DSN", "AUTH " + strings.Join(c05Mechs, " ")}
	sess := &refsmtp.Session{Host: hx.Host, Caps: caps}
	conn := refsmtp.NewConn(sess)
	trace := &sasl.Trace{}
	sess.NewAuth = saslFactory(conn, k.User, k.Pass, trace)
	rig := &hx.Rig{Mk: func(n int) *refsmtp.Conn { return conn }}
	helo := "client.example.test"
	if k.Kind == "helo" {
		helo = k.Helo
	}
	opts := []mail.Option{mail.WithDialContextFunc(rig.Dial), mail.WithHELO(helo), mail.WithTLSPolicy(mail.NoTLS)}
	if k.Kind == "cred" {
		types := []mail.SMTPAuthType{mail.SMTPAuthPlainNoEnc, mail.SMTPAuthLoginNoEnc, mail.SMTPAuthCramMD5, mail.SMTPAuthXOAUTH2, mail.SMTPAuthSCRAMSHA256}
		opts = append(opts, mail.WithSMTPAuth(types[k.Mech]), mail.WithUsername(k.User), mail.WithPassword(k.Pass))
	}
	if k.Kind == "dsn" || k.DSN != 0 {
		if k.DSN&1 != 0 {
			opts = append(opts, mail.WithDSN())
		}
		if k.DSN&2 != 0 {
			opts = append(opts, mail.WithDSNMailReturnType(mail.DSNMailReturnFull))
		}
		if k.DSN&4 != 0 {
			opts = append(opts, mail.WithDSNRcptNotifyType(mail.DSNRcptNotifySuccess, mail.DSNRcptNotifyFailure))
		}
		if k.DSN&8 != 0 {
			opts = append(opts, mail.WithDSNRcptNotifyType(mail.DSNRcptNotifyNever))
		}
	}
	if k.Kind == "dsnval" {
		if len(k.Notify) > 0 {
			var no []mail.DSNRcptNotifyOption
			for _, n := range k.Notify {
				no = append(no, mail.DSNRcptNotifyOption(n))
			}
			opts = append(opts, mail.WithDSNRcptNotifyType(no...))
		}
		if k.Ret != "" {
			opts = append(opts, mail.WithDSNMailReturnType(mail.DSNMailReturnOption(k.Ret)))
		}
	}
	cl, err := mail.NewClient(hx.Host, opts...)
	if err != nil {
		return nil // option refused the value: fine
	}
	m := mail.NewMsg()
	m.SetDateWithValue(hx.T0)
	m.SetMessageIDWithValue("fixed.id@harness.example")
	m.Subject("envelope")
	m.SetBodyString(mail.TypeTextPlain, "body\r\n")
	_ = m.From("sender@snd.example")
	_ = m.To("rcpt@rcp.example")
	var wantLocal, wantDomain, role string
	accepted := true
	if k.Kind == "addr" {
		addr := k.Local + "@" + k.Domain
		if k.Quoted {
			addr = `"` + strings.NewReplacer(`\`, `\\`, `"`, `\"`).Replace(k.Local) + `"@` + k.Domain
		}
		var serr error
		switch c05Setters[k.Setter] {
		case "From":
			serr, role = m.From(addr), "sender"
		case "EnvelopeFrom":
			serr, role = m.EnvelopeFrom(addr), "sender"
		case "To":
			serr, role = m.To(addr), "rcpt"
		case "Cc":
			serr, role = m.Cc(addr), "rcpt2"
		case "Bcc":
			serr, role = m.Bcc(addr), "rcpt2"
		case "FromFormat":
			serr, role = m.FromFormat("Display Name", addr), "sender"
		case "AddToFormat":
			serr, role = m.AddToFormat("Display Name", addr), "rcpt2"
		case "AddBccFormat":
			serr, role = m.AddBccFormat("Display Name", addr), "rcpt2"
		}
		accepted = serr == nil
		if !accepted {
			return nil // refused before anything is sent
		}
		wantLocal, wantDomain = k.Local, k.Domain
		if !k.Quoted && !isDotAtom(k.Local) {
			wantLocal = "" // not a valid RFC 5322 addr-spec: only the line discipline is judged
		}
	}
	var opErr error
	pan, pw := vf.Guard(func() { opErr = cl.DialAndSendWithContext(context.Background(), m) })
	if pan {
		return []finding{{"panic/" + vf.PanicSite(pw), firstLine(pw)}}
	}
	_ = opErr
	cls := k.Kind
	if k.Kind == "addr" {
		cls = fmt.Sprintf("addr/%s/quoted=%v/local=%s", c05Setters[k.Setter], k.Quoted, localClass(k.Local))
		if k.Domain != "example.com" && k.Domain != "[192.0.2.1]" {
			// the domain sweep uses plain local parts: what goes wrong there is a matter of the domain alone
			cls = "addr/domain=" + domainClass(k.Domain)
		}
	}
	for _, il := range sess.Illegal {
		key := il.Key
		if key == "helo-syntax" {
			if strings.ContainsAny(k.Helo, " \t") {
				key = "helo-syntax/extra-argument"
			} else {
				key = "helo-syntax/not-a-domain"
			}
		}
		add(fmt.Sprintf("malformed-command/%s/%s", key, cls), "%s (%s)", il.What, il.Pos)
		break
	}
	for _, n := range sess.Notes {
		if strings.Contains(n, "exceeds 512") {
			// reported, not enforced
		}
	}
	if k.Kind == "addr" && wantLocal != "" {
		var got *refsmtp.Mailbox
		for _, e := range sess.Transcript {
			line := e.Line
			switch {
			case role == "sender" && e.Verb == "MAIL":
				if mb, _, err := refsmtp.ParsePath(line[len("MAIL FROM:"):], true); err == nil {
					got = &mb
				}
			case role == "rcpt" && e.Verb == "RCPT" && got == nil:
				if mb, _, err := refsmtp.ParsePath(line[len("RCPT TO:"):], false); err == nil {
					got = &mb
				}
			case role == "rcpt2" && e.Verb == "RCPT":
				// the address under test is the last recipient
				if mb, _, err := refsmtp.ParsePath(line[len("RCPT TO:"):], false); err == nil {
					got = &mb
				}
			}
		}
		sentSomething := false
		for _, e := range sess.Transcript {
			if e.Verb == "MAIL" {
				sentSomething = true
			}
		}
		if got != nil && len(sess.Illegal) == 0 {
			if got.Local != wantLocal || !strings.EqualFold(got.Domain, wantDomain) {
				add("wrong-mailbox/"+cls, "the caller put %q @ %q on the message, the envelope carries %q @ %q", wantLocal, wantDomain, got.Local, got.Domain)
			}
		} else if got == nil && sentSomething && len(sess.Illegal) == 0 && opErr == nil {
			add("address-not-transmitted/"+cls, "the message was sent but the address %q@%s does not appear in the envelope", wantLocal, wantDomain)
		}
	}
	if k.Kind == "cred" && opErr == nil && !trace.Accepted {
		add("auth-not-accepted-but-sent/"+c05Mechs[k.Mech], "message sent although the reference server did not accept the credentials (%s)", trace.Reason)
	}
	return out
}

func init() {
	vf.Register(&vf.Check{
		ID: "C05", Title: "envelope addresses and command lines cannot be smuggled",
		Run: func(r *vf.Run) {
			r.SetRule("local parts: ALL strings of length 1..L over {a . SP < > @ , ; : \\ \" ü ( +} offered bare and as quoted-string × domain {example.com, [192.0.2.1]} (thorough: length 4 for From and To), 13 non-ASCII code points of different Unicode classes (NBSP, soft hyphen, NEL, ZWJ, line separator, ideographic space, BOM, combining, private use, astral, U+FFFD, U+10FFFF) between all pairs over {a SP \" \\ .}; and local parts of 30 / 63 / 64 / 65 / 66 / 100 / 255 octets with every alphabet symbol near the start, in the middle and at the end × setter {From, EnvelopeFrom, To, Cc, Bcc, FromFormat, AddToFormat, AddBccFormat} × {no DSN options, DSN return/notify parameters on the command lines}; 16 domain forms (UTF-8 and punycode labels, trailing dot, empty label, IPv4/IPv6 literals incl. an invalid one, leading/trailing hyphen, '%', 255 octets, '>' and a smuggled parameter) × 3 local parts × all setters; HELO names {plain, blank inside, CRLF + command, TAB, UTF-8, 300 chars, empty label}; user names/passwords over a hostile alphabet for PLAIN/LOGIN/CRAM-MD5/XOAUTH2/SCRAM; all 16 DSN option combinations; DSN option VALUES as caller-supplied strings (keywords with padding, CR/LF, other case, lists, junk) for NOTIFY and RET, and every ordered selection of 1..3 valid NOTIFY keywords; smtp.Client used directly: all call sequences of length 1..3 over {Hello, Mail, Rcpt, Verify with a hostile argument, Noop, Reset, Extension, Quit, Mail/Rcpt with a good argument, the two DSN option setters} × 9 hostile arguments; every command line the client writes is judged by the strict RFC 5321 parser of the reference server and the parsed path must denote the mailbox the caller set (own RFC 5322 dot-atom/quoted-string reading of the input); distinct by case tuple")
			r.Assume("a bare local part that is not an RFC 5322 dot-atom has no defined mailbox: only the line discipline is judged for it", "SMTPUTF8 is advertised so that UTF-8 local parts are legal on the wire")
			L := 3
			var cases []c05Case
			var locals []string
			var gen func(prefix string, depth int)
			gen = func(prefix string, depth int) {
				if depth > 0 {
					locals = append(locals, prefix)
				}
				if depth == L {
					return
				}
				for _, a := range c05Alphabet {
					gen(prefix+a, depth+1)
				}
			}
			gen("", 0)
			for _, l := range locals {
				for _, q := range []bool{false, true} {
					for _, d := range []string{"example.com", "[192.0.2.1]"} {
						for s := range c05Setters {
							cases = append(cases, c05Case{Kind: "addr", Local: l, Quoted: q, Domain: d, Setter: s})
							// the same address with DSN parameters on the MAIL and RCPT lines
							cases = append(cases, c05Case{Kind: "addr", Local: l, Quoted: q, Domain: d, Setter: s, DSN: 7})
						}
					}
				}
			}
			// non-ASCII code points of every Unicode class (space separators, format characters, a C1 control, line separator,
			// combining mark, private use, astral, U+FFFD, the last code point) between all pairs of five ASCII symbols
			for _, u := range c05Runes {
				for _, x := range []string{"a", " ", `"`, `\`, "."} {
					for _, y := range []string{"a", " ", `"`, `\`, "."} {
						for _, q := range []bool{false, true} {
							for s := range c05Setters {
								cases = append(cases, c05Case{Kind: "addr", Local: x + u + y, Quoted: q, Domain: "example.com", Setter: s, DSN: 7 * (len(x+y) % 2)})
							}
						}
					}
				}
			}
			// thorough: one symbol more for the two most used setters
			if r.Thorough {
				var l4 []string
				for _, l := range locals {
					if len([]rune(l)) == 3 {
						for _, a := range c05Alphabet {
							l4 = append(l4, l+a)
						}
					}
				}
				for _, l := range l4 {
					for _, q := range []bool{false, true} {
						for _, s := range []int{0, 2} {
							cases = append(cases, c05Case{Kind: "addr", Local: l, Quoted: q, Domain: "example.com", Setter: s}, c05Case{Kind: "addr", Local: l, Quoted: q, Domain: "example.com", Setter: s, DSN: 7})
						}
					}
				}
			}
			// long local parts: every alphabet symbol near the start, in the middle and at the end of a local part of
			// 30 / 63 / 64 / 65 / 66 / 100 / 255 octets, bare and quoted
			for _, n := range []int{30, 63, 64, 65, 66, 100, 255} {
				for _, a := range c05Alphabet {
					for pos := 0; pos < 3; pos++ {
						k := []int{1, n / 2, n - 1 - len(a)}[pos]
						if k < 1 {
							k = 1
						}
						l := repeatTo("abcdefghij", k) + a + repeatTo("klmnopqrst", n)
						l = l[:n]
						if pos == 2 {
							l = repeatTo("abcdefghij", n-len(a)-1) + a + "z"
						}
						for _, q := range []bool{false, true} {
							for _, st := range []int{0, 1, 2, 4} {
								cases = append(cases, c05Case{Kind: "addr", Local: l, Quoted: q, Domain: "example.com", Setter: st})
							}
						}
					}
				}
			}
			// the domain part: UTF-8 and punycode labels, trailing dot, empty label, address literals, hyphens, '%', 255 octets
			for _, d := range []string{"exämple.com", "xn--exmple-cua.com", "example.com.", "a..b", "[IPv6:::1]", "[IPv6:2001:db8::1]", "[192.0.2.999]", "-bad-.example", "ex%ample.com", "ex%sample.com",
				repeatTo("label.", 250) + "com", "localhost", "EXAMPLE.com", "example.com>", "example.com BODY=8BITMIME", "日本.example"} {
				for _, l := range []string{"a", "a.b", "ü"} {
					for s := range c05Setters {
						cases = append(cases, c05Case{Kind: "addr", Local: l, Domain: d, Setter: s}, c05Case{Kind: "addr", Local: l, Domain: d, Setter: s, DSN: 7})
					}
				}
			}
			for _, h := range []string{"client.example.test", "a b", "a\r\nMAIL FROM:<x@y.example>", "a\tb", "clïent.example", repeatTo("a", 300), "a..b", "[192.0.2.7]", "-a", "a b c"} {
				cases = append(cases, c05Case{Kind: "helo", Helo: h})
			}
			creds := []string{"user", "us er", "u\r\nRSET", "u\x00x", "ü", "a=b,c", repeatTo("x", 600), "\"q\"", "a\tb"}
			for mi := range c05Mechs {
				for _, u := range creds {
					for _, p := range creds {
						cases = append(cases, c05Case{Kind: "cred", Mech: mi, User: u, Pass: p})
					}
				}
			}
			for d := 0; d < 16; d++ {
				cases = append(cases, c05Case{Kind: "dsn", DSN: d})
			}
			// DSN option values are plain strings: keywords with padding, line breaks, other case, lists, junk
			dsnVals := []string{"SUCCESS", "SUCCESS\r\n", "DELAY\n", "\r\nSUCCESS", "SUCCESS ", " FAILURE", "success", "SUCCESS,FAILURE", "NEVER\r\nRSET", "FAILURE\tX", "X", "%s", "SUCCESS\x00"}
			for _, a := range dsnVals {
				cases = append(cases, c05Case{Kind: "dsnval", Notify: []string{a}})
				for _, b := range []string{"FAILURE", "DELAY\r\n", " NEVER"} {
					cases = append(cases, c05Case{Kind: "dsnval", Notify: []string{a, b}})
				}
			}
			// every ordered selection of 1..3 VALID keywords (NEVER excludes the others wherever it stands)
			kw := []string{"SUCCESS", "FAILURE", "DELAY", "NEVER"}
			for _, a := range kw {
				for _, b := range kw {
					cases = append(cases, c05Case{Kind: "dsnval", Notify: []string{a, b}})
					for _, c3 := range kw {
						cases = append(cases, c05Case{Kind: "dsnval", Notify: []string{a, b, c3}})
					}
				}
			}
			for _, rv := range []string{"FULL", "HDRS", "FULL\r\n", "HDRS ", " FULL", "full", "FULL RET=HDRS", "HDRS\r\nRSET", "X", "%d"} {
				cases = append(cases, c05Case{Kind: "dsnval", Ret: rv}, c05Case{Kind: "dsnval", Ret: rv, Notify: []string{"SUCCESS"}})
			}
			// smtp.Client used directly: all call sequences of length 1..3 over its methods with a hostile argument
			hostile := []string{"a b", "x\r\nRSET", "x\nNOOP", "x\ry", "a\tb", "a@b.example> BODY=8BITMIME", "plain.example", "%s%d", ""}
			nc := len(c05APICalls)
			for _, arg := range hostile {
				for a := 0; a < nc; a++ {
					cases = append(cases, c05Case{Kind: "smtpapi", Calls: []int{a}, Arg: arg})
					for b := 0; b < nc; b++ {
						cases = append(cases, c05Case{Kind: "smtpapi", Calls: []int{a, b}, Arg: arg})
						for cc := 0; cc < nc; cc++ {
							if a <= 3 || b <= 3 || cc <= 3 {
								cases = append(cases, c05Case{Kind: "smtpapi", Calls: []int{a, b, cc}, Arg: arg})
							}
						}
					}
				}
			}
			r.Extra("local_parts", len(locals))
			r.Parallel(len(cases), "C05 cases", func(i int) {
				k := cases[i]
				fs := c05Exec(r, k)
				b, _ := json.Marshal(k)
				r.Eval(vf.Hash(string(b)), true)
				r.TraceValidated()
				cls := k.Kind
				if k.Kind == "addr" {
					cls = c05Setters[k.Setter] + "/" + localClass(k.Local)
				}
				r.Transition(vf.Hash(k.Kind), cls, vf.Hash(cls, fmt.Sprint(len(fs) == 0)))
				if i%7001 == 0 {
					r.Sample(k)
				}
				if len(fs) == 0 {
					r.Outcome("well-formed-or-refused")
				}
				for _, f := range fs {
					f := f
					r.Outcome(strings.SplitN(f.key, "/", 2)[0])
					r.Violation(f.key, f.what, k, func() string {
						for _, x := range c05Exec(r, k) {
							if x.key == f.key {
								return f.key
							}
						}
						return ""
					})
				}
			})
		},
		Replay: func(r *vf.Run, kase json.RawMessage) {
			var k c05Case
			if err := json.Unmarshal(kase, &k); err != nil {
				r.HarnessError("bad case: %v", err)
				return
			}
			r.Eval(1, true)
			fmt.Printf("  case: %+v\n", k)
			for _, f := range c05Exec(r, k) {
				fmt.Printf("  -> %s: %s\n", f.key, f.what)
				r.Violation(f.key, f.what, k, nil)
			}
		},
	})
}
