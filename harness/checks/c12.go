package checks

import (
	"bytes"
	"context"
	"encoding/json"
	"errors"
	"fmt"
	"io"
	"os"
	"path/filepath"
	"strings"

	"verif/mb"
	"verif/vf"
)

// C12 — render failures are reported: never a panic, never silent success, byte count = bytes accepted.

type c12Case struct {
	Shape   int    `json:"shape"`
	Second  bool   `json:"second"`   // fault on the second render of the same Msg (boundaries cached)
	SinkAt  int    `json:"sink_at"`  // sink fails once this many bytes were accepted (-1 = never)
	Style   int    `json:"style"`    // 0 accepts the prefix then errors, 1 rejects the whole write, 2 accepts the prefix and reports no error for that write (every later write is refused), 3 takes the whole write and reports an error, 4 drops the tail of one write silently and goes on accepting, 5 refuses one write and works again afterwards
	Prod    string `json:"prod"`     // producer that fails ("" = none)
	ProdHow int    `json:"prod_how"` // 1 before data, 2 after half, 3 after all data
	// ProdOnce: the producer fails only the FIRST time it is called during the render and works on later calls (a
	// signed message calls every producer twice: once for the digest, once for the output)
	ProdOnce bool `json:"prod_once,omitempty"`
	ErrKind  int  `json:"err_kind,omitempty"` // which error value the failing producer returns (index into c12Errs)
	// File > 0: the file-based entry points — 1 WriteToFile("/dev/full") (every write fails with ENOSPC), 2 WriteToFile
	// into a directory that does not exist, 3 WriteToFile to a regular file while producer Prod fails, 4 WriteToTempFile
	// while producer Prod fails
	File int `json:"file,omitempty"`
}

var c12Text = []byte("Line one of the text.\r\nA second line with = equals and trailing blank \r\n.dot at line start\r\nLast line without newline")
var c12HTML = []byte("<html><body><p>Hello</p>\r\n<p>World &amp; more</p></body></html>\r\n")
var c12Bin = func() []byte {
	b := make([]byte, 150)
	for i := range b {
		b[i] = byte(i * 7)
	}
	return b
}()

func c12Shapes() []mb.Msg {
	p := func(enc string) mb.Part { return mb.Part{Type: "text/plain", Content: c12Text, Enc: enc} }
	h := mb.Part{Type: "text/html", Content: c12HTML}
	f := func(n string) mb.File { return mb.File{Name: n, Content: c12Bin} }
	return []mb.Msg{
		{Parts: []mb.Part{p("")}},              // 0 single QP
		{Enc: "b64", Parts: []mb.Part{p("")}},  // 1 single base64
		{Enc: "8bit", Parts: []mb.Part{p("")}}, // 2 single 8bit
		{Parts: []mb.Part{p(""), h}},           // 3 alternative
		{Parts: []mb.Part{{Type: "text/plain", Content: c12Text, Desc: "a description"}, h}},       // 4 alternative + description
		{Parts: []mb.Part{p("")}, Embeds: []mb.File{f("e.png")}},                                   // 5 related
		{Parts: []mb.Part{p("")}, Attach: []mb.File{f("a.bin")}},                                   // 6 mixed
		{Parts: []mb.Part{p(""), h}, Embeds: []mb.File{f("e.png")}, Attach: []mb.File{f("a.bin")}}, // 7 all three levels
		{Attach: []mb.File{f("only.bin")}},                                                         // 8 attachment only ×1
		{Attach: []mb.File{f("one.bin"), f("two.bin")}},                                            // 9 attachment only ×2
		{Parts: []mb.Part{p("")}, SMIME: 2},                                                        // 10 S/MIME ECDSA single
		{Parts: []mb.Part{p(""), h}, Attach: []mb.File{f("a.bin")}, SMIME: 2, Inter: true},         // 11 S/MIME ECDSA mixed
		{Enc: "b64", Parts: []mb.Part{p("8bit"), {Type: "text/html", Content: c12HTML, Enc: "qp"}}, Attach: []mb.File{{Name: "x.txt", Content: c12Text, Enc: "8bit"}}}, // 12 mixed encodings
		{Parts: []mb.Part{p("")}, Embeds: []mb.File{f("e1.png"), f("e2.png")}, Boundary: "fixedboundary123"},                                                           // 13 fixed boundary
		{Enc: "usascii", Parts: []mb.Part{{Type: "text/plain", Content: []byte("seven bit text\r\nsecond line\r\n")}}},                                                 // 14 single 7bit
		{Enc: "usascii", Parts: []mb.Part{{Type: "text/plain", Content: []byte("seven bit text\r\n")}, h}, Attach: []mb.File{f("a.bin")}},                              // 15 7bit inside multiparts
		{Parts: []mb.Part{{Type: "text/plain", Content: c12Text, Enc: "usascii"}}, Embeds: []mb.File{f("e.png")}},                                                      // 16 7bit part via WithPartEncoding
		// histories: the Msg object carried other content, was (rendered and) Reset() and is used again
		{Parts: []mb.Part{p(""), h}, Embeds: []mb.File{f("e.png")}, Attach: []mb.File{f("a.bin")}, Recycle: 1}, // 17
		{Parts: []mb.Part{p(""), h}, Embeds: []mb.File{f("e.png")}, Attach: []mb.File{f("a.bin")}, Recycle: 2}, // 18
		{Parts: []mb.Part{p("")}, Attach: []mb.File{f("a.bin")}, Recycle: 2},                                   // 19
		{Parts: []mb.Part{p("")}, Recycle: 2},                                                                  // 20
		{Attach: []mb.File{f("one.bin"), f("two.bin")}, Recycle: 1},                                            // 21
		// transfer-encoding names outside go-mail's four constants (Encoding is a string type): whatever go-mail does with
		// the content, errors and the byte count must still be right
		{Parts: []mb.Part{p("binary")}},                                                                               // 22
		{Attach: []mb.File{{Name: "only.bin", Content: c12Bin, Enc: "binary"}}},                                       // 23
		{Parts: []mb.Part{p("QP-mixed-case"), h}, Attach: []mb.File{{Name: "a.bin", Content: c12Bin, Enc: "binary"}}}, // 24
		// PGP/MIME: go-mail only provides the multipart around the caller's parts
		{PGP: 1, Parts: []mb.Part{{Type: "application/pgp-encrypted", Content: []byte("Version: 1\r\n"), Enc: "usascii"}, {Type: "application/octet-stream", Content: c12Text, Enc: "usascii"}}},                // 25
		{PGP: 2, Parts: []mb.Part{p(""), {Type: "application/pgp-signature", Content: c12Text, Enc: "usascii"}}},                                                                                                // 26
		{PGP: 1, Parts: []mb.Part{{Type: "application/pgp-encrypted", Content: []byte("Version: 1\r\n"), Enc: "usascii"}, {Type: "application/octet-stream", Content: c12Text}}, Attach: []mb.File{f("a.bin")}}, // 27
		// every kind of header line go-mail writes: generic (one and several values, an empty one, a long one that is folded), preformatted, Cc / Reply-To
		{Parts: []mb.Part{p("")}, Preform: [][2]string{{"X-Pre", "preformatted value;\r\n continued on a second line"}}}, // 28
		{Parts: []mb.Part{p(""), h}, Attach: []mb.File{f("a.bin")}, Gen: [][2]string{{"X-Gen", "generic value"}, {"X-Long", "a long generic value that has to be folded by the header writer because it exceeds the line length limit"}}, GenEmpty: []string{"X-Empty"}, Preform: [][2]string{{"X-Pre-A", "first"}, {"X-Pre-B", "second;\r\n\tfolded"}}, Cc: []string{"cc1@rcp.example", "cc2@rcp.example"}, ReplyTo: "reply@snd.example"}, // 29
		{Parts: []mb.Part{p("")}, Preform: [][2]string{{"X-Pre", "signed and preformatted"}}, SMIME: 2}, // 30
	}
}

// c12Errs: the error values a failing producer may return — a harness that only injects one generic error cannot
// see an error that is filtered by identity (io.EOF treated as "done").
var c12Errs = []error{errProducer, io.EOF, fmt.Errorf("short source: %w", io.EOF), io.ErrUnexpectedEOF, context.Canceled, io.ErrShortWrite, io.ErrClosedPipe, os.ErrDeadlineExceeded}

type faultSink struct {
	at       int
	style    int
	accepted int
	fired    bool
}

var errSink = errors.New("sink failed (injected)")

func (s *faultSink) Write(p []byte) (int, error) {
	if s.fired && s.style < 4 {
		return 0, errSink
	}
	if !s.fired && s.at >= 0 && s.accepted+len(p) > s.at {
		s.fired = true
		k := s.at - s.accepted
		switch s.style {
		case 1:
			return 0, errSink
		case 2:
			// accepts only a prefix of this write and does not say so (n < len(p), nil); every later write is refused
			s.accepted += k
			return k, nil
		case 3:
			// takes the whole write and reports a failure all the same (io.Writer allows n == len(p) with an error)
			s.accepted += len(p)
			return len(p), errSink
		case 4:
			// drops the tail of this one write without saying so and goes on accepting afterwards
			s.accepted += k
			return k, nil
		case 5:
			// refuses this one write and works again afterwards (a transient failure)
			return 0, errSink
		}
		s.accepted += k
		return k, errSink
	}
	s.accepted += len(p)
	return len(p), nil
}

func c12Exec(r *vf.Run, k c12Case) (keys, whats []string) {
	add := func(key, what string) { keys = append(keys, key); whats = append(whats, what) }
	spec := c12Shapes()[k.Shape]
	prodOn := false
	prodFired := false
	hooks := &mb.Hooks{Wrap: func(name string, content []byte, def func(io.Writer) (int64, error)) func(io.Writer) (int64, error) {
		return func(w io.Writer) (int64, error) {
			if !prodOn || name != k.Prod || (k.ProdOnce && prodFired) {
				return def(w)
			}
			prodFired = true
			perr := c12Errs[k.ErrKind%len(c12Errs)]
			switch k.ProdHow {
			case 1:
				return 0, perr
			case 2:
				n, _ := w.Write(content[:len(content)/2])
				return int64(n), perr
			default:
				n, _ := w.Write(content)
				return int64(n), perr
			}
		}
	}}
	m, err := mb.Build(spec, hooks)
	if err != nil {
		r.HarnessError("C12 build: %v", err)
		return
	}
	if k.File > 0 {
		cls := "shape=" + c12ShapeClass(spec)
		dir := filepath.Join(os.Getenv("VERIF_WORK"), fmt.Sprintf("c12-%d", os.Getpid()))
		if os.Getenv("VERIF_WORK") == "" {
			dir = filepath.Join(os.TempDir(), fmt.Sprintf("verif-c12-%d", os.Getpid()))
		}
		_ = os.MkdirAll(dir, 0o755)
		var ferr error
		what := ""
		pan, pw := vf.Guard(func() {
			switch k.File {
			case 1:
				what = "WriteToFile(\"/dev/full\")"
				ferr = m.WriteToFile("/dev/full")
			case 2:
				what = "WriteToFile(<missing directory>/x.eml)"
				ferr = m.WriteToFile(filepath.Join(dir, "no-such-directory", "x.eml"))
			case 3:
				what = "WriteToFile while producer " + k.Prod + " fails"
				prodOn = true
				p := filepath.Join(dir, fmt.Sprintf("f-%d-%d.eml", k.Shape, k.ProdHow))
				ferr = m.WriteToFile(p)
				_ = os.Remove(p)
			case 4:
				what = "WriteToTempFile while producer " + k.Prod + " fails"
				prodOn = true
				var p string
				p, ferr = m.WriteToTempFile()
				if p != "" {
					_ = os.Remove(p)
				}
			}
		})
		if pan {
			add("panic/"+vf.PanicSite(pw), fmt.Sprintf("%s panicked (%s): %s", what, spec.Describe(), firstLine(pw)))
			return
		}
		if k.File >= 3 && !prodFired {
			r.HarnessError("C12 file case %+v: the producer fault did not fire", k)
			return
		}
		if ferr != nil {
			r.Outcome(fmt.Sprintf("reached/file-api=%d/error-reported", k.File))
		}
		if ferr == nil {
			add(fmt.Sprintf("silent-success/file-api=%d/%s", k.File, cls), fmt.Sprintf("%s returned nil although the destination / a producer failed (%s)", what, spec.Describe()))
		}
		return
	}
	if k.Second {
		var b bytes.Buffer
		if _, err := m.WriteTo(&b); err != nil {
			r.HarnessError("C12 first render of shape %d failed: %v", k.Shape, err)
			return
		}
	}
	prodOn = true
	sink := &faultSink{at: k.SinkAt, style: k.Style}
	var n int64
	var werr error
	pan, pw := vf.Guard(func() { n, werr = m.WriteTo(sink) })
	cls := "shape=" + c12ShapeClass(spec)
	if pan {
		add("panic/"+vf.PanicSite(pw), fmt.Sprintf("WriteTo panicked (%s): %s", spec.Describe(), firstLine(pw)))
		return
	}
	// history: after the (possibly failed) render a fault-free render of the same Msg must succeed with an exact count
	if k.SinkAt%5 == 0 || k.Prod != "" {
		prodOn = false
		var clean bytes.Buffer
		var n2 int64
		var err2 error
		pan2, pw2 := vf.Guard(func() { n2, err2 = m.WriteTo(&clean) })
		prodOn = true
		if pan2 {
			add("panic-on-render-after-failure/"+vf.PanicSite(pw2), fmt.Sprintf("a fault-free WriteTo after a failed one panicked (%s): %s", spec.Describe(), firstLine(pw2)))
		} else if err2 != nil {
			add("render-after-failure-fails/"+cls, fmt.Sprintf("a fault-free WriteTo after a failed one returned %v (%s)", err2, spec.Describe()))
		} else if n2 != int64(clean.Len()) {
			add("count-mismatch/render-after-failure/"+cls, fmt.Sprintf("a fault-free WriteTo after a failed one returned n=%d for %d bytes (%s)", n2, clean.Len(), spec.Describe()))
		}
	}
	if sink.fired && sink.accepted > 0 && k.Style == 0 {
		r.Outcome("reached/sink-short-write")
	}
	if prodFired {
		r.Outcome(fmt.Sprintf("reached/producer-failure/err-kind=%d", k.ErrKind%len(c12Errs)))
	}
	if spec.Recycle > 0 {
		r.Outcome("reached/recycled-msg")
	}
	faulted := sink.fired || prodFired
	fault := "sink"
	if prodFired && !sink.fired {
		fault = "producer-" + []string{"", "before-data", "after-half", "after-all"}[k.ProdHow]
		if k.ProdOnce {
			fault += "(first call only)"
		}
	} else if prodFired {
		fault = "producer+sink"
	}
	if faulted && werr == nil {
		add(fmt.Sprintf("silent-success/fault=%s/%s", fault, cls), fmt.Sprintf("WriteTo returned nil although the %s failed (%s)", fault, spec.Describe()))
	}
	if !faulted && werr != nil {
		add("error-without-fault/"+cls, fmt.Sprintf("WriteTo returned %v although nothing failed (%s)", werr, spec.Describe()))
	}
	if n != int64(sink.accepted) {
		kind := "fault-free"
		if faulted {
			kind = "fault=" + fault
		}
		add(fmt.Sprintf("count-mismatch/%s/%s", kind, cls), fmt.Sprintf("WriteTo returned n=%d but the destination accepted %d bytes (%s, sink_at=%d style=%d)", n, sink.accepted, spec.Describe(), k.SinkAt, k.Style))
	}
	return
}

func firstLine(s string) string {
	if i := strings.IndexByte(s, '\n'); i >= 0 {
		return s[:i]
	}
	return s
}

func c12ShapeClass(s mb.Msg) string {
	var c []string
	if s.SMIME != 0 {
		c = append(c, "smime")
	}
	switch {
	case len(s.Parts) == 0:
		c = append(c, "no-body")
	case len(s.Parts) > 1:
		c = append(c, "alternative")
	default:
		c = append(c, "single")
	}
	if len(s.Embeds) > 0 {
		c = append(c, "embed")
	}
	if len(s.Attach) > 0 {
		c = append(c, "attach")
	}
	if s.Recycle > 0 {
		c = append(c, "recycled")
	}
	if s.PGP > 0 {
		c = append(c, "pgp")
	}
	return strings.Join(c, "+")
}

func c12Producers(s mb.Msg) []string {
	var ps []string
	for i := range s.Parts {
		ps = append(ps, fmt.Sprintf("part%d", i))
	}
	for i := range s.Embeds {
		ps = append(ps, fmt.Sprintf("embed%d", i))
	}
	for i := range s.Attach {
		ps = append(ps, fmt.Sprintf("attach%d", i))
	}
	return ps
}

func init() {
	vf.Register(&vf.Check{
		ID: "C12", Title: "render failures are reported — never a panic, never silent success",
		Run: func(r *vf.Run) {
			r.SetRule("31 message shapes (3 with generic, empty, folded and preformatted header lines; 5 of them on a Msg object that carried other content before, was rendered and Reset(); single QP/base64/8bit/7bit, alternative, with description, related, mixed, all three levels, attachment-only ×1/×2, S/MIME ×2, mixed encodings, fixed boundary) × render {first, second} × a sink that starts failing at EVERY byte offset k of the output × {accepts the prefix then errors, rejects the whole write}; every producer × {fails before data, after half, after all data} × 8 error values (generic, io.EOF plain and wrapped, io.ErrUnexpectedEOF, context.Canceled, …); the file entry points: WriteToFile onto /dev/full (every write fails), into a missing directory, and WriteToFile / WriteToTempFile while each producer fails; (thorough) producer failure × sink failure on an 8-byte grid; oracle: no panic, err != nil iff something failed, returned count = bytes the sink accepted; distinct by case tuple")
			r.Assume("a sink returns n <= len(p) and a non-nil error when n < len(p)", "S/MIME output length varies per signature; offsets beyond the actual length are fault-free runs")
			shapes := c12Shapes()
			var cases []c12Case
			for si, spec := range shapes {
				m, err := mb.Build(spec, nil)
				if err != nil {
					r.HarnessError("C12 build shape %d: %v", si, err)
					return
				}
				var b bytes.Buffer
				var rerr error
				if pan, pw := vf.Guard(func() { _, rerr = m.WriteTo(&b) }); pan {
					r.Violation("panic/"+vf.PanicSite(pw), fmt.Sprintf("WriteTo panicked on a fault-free render (%s): %s", spec.Describe(), firstLine(pw)), c12Case{Shape: si, SinkAt: -1}, nil)
					continue
				}
				if rerr != nil {
					r.HarnessError("C12 reference render of shape %d: %v", si, rerr)
					return
				}
				L := b.Len()
				for _, second := range []bool{false, true} {
					for style := 0; style < 6; style++ {
						for k := 0; k < L; k++ {
							if spec.SMIME != 0 && !r.Thorough && k%3 != 0 {
								continue // signing is the expensive part; quick takes every third offset on signed shapes
							}
							cases = append(cases, c12Case{Shape: si, Second: second, SinkAt: k, Style: style})
						}
					}
					cases = append(cases, c12Case{Shape: si, Second: second, SinkAt: -1})
					if !second {
						if _, serr := os.Stat("/dev/full"); serr == nil {
							cases = append(cases, c12Case{Shape: si, SinkAt: -1, File: 1})
						}
						cases = append(cases, c12Case{Shape: si, SinkAt: -1, File: 2})
						for _, p := range c12Producers(spec) {
							for how := 1; how <= 3; how++ {
								cases = append(cases, c12Case{Shape: si, SinkAt: -1, Prod: p, ProdHow: how, File: 3}, c12Case{Shape: si, SinkAt: -1, Prod: p, ProdHow: how, File: 4})
							}
						}
					}
					for _, p := range c12Producers(spec) {
						for how := 1; how <= 3; how++ {
							for ek := range c12Errs {
								cases = append(cases, c12Case{Shape: si, Second: second, SinkAt: -1, Prod: p, ProdHow: how, ErrKind: ek})
							}
							cases = append(cases, c12Case{Shape: si, Second: second, SinkAt: -1, Prod: p, ProdHow: how, ProdOnce: true})
							if r.Thorough {
								for k := 0; k < L; k += 8 {
									cases = append(cases, c12Case{Shape: si, Second: second, SinkAt: k, Style: k / 8 % 2, Prod: p, ProdHow: how})
								}
							}
						}
					}
				}
			}
			r.Parallel(len(cases), "C12 cases", func(i int) {
				k := cases[i]
				keys, whats := c12Exec(r, k)
				b, _ := json.Marshal(k)
				r.Eval(vf.Hash(string(b)), k.SinkAt >= 0 || k.Prod != "")
				// state space: (shape, render number) --fault--> (shape, render number, fault position); one transition per fault
				from := vf.Hash("shape", fmt.Sprint(k.Shape), fmt.Sprint(k.Second))
				r.Transition(from, string(b), vf.Hash("after", fmt.Sprint(k.Shape), fmt.Sprint(k.Second), fmt.Sprint(k.SinkAt), k.Prod, fmt.Sprint(k.ProdHow)))
				r.TraceValidated()
				if i%20011 == 0 {
					r.Sample(k)
				}
				if len(keys) == 0 {
					r.Outcome("reported-correctly")
				}
				for j, key := range keys {
					key := key
					r.Outcome(strings.SplitN(key, "/", 2)[0])
					r.Violation(key, whats[j], k, func() string {
						ks, _ := c12Exec(r, k)
						for _, x := range ks {
							if x == key {
								return key
							}
						}
						return ""
					})
				}
			})
			r.Reached("reached/file-api=1/error-reported", "reached/file-api=2/error-reported", "reached/file-api=3/error-reported", "reached/file-api=4/error-reported", "reached/sink-short-write", "reached/producer-failure/err-kind=0", "reached/producer-failure/err-kind=1", "reached/producer-failure/err-kind=2", "reached/recycled-msg")
		},
		Replay: func(r *vf.Run, kase json.RawMessage) {
			var k c12Case
			if err := json.Unmarshal(kase, &k); err != nil {
				r.HarnessError("bad case: %v", err)
				return
			}
			keys, whats := c12Exec(r, k)
			r.Eval(1, true)
			for i, key := range keys {
				fmt.Printf("  -> %s: %s\n", key, whats[i])
				r.Violation(key, whats[i], k, nil)
			}
		},
	})
}
