package checks

import (
	"bytes"
	"context"
	"crypto/tls"
	"encoding/base64"
	"encoding/hex"
	"encoding/json"
	"errors"
	"fmt"
	"strings"
	"sync"

	mail "github.com/wneessen/go-mail"
	"github.com/wneessen/go-mail/log"
	"github.com/wneessen/go-mail/smtp"

	"verif/hx"
	"verif/refsmtp"
	"verif/sasl"
	"verif/vf"
)

// C16 — authentication secrets never reach the debug log.

type c16Cfg struct {
	Mech    int  `json:"mech"`    // index into c16Mechs
	Cred    int  `json:"cred"`    // index into c16Creds
	Logger  int  `json:"logger"`  // 0 capturing custom logger, 1 log.New, 2 log.NewJSON
	LogAuth bool `json:"logauth"` // control: WithLogAuthData (secrets must then be visible)
	SMTP    bool `json:"smtp"`    // drive smtp.Client directly and issue NOOP after Auth returned
	Retry   bool `json:"retry"`   // smtp mode: call Auth a second time on the same smtp.Client (after whatever the first did)
	NoHello bool `json:"nohello"` // smtp mode: Auth is the first call on the smtp.Client (it sends EHLO/HELO itself)
	// Setters (mail.Client mode): the Client is constructed with auth-data logging ON and without debug log / logger,
	// then configured through SetDebugLog(true), SetLogger and SetLogAuthData(false)
	Setters bool `json:"setters,omitempty"`
	// Toggle (smtp mode): debug logging is OFF when Auth is called and switched on while the exchange is running —
	// inside the mechanism's Start (1), its first Next (2) or its second Next (3)
	Toggle int `json:"toggle,omitempty"`
	// CloseAt (smtp mode, debug log on): another party closes the smtp.Client while the exchange is running — Close()
	// lands inside the mechanism's Start (1), first Next (2) or second Next (3); 4..6 the same with Quit(). These are
	// the only places a concurrent Close can land (a command holds the Client's mutex for its whole round trip), so
	// calling it from there is the linearisation of that schedule.
	CloseAt int `json:"closeat,omitempty"`
	// User: 0 an ordinary user name, 1 the EMPTY user name, 2 a one-character user name (the secret is unchanged)
	User int `json:"user,omitempty"`
	// Refuse (smtp mode): the mechanism refuses to start on the CLIENT side — 1 = PLAIN / LOGIN made without permission
	// to run unencrypted (the session is plain text, the server not localhost), 2 = PLAIN / LOGIN made for another host
	// name, 3 = any mechanism wrapped so that its Start returns an error. Whatever the Client logs afterwards (NOOP,
	// QUIT) must be logged normally.
	Refuse int `json:"refuse,omitempty"`
}

// refusingAuth's Start fails before anything is sent.
type refusingAuth struct{ inner smtp.Auth }

func (refusingAuth) Start(*smtp.ServerInfo) (string, []byte, error) {
	return "", nil, errors.New("mechanism not usable (injected)")
}
func (r refusingAuth) Next(b []byte, more bool) ([]byte, error) { return r.inner.Next(b, more) }

// togglingAuth wraps a mechanism and switches the client's debug log on at a given step of the exchange.
type togglingAuth struct {
	inner smtp.Auth
	at    int
	step  int
	fired bool
	on    func()
}

func (t *togglingAuth) hit() {
	t.step++
	if t.step == t.at {
		t.fired = true
		t.on()
	}
}

func (t *togglingAuth) Start(si *smtp.ServerInfo) (string, []byte, error) {
	t.hit()
	return t.inner.Start(si)
}

func (t *togglingAuth) Next(fromServer []byte, more bool) ([]byte, error) {
	t.hit()
	return t.inner.Next(fromServer, more)
}

type c16Case struct {
	Cfg    c16Cfg `json:"cfg"`
	Prefix []int  `json:"choices"`
}

var c16Mechs = []string{"PLAIN", "LOGIN", "CRAM-MD5", "XOAUTH2", "SCRAM-SHA-1", "SCRAM-SHA-256", "SCRAM-SHA-256-PLUS"}

var c16Creds = []string{
	"Zq7#vR2mXw9LpT4",    // 15 bytes: no base64 padding
	"pA=ss,W0rd=Yq8,K",   // 16 bytes, with '=' and ','
	"Kd3xP1qLm8Zt0Vb5w",  // 17 bytes
	"pä§wörd-日本-Xk29Qm",  // Unicode
	"Pq%sw0rd%d-100%-Zk", // format verbs
}

const c16DefaultUser = "user@example.test"

type capLogger struct {
	mu   sync.Mutex
	recs []log.Log
}

func (c *capLogger) add(l log.Log)    { c.mu.Lock(); c.recs = append(c.recs, l); c.mu.Unlock() }
func (c *capLogger) Debugf(l log.Log) { c.add(l) }
func (c *capLogger) Infof(l log.Log)  { c.add(l) }
func (c *capLogger) Warnf(l log.Log)  { c.add(l) }
func (c *capLogger) Errorf(l log.Log) { c.add(l) }

func c16Needles(mech int, secret, c16User string) map[string]string {
	b64 := base64.StdEncoding.EncodeToString
	n := map[string]string{
		"the raw secret":          secret,
		"base64(secret)":          b64([]byte(secret)),
		"unpadded base64(secret)": strings.TrimRight(b64([]byte(secret)), "="),
		"hex(secret)":             hex.EncodeToString([]byte(secret)),
		"url-base64(secret)":      base64.URLEncoding.EncodeToString([]byte(secret)),
	}
	switch c16Mechs[mech] {
	case "PLAIN":
		n["the PLAIN response"] = b64([]byte("\x00" + c16User + "\x00" + secret))
	case "XOAUTH2":
		n["the XOAUTH2 response"] = b64([]byte("user=" + c16User + "\x01auth=Bearer " + secret + "\x01\x01"))
	}
	return n
}

func c16Describe(l string, p int) string {
	if strings.HasPrefix(l, "EHLO") {
		return l + "=" + []string{"ok", "ok, then the client's next write fails", "502 (client falls back to HELO)"}[p]
	}
	return l + "=" + c16AltNames[p]
}

var c16AltNames = []string{"conforming", "535", "non-base64 challenge", "extra challenge", "drop", "conforming reply, then the client's next write fails", "empty challenge"}

func c16Exec(r *vf.Run, cfg c16Cfg, c *vf.Chooser) (keys, whats []string, controlHit bool) {
	add := func(k, w string) { keys = append(keys, k); whats = append(whats, w) }
	mech := c16Mechs[cfg.Mech]
	secret := c16Creds[cfg.Cred]
	c16User := []string{c16DefaultUser, "", "u"}[cfg.User]
	useTLS := strings.HasSuffix(mech, "-PLUS")
	caps := []string{"AUTH " + strings.Join(c16Mechs, " "), "8BITMIME"}
	if useTLS {
		caps = append(caps, "STARTTLS")
	}
	sess := &refsmtp.Session{Host: hx.Host, Caps: caps}
	conn := refsmtp.NewConn(sess)
	conn.TLSConfig = hx.ServerTLS(hx.Mat().Good)
	conn.TLSConfig.MaxVersion = tls.VersionTLS12
	trace := &sasl.Trace{}
	sess.NewAuth = func(s *refsmtp.Session, m string) refsmtp.AuthExchange {
		switch m {
		case "PLAIN":
			return &sasl.Plain{User: c16User, Pass: secret, T: trace}
		case "LOGIN":
			return &sasl.Login{User: c16User, Pass: secret, T: trace}
		case "CRAM-MD5":
			return &sasl.CramMD5{User: c16User, Pass: secret, Challenge: "<1896.697170952@mail.example.test>", T: trace}
		case "XOAUTH2":
			return &sasl.XOAuth2{User: c16User, Token: secret, T: trace}
		case "SCRAM-SHA-1", "SCRAM-SHA-256", "SCRAM-SHA-256-PLUS":
			sc := &sasl.Scram{User: c16User, Pass: secret, SHA256: m != "SCRAM-SHA-1", Plus: strings.HasSuffix(m, "-PLUS"), Salt: []byte("0123456789abcdef"), Iter: 16, SNonce: "srvnonce", T: trace}
			if sc.Plus && conn.ServerTLS != nil {
				sc.CBType, sc.CBData = "tls-unique", conn.ServerTLS.TLSUnique
			}
			return sc
		}
		return nil
	}
	sess.Script = func(s *refsmtp.Session, ev *refsmtp.Event, def refsmtp.Action) refsmtp.Action {
		if ev.Verb == "EHLO" && !useTLS || ev.Verb == "EHLO" && s.InTLS {
			switch c.Choose(ev.Pos(), 3) {
			case 1:
				conn.BreakWrites = true
			case 2:
				return refsmtp.Action{Kind: refsmtp.ActReply, Code: 502, Text: []string{"5.5.1 command not implemented"}}
			}
			return def
		}
		if ev.Verb != "AUTH" && ev.Verb != "AUTHRESP" {
			return def
		}
		if ev.Line == "*" {
			return def
		}
		switch c.Choose(ev.Pos(), 7) {
		case 6:
			return refsmtp.Action{Kind: refsmtp.ActReply, Code: 334, Text: []string{""}}
		case 5:
			conn.BreakWrites = true
			return def
		case 1:
			return refsmtp.Action{Kind: refsmtp.ActReply, Code: 535, Text: []string{"5.7.8 authentication failed"}}
		case 2:
			return refsmtp.Action{Kind: refsmtp.ActReply, Code: 334, Text: []string{"!!!this is not base64!!!"}}
		case 3:
			return refsmtp.Action{Kind: refsmtp.ActReply, Code: 334, Text: []string{base64.StdEncoding.EncodeToString([]byte("one more round?"))}}
		case 4:
			return refsmtp.Action{Kind: refsmtp.ActDrop}
		}
		return def
	}
	capl := &capLogger{}
	var out bytes.Buffer
	var lg log.Logger
	switch cfg.Logger {
	case 0:
		lg = capl
	case 1:
		lg = log.New(&out, log.LevelDebug)
	default:
		lg = log.NewJSON(&out, log.LevelDebug)
	}
	rig := &hx.Rig{Mk: func(n int) *refsmtp.Conn {
		if n > 0 {
			return nil
		}
		return conn
	}}
	authReturned := -1 // transcript length when Auth/Dial returned
	pan, pw := vf.Guard(func() {
		if cfg.SMTP {
			cl, err := smtp.NewClient(conn, hx.Host)
			if err != nil {
				r.HarnessError("C16 smtp.NewClient: %v", err)
				return
			}
			cl.SetLogger(lg)
			if cfg.Toggle == 0 {
				cl.SetDebugLog(true)
			}
			if cfg.LogAuth {
				cl.SetLogAuthData()
			}
			if !cfg.NoHello {
				if err := cl.Hello("client.example.test"); err != nil {
					return
				}
			}
			var a smtp.Auth
			switch mech {
			case "PLAIN":
				a = smtp.PlainAuth("", c16User, secret, map[bool]string{false: hx.Host, true: "other.host.example"}[cfg.Refuse == 2], cfg.Refuse != 1)
			case "LOGIN":
				a = smtp.LoginAuth(c16User, secret, map[bool]string{false: hx.Host, true: "other.host.example"}[cfg.Refuse == 2], cfg.Refuse != 1)
			case "CRAM-MD5":
				a = smtp.CRAMMD5Auth(c16User, secret)
			case "XOAUTH2":
				a = smtp.XOAuth2Auth(c16User, secret)
			case "SCRAM-SHA-1":
				a = smtp.ScramSHA1Auth(c16User, secret)
			default:
				a = smtp.ScramSHA256Auth(c16User, secret)
			}
			if cfg.Refuse == 3 {
				a = refusingAuth{a}
			}
			var tg *togglingAuth
			if cfg.Toggle > 0 {
				tg = &togglingAuth{inner: a, at: cfg.Toggle, on: func() { cl.SetDebugLog(true) }}
				a = tg
			}
			if cfg.CloseAt > 0 {
				ca := &togglingAuth{inner: a, at: (cfg.CloseAt-1)%3 + 1, on: func() {
					if cfg.CloseAt > 3 {
						_ = cl.Quit()
					} else {
						_ = cl.Close()
					}
				}}
				a = ca
				defer func() {
					if ca.fired {
						r.Outcome(fmt.Sprintf("reached/closed-mid-exchange/%d", cfg.CloseAt))
					}
				}()
			}
			_ = cl.Auth(a)
			if tg != nil && !tg.fired {
				cl.SetDebugLog(true) // the exchange ended before that step: logging starts afterwards
			}
			if cfg.Retry {
				_ = cl.Auth(a)
			}
			authReturned = len(sess.Transcript)
			_ = cl.Noop()
			_ = cl.Quit()
			_ = cl.Close()
			return
		}
		types := map[string]mail.SMTPAuthType{"PLAIN": mail.SMTPAuthPlainNoEnc, "LOGIN": mail.SMTPAuthLoginNoEnc, "CRAM-MD5": mail.SMTPAuthCramMD5,
			"XOAUTH2": mail.SMTPAuthXOAUTH2, "SCRAM-SHA-1": mail.SMTPAuthSCRAMSHA1, "SCRAM-SHA-256": mail.SMTPAuthSCRAMSHA256, "SCRAM-SHA-256-PLUS": mail.SMTPAuthSCRAMSHA256PLUS}
		opts := []mail.Option{mail.WithDialContextFunc(rig.Dial), mail.WithHELO("client.example.test"), mail.WithTLSConfig(hx.ClientTLS(hx.Host)),
			mail.WithSMTPAuth(types[mech]), mail.WithUsername(c16User), mail.WithPassword(secret), mail.WithDebugLog(), mail.WithLogger(lg)}
		if useTLS {
			opts = append(opts, mail.WithTLSPolicy(mail.TLSMandatory))
		} else {
			opts = append(opts, mail.WithTLSPolicy(mail.NoTLS))
		}
		if cfg.LogAuth {
			opts = append(opts, mail.WithLogAuthData())
		}
		if cfg.Setters {
			opts = []mail.Option{mail.WithDialContextFunc(rig.Dial), mail.WithHELO("client.example.test"), mail.WithTLSConfig(hx.ClientTLS(hx.Host)),
				mail.WithSMTPAuth(types[mech]), mail.WithUsername(c16User), mail.WithPassword(secret), mail.WithLogAuthData()}
			if useTLS {
				opts = append(opts, mail.WithTLSPolicy(mail.TLSMandatory))
			} else {
				opts = append(opts, mail.WithTLSPolicy(mail.NoTLS))
			}
		}
		cl, err := mail.NewClient(hx.Host, opts...)
		if err != nil {
			r.HarnessError("C16 NewClient: %v", err)
			return
		}
		if cfg.Setters {
			cl.SetLogger(lg)
			cl.SetDebugLog(true)
			cl.SetLogAuthData(false)
		}
		derr := cl.DialWithContext(context.Background())
		authReturned = len(sess.Transcript)
		if derr == nil {
			_ = cl.Send(hx.StdMsg(0, 1, mail.EncodingQP))
			_ = cl.Close()
		}
	})
	if pan {
		add("panic/"+vf.PanicSite(pw), pw)
		return
	}
	protoStates(r, sess.Transcript)
	if trace.Accepted && sess.Authed {
		r.Outcome("authenticated/" + mech)
		if cfg.Setters {
			r.Outcome("reached/authenticated-client-configured-through-setters")
		}
		if cfg.NoHello {
			r.Outcome("reached/authenticated-without-hello-call")
		}
		if cfg.Retry {
			r.Outcome("reached/authenticated-with-retry")
		}
		for _, e := range sess.Transcript {
			if e.Verb == "HELO" {
				r.Outcome("reached/authenticated-after-helo-fallback")
			}
		}
	}
	// collect everything that was logged
	var texts []string
	for _, rec := range capl.recs {
		texts = append(texts, rec.Format)
		for _, m := range rec.Messages {
			texts = append(texts, fmt.Sprint(m))
		}
		texts = append(texts, fmt.Sprintf(rec.Format, rec.Messages...))
	}
	raw := out.String()
	if raw != "" {
		texts = append(texts, raw)
		if cfg.Logger == 2 {
			for _, ln := range strings.Split(raw, "\n") {
				var doc map[string]interface{}
				if json.Unmarshal([]byte(ln), &doc) == nil {
					if m, ok := doc["msg"].(string); ok {
						texts = append(texts, m)
					}
				}
			}
		}
	}
	all := strings.Join(texts, "\n")
	// was a secret-carrying response actually sent? (control and relevance)
	sentSecret := false
	for _, e := range sess.Transcript {
		if e.Verb == "AUTH" || e.Verb == "AUTHRESP" {
			for _, nd := range c16Needles(cfg.Mech, secret, c16User) {
				if nd != "" && strings.Contains(e.Line, nd) {
					sentSecret = true
				}
			}
		}
	}
	leaks := []string{}
	for name, nd := range c16Needles(cfg.Mech, secret, c16User) {
		if nd != "" && strings.Contains(all, nd) {
			leaks = append(leaks, name)
		}
	}
	if cfg.LogAuth {
		if sentSecret && len(leaks) > 0 {
			controlHit = true
		}
		if sentSecret && len(leaks) == 0 {
			r.HarnessError("C16 control: secret was sent with auth-data logging on but the scanner did not find it (mech %s logger %d)", mech, cfg.Logger)
		}
	} else if len(leaks) > 0 {
		// which server behaviour preceded the leak?
		add(fmt.Sprintf("secret-logged/mech=%s/logger=%d", mech, cfg.Logger), fmt.Sprintf("%s: the log contains %v; server script: %s", mech, leaks, c.Describe(c16Describe)))
	}
	// window closes: commands issued after authentication returned are logged verbatim
	if authReturned >= 0 && !cfg.LogAuth {
		for i := authReturned; i < len(sess.Transcript); i++ {
			e := sess.Transcript[i]
			switch e.Verb {
			case "NOOP", "MAIL", "RCPT", "DATA", "RSET", "QUIT":
				if !strings.Contains(all, e.Line) {
					add(fmt.Sprintf("post-auth-command-not-logged/verb=%s/mech=%s", e.Verb, mech), fmt.Sprintf("%s: command %q sent after authentication ended is missing from the debug log (redaction window still open?); server script: %s", mech, e.Line, c.Describe(nil)))
				}
				if e.Code > 0 && e.Tag != "" && !strings.Contains(all, e.Tag) {
					add(fmt.Sprintf("post-auth-reply-not-logged/verb=%s/mech=%s", e.Verb, mech), fmt.Sprintf("%s: the reply to %q after authentication is missing from the debug log", mech, e.Line))
				}
			}
		}
		if cfg.SMTP && !strings.Contains(all, "NOOP") {
			add("post-auth-command-not-logged/verb=NOOP/mech="+mech, fmt.Sprintf("%s: NOOP issued after Auth returned is not logged verbatim; server script: %s", mech, c.Describe(nil)))
		}
	}
	return
}

func init() {
	vf.Register(&vf.Check{
		ID: "C16", Title: "authentication secrets never reach the debug log",
		Run: func(r *vf.Run) {
			r.SetRule("mechanism {PLAIN, LOGIN, CRAM-MD5, XOAUTH2, SCRAM-SHA-1, SCRAM-SHA-256, SCRAM-SHA-256-PLUS over real TLS} × user name {ordinary, empty, one character} × 5 marker credentials (base64 padding 0/1/2, '='/',', Unicode, '%' format verbs) × logger {custom capturing, log.New, log.NewJSON} × {debug only, debug+WithLogAuthData as scanner control} × entry {mail.Client dial+send (configured by options, or constructed with auth-data logging on and then configured through SetLogger / SetDebugLog / SetLogAuthData(false)), smtp.Client Auth then NOOP, smtp.Client Auth, Auth again, then NOOP; each smtp.Client entry with and without a preceding Hello call; debug logging off at the start of Auth and switched on inside the mechanism's Start / first Next / second Next; the smtp.Client closed by another party (Close or Quit) inside the mechanism's Start / first Next / second Next} × every server script over {conforming, 535, non-base64 challenge, extra challenge, empty challenge, drop, transport write failure on the next client line} at every AUTH step and at the EHLO that precedes AUTH {ok, write failure afterwards, 502 with HELO fallback} up to the deviation bound; the log (format, arguments, formatted line, raw output, decoded JSON msg) is scanned for the secret, its base64/hex/url-base64 forms and the exact SASL response; distinct by (configuration, script); mechanisms that refuse to start on the client side (unencrypted session, other host name, a failing Start) followed by further commands that must be logged normally")
			r.Assume("user names are not secrets", "a server that echoes credentials in its own reply text is outside the alphabet")
			bound := 3
			if r.Thorough {
				bound = 6
			}
			r.Extra("deviation_bound", bound)
			var cfgs []c16Cfg
			for m := range c16Mechs {
				for cr := range c16Creds {
					for lg := 0; lg < 3; lg++ {
						for _, la := range []bool{false, true} {
							for _, sm := range []bool{false, true} {
								if sm && strings.HasSuffix(c16Mechs[m], "-PLUS") {
									continue
								}
								if !r.Thorough && la && (cr != 0 || sm) {
									continue // quick: the scanner control runs once per mechanism × logger
								}
								cfgs = append(cfgs, c16Cfg{Mech: m, Cred: cr, Logger: lg, LogAuth: la, SMTP: sm})
								if !la && cr < 2 {
									// the empty and the one-character user name
									for u := 1; u <= 2; u++ {
										cfgs = append(cfgs, c16Cfg{Mech: m, Cred: cr, Logger: lg, SMTP: sm, User: u})
									}
								}
								if !sm && !la {
									cfgs = append(cfgs, c16Cfg{Mech: m, Cred: cr, Logger: lg, Setters: true})
								}
								if sm && !la {
									cfgs = append(cfgs, c16Cfg{Mech: m, Cred: cr, Logger: lg, LogAuth: la, SMTP: sm, Retry: true})
									cfgs = append(cfgs, c16Cfg{Mech: m, Cred: cr, Logger: lg, LogAuth: la, SMTP: sm, NoHello: true})
									for tg := 1; tg <= 3; tg++ {
										cfgs = append(cfgs, c16Cfg{Mech: m, Cred: cr, Logger: lg, SMTP: true, Toggle: tg})
									}
									for ca := 1; ca <= 6; ca++ {
										cfgs = append(cfgs, c16Cfg{Mech: m, Cred: cr, Logger: lg, SMTP: true, CloseAt: ca})
									}
									cfgs = append(cfgs, c16Cfg{Mech: m, Cred: cr, Logger: lg, LogAuth: la, SMTP: sm, NoHello: true, Retry: true})
									for rf := 1; rf <= 3; rf++ {
										if rf < 3 && m > 1 {
											continue // only PLAIN and LOGIN check the session and the host name themselves
										}
										cfgs = append(cfgs, c16Cfg{Mech: m, Cred: cr, Logger: lg, SMTP: true, Refuse: rf}, c16Cfg{Mech: m, Cred: cr, Logger: lg, SMTP: true, Refuse: rf, Retry: true})
									}
								}
							}
						}
					}
				}
			}
			var ctlMu sync.Mutex
			control := map[string]bool{}
			r.Parallel(len(cfgs), "C16 configurations", func(i int) {
				cfg := cfgs[i]
				vf.ExploreN(r, 1, bound, fmt.Sprintf("C16 %+v", cfg), func(c *vf.Chooser) {
					keys, whats, hit := c16Exec(r, cfg, c)
					r.TraceValidated()
					r.Eval(vf.Hash(fmt.Sprintf("%+v", cfg), fmt.Sprint(c.Picks)), true)
					if hit {
						ctlMu.Lock()
						control[c16Mechs[cfg.Mech]] = true
						ctlMu.Unlock()
					}
					if len(keys) == 0 {
						r.Outcome("clean")
					} else {
						r.Outcome("leak-or-window")
					}
					if r.NSamples() < 5 && c.Deviations() == 2 {
						r.Sample(map[string]interface{}{"cfg": cfg, "mechanism": c16Mechs[cfg.Mech], "script": c.Describe(c16Describe)})
					}
					kase := c16Case{Cfg: cfg, Prefix: append([]int{}, c.Picks...)}
					for j, k := range keys {
						k := k
						r.Violation(k, whats[j], kase, func() string {
							ks, _, _ := c16Exec(r, cfg, vf.NewChooser(kase.Prefix))
							for _, x := range ks {
								if x == k {
									return k
								}
							}
							return ""
						})
					}
				})
			})
			var hits []string
			for _, m := range []string{"PLAIN", "LOGIN", "XOAUTH2"} {
				if control[m] {
					hits = append(hits, m)
				} else {
					r.HarnessError("C16 scanner control never saw the %s secret with WithLogAuthData", m)
				}
			}
			r.Extra("scanner_control_mechanisms_seen_with_logauthdata", hits)
			r.Reached("reached/authenticated-client-configured-through-setters", "reached/authenticated-without-hello-call", "reached/authenticated-with-retry", "reached/authenticated-after-helo-fallback",
				"reached/closed-mid-exchange/1", "reached/closed-mid-exchange/2", "reached/closed-mid-exchange/3", "reached/closed-mid-exchange/4", "reached/closed-mid-exchange/5", "reached/closed-mid-exchange/6",
				"authenticated/PLAIN", "authenticated/LOGIN", "authenticated/CRAM-MD5", "authenticated/XOAUTH2", "authenticated/SCRAM-SHA-1", "authenticated/SCRAM-SHA-256", "authenticated/SCRAM-SHA-256-PLUS")
		},
		Replay: func(r *vf.Run, kase json.RawMessage) {
			var k c16Case
			if err := json.Unmarshal(kase, &k); err != nil {
				r.HarnessError("bad case: %v", err)
				return
			}
			keys, whats, _ := c16Exec(r, k.Cfg, vf.NewChooser(k.Prefix))
			r.Eval(1, true)
			for i, key := range keys {
				fmt.Printf("  -> %s: %s\n", key, whats[i])
				r.Violation(key, whats[i], k, nil)
			}
		},
	})
}
