package checks

import (
	"bytes"
	"context"
	"crypto/tls"
	"encoding/json"
	"fmt"
	"io"
	"math/rand"
	"net"
	"os"
	"os/exec"
	"path/filepath"
	"strings"
	"sync"
	"sync/atomic"
	"time"

	mail "github.com/wneessen/go-mail"
	"github.com/wneessen/go-mail/log"

	"verif/hx"
	"verif/refsmtp"
	"verif/sasl"
	"verif/sched"
	"verif/vf"
)

// C13 — concurrent use of one Client is safe.

type c13Scn struct {
	Name    string `json:"name"`
	Senders int    `json:"senders"` // goroutines calling Send on the shared, dialled connection
	Dialers int    `json:"dialers"` // goroutines calling DialAndSend on the same Client
	PerCall int    `json:"per_call"`
	Auth    string `json:"auth,omitempty"` // "" none, "LOGIN" (multi-step, stateful), "SCRAM-SHA-256", "AUTODISCOVER"
	// Fault: the server refuses the first message of the LAST thread: 1 first recipient refused (550), 2 the same and
	// the clean-up RSET is answered 421 + disconnect (dialer threads only: the connection is theirs), 3 DATA refused (554).
	// Every other message must be unaffected.
	Fault int `json:"fault,omitempty"`
	// Debug: the Client logs its dialogue through the library's own log.Stdlog (debug level)
	Debug bool `json:"debug,omitempty"`
	// Quoted: every envelope address has a local part that has to be transmitted as quoted-string ("m 3 x"@…)
	Quoted bool `json:"quoted,omitempty"`
	// TLS: 0 no TLS; 1 every connection negotiates STARTTLS (real crypto/tls handshake) with the tls.Config the Client
	// derives itself; 2 the same with ONE caller-supplied tls.Config that does not name the server (InsecureSkipVerify)
	// and is shared by all connections of the Client
	TLS int `json:"tls,omitempty"`
	// Pool: goroutines that use the Client's connection-per-caller API: DialToSMTPClientWithContext, SendWithSMTPClient
	// on the connection they got, CloseWithSMTPClient
	Pool int `json:"pool,omitempty"`
	// Fallback: the Client is configured with WithTLSPortPolicy(opportunistic) (port 587, fallback port 25); every
	// dial to port 587 is refused, the connections come from the fallback port. Each dial attempt is a visible
	// operation for the scheduler.
	Fallback bool `json:"fallback,omitempty"`
	// DSN: the Client is configured with WithDSN() and the server advertises DSN (per-send use of the Client's DSN settings)
	DSN bool `json:"dsn,omitempty"`
	// CtxDL: the goroutines that dial pass a context WITH a deadline (10 s: shorter than the Client's timeout of 15 s,
	// far longer than anything the harness does; nothing is judged by time)
	CtxDL bool `json:"ctxdl,omitempty"`
}

// c13Ctx returns the context a dialling goroutine passes.
func c13Ctx(scn c13Scn) (context.Context, context.CancelFunc) {
	if scn.CtxDL {
		return context.WithTimeout(context.Background(), 10*time.Second)
	}
	return context.Background(), func() {}
}

type c13Case struct {
	Scn    c13Scn `json:"scenario"`
	Prefix []int  `json:"schedule"`
}

var c13Scenarios = []c13Scn{
	{"2xSend(1)", 2, 0, 1, "", 0, false, false, 0, 0, false, false, false},
	{"2xSend(2)", 2, 0, 2, "", 0, false, false, 0, 0, false, false, false},
	{"3xSend(1)", 3, 0, 1, "", 0, false, false, 0, 0, false, false, false},
	{"2xDialAndSend(1)", 0, 2, 1, "", 0, false, false, 0, 0, false, false, false},
	{"Send+DialAndSend", 1, 1, 1, "", 0, false, false, 0, 0, false, false, false},
	{"2xSend+DialAndSend", 2, 1, 1, "", 0, false, false, 0, 0, false, false, false},
	{"2xDialAndSend(1)+LOGIN", 0, 2, 1, "LOGIN", 0, false, false, 0, 0, false, false, false},
	{"2xDialAndSend(1)+SCRAM", 0, 2, 1, "SCRAM-SHA-256", 0, false, false, 0, 0, false, false, false},
	{"Send+DialAndSend+AUTODISCOVER", 1, 1, 1, "AUTODISCOVER", 0, false, false, 0, 0, false, false, false},
	{"2xSend(1)/rcpt-refused", 2, 0, 1, "", 1, false, false, 0, 0, false, false, false},
	{"2xSend(2)/data-refused", 2, 0, 2, "", 3, false, false, 0, 0, false, false, false},
	{"Send+DialAndSend/dialer-rcpt-refused", 1, 1, 1, "", 1, false, false, 0, 0, false, false, false},
	{"Send+DialAndSend/dialer-rcpt-refused+rset-fails", 1, 1, 1, "", 2, false, false, 0, 0, false, false, false},
	{"Send+DialAndSend/dialer-data-refused", 1, 1, 1, "", 3, false, false, 0, 0, false, false, false},
	{"2xDialAndSend(1)/rcpt-refused+rset-fails", 0, 2, 1, "", 2, false, false, 0, 0, false, false, false},
	{"Send+DialAndSend+debuglog", 1, 1, 1, "", 0, true, false, 0, 0, false, false, false},
	{"2xDialAndSend(1)+debuglog", 0, 2, 1, "", 0, true, false, 0, 0, false, false, false},
	{"2xDialAndSend(1)+quoted-local-parts", 0, 2, 1, "", 0, false, true, 0, 0, false, false, false},
	{"Send+DialAndSend+quoted-local-parts", 1, 1, 1, "", 0, false, true, 0, 0, false, false, false},
	{"2xDialAndSend(1)+starttls(caller's config without server name)", 0, 2, 1, "", 0, false, false, 2, 0, false, false, false},
	{"2xDialAndSend(1)+fallback-port", 0, 2, 1, "", 0, false, false, 0, 0, true, false, false},
	{Name: "Send+DialAndSend+DSN", Senders: 1, Dialers: 1, PerCall: 1, DSN: true},
	{"DialAndSend+DialToSMTPClient+fallback-port", 0, 1, 1, "", 0, false, false, 0, 1, true, false, false},
	{"2xDialToSMTPClient+SendWithSMTPClient", 0, 0, 1, "", 0, false, false, 0, 2, false, false, false},
	{"Send+DialToSMTPClient+SendWithSMTPClient", 1, 0, 1, "", 0, false, false, 0, 1, false, false, false},
	{"DialAndSend+DialToSMTPClient+SendWithSMTPClient+LOGIN", 0, 1, 1, "LOGIN", 0, false, false, 0, 1, false, false, false},
	{"2xDialToSMTPClient+SendWithSMTPClient/rcpt-refused+rset-fails", 0, 0, 1, "", 2, false, false, 0, 2, false, false, false},
	{Name: "Send+DialAndSend(context with a deadline)", Senders: 1, Dialers: 1, PerCall: 1, CtxDL: true},
	{Name: "2xDialAndSend(context with a deadline)", Dialers: 2, PerCall: 1, CtxDL: true},
}

var c13Blocked int32

type c13World struct {
	rig     *hx.Rig
	cl      *mail.Client
	msgs    [][]*mail.Msg // per thread
	errs    []error
	bodies  []func()
	threads int
	target  int // index of the message the server refuses (-1: none)
	quoted  bool
	allFail bool // the server refuses the first recipient of every message (with an enhanced status code)
}

func c13Build(r *vf.Run, scn c13Scn, hook func(string)) *c13World {
	w := &c13World{target: -1, quoted: scn.Quoted}
	if scn.Fault > 0 && scn.Fault != 4 {
		w.target = (scn.Senders + scn.Dialers + scn.Pool - 1) * scn.PerCall
	}
	w.allFail = scn.Fault == 4
	w.rig = &hx.Rig{Mk: func(n int) *refsmtp.Conn {
		caps := []string{"8BITMIME"}
		if scn.Fault == 4 {
			caps = append(caps, "ENHANCEDSTATUSCODES")
		}
		if scn.DSN {
			caps = append(caps, "DSN")
		}
		if scn.Auth != "" {
			caps = append(caps, "AUTH LOGIN SCRAM-SHA-256 CRAM-MD5")
		}
		if scn.TLS > 0 {
			caps = append(caps, "STARTTLS")
		}
		sess := &refsmtp.Session{Host: hx.Host, Caps: caps}
		c := refsmtp.NewConn(sess)
		c.Hook = hook
		if scn.TLS > 0 {
			c.TLSConfig = hx.ServerTLS(hx.Mat().Good)
		}
		if scn.Fault > 0 {
			inTarget, rsetFails := false, false
			sess.Script = func(s *refsmtp.Session, ev *refsmtp.Event, def refsmtp.Action) refsmtp.Action {
				switch ev.Verb {
				case "MAIL":
					inTarget = strings.Contains(ev.Line, hx.Sender(w.target))
				case "RCPT":
					if scn.Fault == 4 && strings.Contains(ev.Line, "-0@") {
						return refsmtp.Action{Kind: refsmtp.ActReply, Code: 550, Text: []string{"5.1.1 no such user"}}
					}
					if inTarget && scn.Fault <= 2 && strings.Contains(ev.Line, hx.Rcpt(w.target, 0)) {
						rsetFails = scn.Fault == 2
						return refsmtp.Action{Kind: refsmtp.ActReply, Code: 550, Text: []string{"5.1.1 no such user"}}
					}
				case "DATA":
					if inTarget && scn.Fault == 3 {
						return refsmtp.Action{Kind: refsmtp.ActReply, Code: 554, Text: []string{"5.6.0 refused"}}
					}
				case "RSET":
					if rsetFails {
						rsetFails = false
						return refsmtp.Action{Kind: refsmtp.ActReplyThenDrop, Code: 421, Text: []string{"4.3.0 closing"}}
					}
				}
				return def
			}
		}
		if scn.Auth != "" {
			tr := &sasl.Trace{}
			sess.NewAuth = saslFactory(c, c19User, c19Pass, tr)
		}
		return c
	}}
	opts := []mail.Option{mail.WithDialContextFunc(w.rig.Dial), mail.WithHELO("client.example.test"), mail.WithTLSPolicy(mail.NoTLS)}
	if scn.DSN {
		opts = append(opts, mail.WithDSN(), mail.WithDSNRcptNotifyType(mail.DSNRcptNotifySuccess, mail.DSNRcptNotifyFailure, mail.DSNRcptNotifyFailure))
	}
	if scn.Fallback {
		opts = append(opts, mail.WithTLSPortPolicy(mail.TLSOpportunistic), mail.WithDialContextFunc(func(ctx context.Context, network, addr string) (net.Conn, error) {
			if hook != nil {
				hook("dial")
			}
			if strings.HasSuffix(addr, ":587") {
				return nil, fmt.Errorf("dial tcp %s: connect: connection refused", addr)
			}
			return w.rig.Dial(ctx, network, addr)
		}))
	}
	switch scn.TLS {
	case 1:
		opts = append(opts, mail.WithTLSPolicy(mail.TLSMandatory), mail.WithTLSConfig(hx.ClientTLS(hx.Host)))
	case 2:
		opts = append(opts, mail.WithTLSPolicy(mail.TLSMandatory), mail.WithTLSConfig(&tls.Config{InsecureSkipVerify: true, MinVersion: tls.VersionTLS12}))
	}
	if scn.Debug {
		opts = append(opts, mail.WithDebugLog(), mail.WithLogger(log.New(io.Discard, log.LevelDebug)))
	}
	switch scn.Auth {
	case "LOGIN":
		opts = append(opts, mail.WithSMTPAuth(mail.SMTPAuthLoginNoEnc), mail.WithUsername(c19User), mail.WithPassword(c19Pass))
	case "SCRAM-SHA-256":
		opts = append(opts, mail.WithSMTPAuth(mail.SMTPAuthSCRAMSHA256), mail.WithUsername(c19User), mail.WithPassword(c19Pass))
	case "AUTODISCOVER":
		opts = append(opts, mail.WithSMTPAuth(mail.SMTPAuthAutoDiscover), mail.WithUsername(c19User), mail.WithPassword(c19Pass))
	}
	cl, err := mail.NewClient(hx.Host, opts...)
	if err != nil {
		r.HarnessError("C13 NewClient: %v", err)
		return nil
	}
	w.cl = cl
	w.threads = scn.Senders + scn.Dialers + scn.Pool
	w.errs = make([]error, w.threads)
	id := 0
	for t := 0; t < w.threads; t++ {
		var ms []*mail.Msg
		for j := 0; j < scn.PerCall; j++ {
			m := hx.StdMsg(id, 2, mail.EncodingQP)
			if scn.Quoted {
				_ = m.From(fmt.Sprintf("%q@snd.example", c13QLocal("m", id, 0)))
				_ = m.To(fmt.Sprintf("%q@rcp.example", c13QLocal("r", id, 0)), fmt.Sprintf("%q@rcp.example", c13QLocal("r", id, 1)))
			}
			ms = append(ms, m)
			id++
		}
		w.msgs = append(w.msgs, ms)
	}
	for t := 0; t < w.threads; t++ {
		t := t
		if t < scn.Senders {
			w.bodies = append(w.bodies, func() { w.errs[t] = cl.Send(w.msgs[t]...) })
		} else if t >= scn.Senders+scn.Dialers {
			w.bodies = append(w.bodies, func() {
				ctx, cancel := c13Ctx(scn)
				defer cancel()
				sc, err := cl.DialToSMTPClientWithContext(ctx)
				if err != nil {
					w.errs[t] = err
					return
				}
				w.errs[t] = cl.SendWithSMTPClient(sc, w.msgs[t]...)
				if cerr := cl.CloseWithSMTPClient(sc); cerr != nil && w.errs[t] == nil {
					w.errs[t] = cerr
				}
			})
		} else {
			w.bodies = append(w.bodies, func() {
				ctx, cancel := c13Ctx(scn)
				defer cancel()
				w.errs[t] = cl.DialAndSendWithContext(ctx, w.msgs[t]...)
			})
		}
	}
	return w
}

// c13QLocal is a local part that is only legal as quoted-string (blanks), distinct per message and role.
func c13QLocal(role string, i, j int) string { return fmt.Sprintf("%s %d %d q", role, i, j) }

// c13Judge applies the oracle after all bodies returned.
func c13Judge(w *c13World, add func(key, f string, a ...interface{})) {
	if w.allFail {
		for t, e := range w.errs {
			if e == nil {
				add("refusal-not-reported", "thread %d: the server refused a recipient of every message but the call returned nil", t)
			}
		}
		for ci, c := range w.rig.Conns {
			if len(c.S.Commits) > 0 {
				add("refused-message-committed", "connection %d committed %d message(s) although a recipient of every message was refused", ci, len(c.S.Commits))
			}
		}
		return
	}
	total := 0
	for _, ms := range w.msgs {
		total += len(ms)
	}
	perCall := 1
	if len(w.msgs) > 0 {
		perCall = len(w.msgs[0])
	}
	for t, e := range w.errs {
		tgt := w.target >= 0 && w.target/perCall == t
		if e != nil && !tgt {
			add("send-error", "thread %d (none of its messages was refused by the server): %v", t, e)
		}
		if e == nil && tgt {
			add("refusal-not-reported", "thread %d: the server refused message %d but the call returned nil", t, w.target)
		}
	}
	committed := make([]int, total)
	for ci, c := range w.rig.Conns {
		for _, il := range c.S.Illegal {
			add("illegal/"+il.Key, "connection %d: %s (%s)", ci, il.What, il.Pos)
			break
		}
		for _, cm := range c.S.Commits {
			hit := -1
			idx := 0
			for _, ms := range w.msgs {
				for _, m := range ms {
					var b bytes.Buffer
					_, _ = m.WriteTo(&b)
					if bytes.Equal(cm.Data, b.Bytes()) || bytes.Equal(cm.Data, append(b.Bytes(), '\r', '\n')) {
						hit = idx
					}
					idx++
				}
			}
			if hit < 0 {
				add("commit-not-a-message", "connection %d committed %d bytes that are no complete message of any sender: %q…", ci, len(cm.Data), clipb(cm.Data, 60))
				continue
			}
			committed[hit]++
			wantFrom, wantR0, wantR1 := hx.Sender(hit), hx.Rcpt(hit, 0), hx.Rcpt(hit, 1)
			if w.quoted {
				wantFrom, wantR0, wantR1 = c13QLocal("m", hit, 0)+"@snd.example", c13QLocal("r", hit, 0)+"@rcp.example", c13QLocal("r", hit, 1)+"@rcp.example"
			}
			if cm.From.String() != wantFrom || len(cm.Rcpts) != 2 || cm.Rcpts[0].String() != wantR0 || cm.Rcpts[1].String() != wantR1 {
				add("foreign-envelope", "message %d was committed with envelope %s -> %v", hit, cm.From, cm.Rcpts)
			}
		}
	}
	for i, n := range committed {
		if i == w.target {
			if n != 0 {
				add("refused-message-committed", "message %d was refused by the server but committed %d times", i, n)
			}
			continue
		}
		if n != 1 {
			add(fmt.Sprintf("delivered-%d-times", n), "message %d was committed %d times", i, n)
		}
	}
	idx := 0
	for _, ms := range w.msgs {
		for _, m := range ms {
			if !m.IsDelivered() && idx != w.target {
				add("not-marked-delivered", "message %d: IsDelivered()==false", idx)
			}
			if m.IsDelivered() && idx == w.target {
				add("refused-message-marked-delivered", "message %d was refused by the server but IsDelivered()==true", idx)
			}
			idx++
		}
	}
}

func c13Exec(r *vf.Run, scn c13Scn, c *vf.Chooser) (fs []finding, steps int, trace []string) {
	add := func(key, f string, a ...interface{}) { fs = append(fs, finding{key, fmt.Sprintf(f, a...)}) }
	s := sched.New(c)
	w := c13Build(r, scn, s.IO)
	if w == nil {
		return
	}
	if scn.Senders > 0 {
		if err := w.cl.DialWithContext(context.Background()); err != nil {
			r.HarnessError("C13 dial: %v", err)
			return
		}
	}
	s.Run(w.bodies)
	steps, trace = s.Steps, s.Trace
	if s.Deadlock != "" {
		add("deadlock", "%s", s.Deadlock)
		return
	}
	if s.Timeout != "" {
		add("uncontrolled-block", "%s", s.Timeout)
		return
	}
	for _, p := range s.Panics() {
		add("panic/"+vf.PanicSite(p), "%s", firstLine(p))
	}
	if scn.Senders > 0 {
		_ = w.cl.Close()
	}
	c13Judge(w, add)
	return
}

// RacePass runs the same bodies free-running (real goroutines, jittered connection) — meant for the -race binary.
func c13RacePass(iter int) int {
	r := vf.NewRun("C13", "quick")
	r.Replaying = true
	bad := 0
	rng := rand.New(rand.NewSource(int64(iter)))
	var rmu sync.Mutex
	firstUse := iter < 0
	if firstUse {
		iter = 1
	}
	for it := 0; it < iter; it++ {
		list := []c13Scn{{"2", 2, 0, 1, "", 0, false, false, 0, 0, false, false, false}, {"8", 6, 2, 1, "", 0, false, false, 0, 0, false, false, false}, {"64", 48, 16, 1, "", 0, false, false, 0, 0, false, false, false}, {"3x2", 3, 0, 2, "", 0, false, false, 0, 0, false, false, false}, {"dial", 0, 4, 1, "", 0, false, false, 0, 0, false, false, false},
			{"dial+login", 0, 6, 1, "LOGIN", 0, false, false, 0, 0, false, false, false}, {"mixed+scram", 3, 5, 1, "SCRAM-SHA-256", 0, false, false, 0, 0, false, false, false}, {"mixed+auto", 2, 6, 1, "AUTODISCOVER", 0, false, false, 0, 0, false, false, false},
			{"mixed+debuglog", 4, 4, 1, "", 0, true, false, 0, 0, false, false, false}, {"dial+login+debuglog", 0, 6, 1, "LOGIN", 0, true, false, 0, 0, false, false, false},
			{"mixed+quoted-local-parts", 3, 6, 1, "", 0, false, true, 0, 0, false, false, false},
			{"dial+starttls", 0, 6, 1, "", 0, false, false, 1, 0, false, false, false}, {"dial+starttls(caller's config without server name)", 0, 6, 1, "", 0, false, false, 2, 0, false, false, false},
			{"mixed+starttls+login(caller's config without server name)", 2, 4, 1, "LOGIN", 0, false, false, 2, 0, false, false, false},
			{"mixed+own-connections", 2, 2, 1, "", 0, false, false, 0, 4, false, false, false}, {"own-connections+scram+starttls", 0, 0, 1, "SCRAM-SHA-256", 0, false, false, 1, 6, false, false, false},
			{"dial+fallback-port", 0, 6, 1, "", 0, false, false, 0, 2, true, false, false},
			{Name: "mixed+DSN", Senders: 2, Dialers: 4, PerCall: 2, DSN: true},
			{Name: "mixed+context-deadlines", Senders: 3, Dialers: 5, PerCall: 1, CtxDL: true}, {Name: "own-connections+context-deadlines", Senders: 1, Dialers: 2, Pool: 3, PerCall: 1, CtxDL: true}}
		if firstUse {
			// a fresh process whose very first failures happen in several goroutines at once (lazily initialised state)
			list = []c13Scn{{Name: "first failures of the process, 8 dialers, every message refused", Dialers: 8, PerCall: 1, Fault: 4}, {Name: "first failures, senders and dialers", Senders: 1, Dialers: 4, PerCall: 1, Fault: 4}}
		}
		for _, scn := range list {
			if scn.Senders+scn.Dialers+scn.Pool > 16 && it%4 != 0 {
				continue
			}
			jitter := func(string) {
				rmu.Lock()
				d := rng.Intn(40)
				rmu.Unlock()
				if d < 8 {
					time.Sleep(time.Duration(d) * time.Microsecond)
				}
			}
			w := c13Build(r, scn, jitter)
			if scn.Senders > 0 {
				if err := w.cl.DialWithContext(context.Background()); err != nil {
					fmt.Println("race pass: dial:", err)
					return 2
				}
			}
			var wg sync.WaitGroup
			for _, b := range w.bodies {
				wg.Add(1)
				b := b
				go func() { defer wg.Done(); b() }()
			}
			wg.Wait()
			if scn.Senders > 0 {
				_ = w.cl.Close()
			}
			c13Judge(w, func(key, f string, a ...interface{}) {
				bad++
				fmt.Printf("RACEPASS-FINDING %s: %s\n", key, fmt.Sprintf(f, a...))
			})
		}
	}
	fmt.Printf("race pass: %d iterations done, %d oracle findings\n", iter, bad)
	if bad > 0 {
		return 1
	}
	return 0
}

func init() {
	vf.RacePassHook = c13RacePass
	vf.Register(&vf.Check{
		ID: "C13", Title: "concurrent use of one Client is safe",
		Run: func(r *vf.Run) {
			r.SetRule("scenarios {2×Send(1 msg), 2×Send(2 msgs), 3×Send(1), 2×DialAndSend, Send+DialAndSend, 2×Send+DialAndSend, 2×DialAndSend with LOGIN / SCRAM authentication, Send+DialAndSend with auto-discovered authentication; scenarios with debug logging through the library's own logger, scenarios with DSN options on the Client, scenarios in which the dialling goroutines pass contexts with a deadline, scenarios whose envelope addresses need quoting, scenarios in which the primary port refuses and every connection comes from the fallback port of a port policy (each dial attempt is a visible operation), scenarios in which goroutines use the connection-per-caller API (DialToSMTPClientWithContext, SendWithSMTPClient, CloseWithSMTPClient) next to each other and next to Send / DialAndSend, scenarios in which every connection negotiates STARTTLS (real crypto/tls handshakes) with one caller-supplied tls.Config that does not name the server, and scenarios in which the server refuses one message (a recipient with or without a failing clean-up RSET, or DATA) of one thread while the other threads' messages must be unaffected} on one Client; ALL interleavings at visible operations (every Lock/RLock of go-mail's mutexes through the sync shim, every connection Read/Write/Close) up to the preemption bound, under a cooperative scheduler that models Go's RWMutex (a waiting writer blocks new readers); oracle per schedule: protocol monitor on every connection, commit log = every message the server did not refuse exactly once with its own envelope and complete content (a refused one never), exactly the calls without a refused message return nil, no deadlock; plus a separate free-running pass of the same bodies under the Go race detector (2..64 goroutines, jittered I/O; preceded by eight fresh processes whose very first failing deliveries overlap in 8 goroutines, for state initialised on first use) — that pass samples schedules; distinct by (scenario, schedule)")
			r.Assume("releases are not preemption points (sound for data-race-free code; races are the job of the separate -race pass)", "the race pass is sampling, not exhaustive: the 'no data race under any schedule' clause is only decided for the schedules it happens to run")
			bound := 2
			if r.Thorough {
				bound = 3
			}
			r.Extra("preemption_bound", bound)
			if !r.IsShardChild() {
				// race pass (separate binary, free-running)
				bin := filepath.Join(os.Getenv("VERIF_WORK"), "bin", "verif-race")
				iters := "30"
				if r.Thorough {
					iters = "400"
				}
				start := time.Now()
				limit := 120 * time.Second
				if r.Thorough {
					limit = 20 * time.Minute
				}
				// state that is initialised on first use is raced for only once per process: eight fresh processes whose very
				// first failures overlap (the main pass below follows)
				firstUseOut := ""
				for i := 0; i < 8 && firstUseOut == ""; i++ {
					fctx, fcancel := context.WithTimeout(context.Background(), 60*time.Second)
					fcmd := exec.CommandContext(fctx, bin, "racepass", "-1")
					fcmd.Env = append(os.Environ(), "GORACE=halt_on_error=1 exitcode=66")
					fb, _ := fcmd.CombinedOutput()
					fcancel()
					if strings.Contains(string(fb), "WARNING: DATA RACE") || strings.Contains(string(fb), "RACEPASS-FINDING") {
						firstUseOut = string(fb)
					}
				}
				ctx, cancel := context.WithTimeout(context.Background(), limit)
				cmd := exec.CommandContext(ctx, bin, "racepass", iters)
				cmd.Env = append(os.Environ(), "GORACE=halt_on_error=1 exitcode=66")
				outb, err := cmd.CombinedOutput()
				hung := ctx.Err() != nil
				cancel()
				out := string(outb)
				if firstUseOut != "" {
					out, err = firstUseOut, fmt.Errorf("first-use pass failed")
				}
				rp := map[string]interface{}{"iterations": iters, "wall_s": time.Since(start).Seconds(), "goroutines": []int{2, 8, 64}, "exhaustive": false}
				switch {
				case hung:
					rp["result"] = "hang"
					r.Violation("racepass/hang", fmt.Sprintf("the free-running pass (real goroutines calling Send/DialAndSend concurrently) did not finish within %v: deadlock or livelock", limit), map[string]string{"racepass": iters}, nil)
				case strings.Contains(out, "WARNING: DATA RACE"):
					rp["result"] = "DATA RACE"
					site := "unknown"
					for _, ln := range strings.Split(out, "\n") {
						if strings.Contains(ln, "github.com/wneessen/go-mail") && strings.Contains(ln, "()") {
							site = strings.TrimSpace(ln)
							site = strings.TrimPrefix(site, "github.com/wneessen/go-mail")
							if i := strings.Index(site, "("); i > 0 && strings.HasSuffix(site, "()") {
								site = site[:len(site)-2]
							}
							break
						}
					}
					r.Violation("data-race/"+site, "the Go race detector reports a data race in the free-running pass:\n"+clipS(out, 3000), map[string]string{"racepass": iters}, nil)
				case err != nil && strings.Contains(out, "RACEPASS-FINDING"):
					rp["result"] = "oracle finding"
					ln := out[strings.Index(out, "RACEPASS-FINDING"):]
					r.Violation("racepass/"+strings.Fields(ln)[1], "free-running pass: "+firstLine(ln), map[string]string{"racepass": iters}, nil)
				case err != nil:
					rp["result"] = "error: " + err.Error()
					r.HarnessError("race pass failed to run: %v\n%s", err, clipS(out, 2000))
				default:
					rp["result"] = "no race reported"
				}
				r.Extra("race_pass", rp)
			}
			r.ChildGOMAXPROCS = 1 // goroutine hand-offs are direct switches on one P
			if r.Fork(r.Workers) {
				for _, scn := range c13Scenarios {
					r.Reached("reached/scenario/" + scn.Name)
				}
				return
			}
			si, sn := r.ShardInfo()
			for _, scn := range c13Scenarios {
				scn := scn
				b := bound
				if scn.Senders+scn.Dialers+scn.Pool >= 3 {
					b = bound - 1 // three threads: one preemption less (quick 1, thorough 2)
				}
				vf.ExploreShard(r, b, "C13 "+scn.Name, si, sn, func(c *vf.Chooser) {
					if atomic.LoadInt32(&c13Blocked) != 0 {
						c.Silent = true
						return // a thread is stuck in uncontrolled blocking: every further schedule would wait for the watchdog again
					}
					fs, steps, trace := c13Exec(r, scn, c)
					for _, f := range fs {
						if f.key == "uncontrolled-block" {
							atomic.StoreInt32(&c13Blocked, 1)
							r.Incomplete("exploration stopped after a thread blocked outside the scheduler's control (reported as violation)")
						}
					}
					if c.Silent {
						return
					}
					r.Eval(vf.Hash(scn.Name, fmt.Sprint(c.Picks)), c.Deviations() > 0)
					r.TraceValidated()
					// states: (scenario, scheduling decision window); transitions between consecutive decisions
					prev := vf.Hash(scn.Name, "start")
					var sts, trs []uint64
					for i, d := range trace {
						if i > 400 {
							break
						}
						cur := vf.Hash(scn.Name, d, fmt.Sprint(prev%97))
						sts = append(sts, cur)
						trs = append(trs, vf.Hash(fmt.Sprint(prev), d))
						prev = cur
					}
					r.StatesBatch(sts, trs)
					r.AddExtra("scheduling_steps", int64(steps))
					if r.NSamples() < 3 && c.Deviations() == b {
						r.Sample(map[string]interface{}{"scenario": scn.Name, "preemptions_at": c.Describe(nil)})
					}
					r.Outcome("reached/scenario/" + scn.Name)
					if len(fs) == 0 {
						r.Outcome("safe")
					}
					kase := c13Case{Scn: scn, Prefix: append([]int{}, c.Picks...)}
					for _, f := range fs {
						f := f
						r.Outcome(strings.SplitN(f.key, "/", 2)[0])
						r.Violation(f.key, f.what+" — scenario "+scn.Name+", schedule deviations: "+c.Describe(nil), kase, func() string {
							xs, _, _ := c13Exec(r, scn, vf.NewChooser(kase.Prefix))
							for _, x := range xs {
								if x.key == f.key {
									return f.key
								}
							}
							return ""
						})
					}
				})
			}
		},
		Replay: func(r *vf.Run, kase json.RawMessage) {
			var k c13Case
			if err := json.Unmarshal(kase, &k); err != nil || k.Scn.Name == "" {
				fmt.Println("  (race-pass findings are replayed by running: .work/bin/verif-race racepass 400)")
				return
			}
			r.Eval(1, true)
			fs, steps, trace := c13Exec(r, k.Scn, vf.NewChooser(k.Prefix))
			fmt.Printf("  scenario %s, %d scheduling steps; last decisions: %v\n", k.Scn.Name, steps, trace[maxInt(0, len(trace)-12):])
			for _, f := range fs {
				fmt.Printf("  -> %s: %s\n", f.key, f.what)
				r.Violation(f.key, f.what, k, nil)
			}
		},
	})
}
