package checks

import (
	"fmt"

	"verif/refsmtp"
	"verif/sasl"
	"verif/vf"
)

// protoStates abstracts a transcript into protocol states (verb × reply class × 64 predecessor buckets) and
// transitions; used for the states/transitions counters of the evidence only, never for pruning.
func protoStates(r *vf.Run, tr []refsmtp.Exchange) {
	var sts, trs []uint64
	prev := vf.Hash("init")
	for _, e := range tr {
		cls := "ok"
		if e.Reply == "<drop>" {
			cls = "drop"
		} else if e.Reply == "<stall>" {
			cls = "stall"
		} else if e.Code >= 400 {
			cls = fmt.Sprintf("%dyz", e.Code/100)
		}
		cur := vf.Hash(e.Verb, cls, fmt.Sprint(prev%64))
		sts = append(sts, cur)
		trs = append(trs, vf.Hash(fmt.Sprint(prev), e.Verb, cls, fmt.Sprint(cur)))
		prev = cur
	}
	r.StatesBatch(sts, trs)
}

// posScript answers the listed positions with the given actions and everything else with the default.
func posScript(over map[string]refsmtp.Action) func(s *refsmtp.Session, ev *refsmtp.Event, def refsmtp.Action) refsmtp.Action {
	return func(s *refsmtp.Session, ev *refsmtp.Event, def refsmtp.Action) refsmtp.Action {
		if a, ok := over[ev.Pos()]; ok {
			return a
		}
		return def
	}
}

var _ = sasl.PBKDF2
