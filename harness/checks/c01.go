package checks

import (
	"bytes"
	"context"
	"encoding/json"
	"fmt"
	"io"
	"os"
	"path/filepath"
	"strings"
	"sync"
	"sync/atomic"

	"verif/mb"
	"verif/vf"
)

// C01 — rendered MIME carries exactly the content the caller supplied.

func repeatTo(s string, n int) string {
	var b strings.Builder
	for b.Len() < n {
		b.WriteString(s)
	}
	return b.String()[:n]
}

// textAlphabet: each entry is picked to hit a shortcut visible in the encoders.
func textAlphabet() [][]byte {
	l := func(s string) []byte { return []byte(s) }
	all := make([]byte, 0, 256)
	for i := 1; i < 256; i++ { // NUL excluded for text
		all = append(all, byte(i))
	}
	return [][]byte{
		l(""), l("a"), l("no trailing newline"), l("crlf text\r\nsecond line\r\n"), l("lf only\nsecond\n"),
		l("lone\rCR inside"), l("equals = and =3D and =\r\n"), l(".\r\n..\r\n.leading dots\r\n"), l("From the start\r\nFrom again\r\n"),
		l("trailing blanks   \r\ntrailing tab\t\r\n \r\n"), l("--\r\n--x\r\n--x--\r\n"), l("--boundary\r\n--boundary--\r\n"),
		l(repeatTo("x", 75) + "\r\n" + repeatTo("y", 76) + "\r\n" + repeatTo("z", 77) + "\r\n"),
		l(repeatTo("abcdefghij", 57)), l(repeatTo("abcdefghij", 58)), l(repeatTo("0123456789", 76)), l(repeatTo("0123456789", 200)),
		l("ünïcödé text ✓ 日本語\r\n"), {0xff, 0xfe, 'x', 0x80, '\r', '\n'}, all,
		l(repeatTo("word ", 300) + "\r\n"), l("\r\n"), l("\r\n\r\n\r\nblank lines first\r\n"), l("ends with space "), l("tab\there\r\n\tleading tab\r\n"),
	}
}

func binAlphabet() [][]byte {
	all := make([]byte, 256)
	for i := range all {
		all[i] = byte(i)
	}
	big := make([]byte, 3000)
	x := uint32(12345)
	for i := range big {
		x = x*1664525 + 1013904223
		big[i] = byte(x >> 24)
	}
	return [][]byte{
		{}, {0}, []byte("A"), []byte("AB"), []byte("ABC"), all, big,
		bytes.Repeat([]byte{0x0d}, 5), bytes.Repeat([]byte{0x0a}, 5), []byte("\r\n.\r\n"), []byte(repeatTo("q", 57)), []byte(repeatTo("q", 56)), []byte(repeatTo("q", 58)),
		[]byte(repeatTo("q", 114)), []byte(repeatTo("q", 115)), []byte("--=_x\r\n----\r\n"), []byte("text file\nwith lf\n"), []byte(repeatTo("=", 80)),
	}
}

type c01Case struct {
	Spec mb.Msg `json:"spec"`
	Path int    `json:"path,omitempty"` // index into c01Paths
}

var c01Paths = []string{"WriteTo", "WriteToFile(existing, longer file)", "NewReader", "Write", "WriteToTempFile", "second WriteTo of the same Msg", "WriteTo after a WriteTo into a sink that failed (at every eighth of the rendering)", "WriteToSendmailWithContext(a program that stores its input)"}

func c01Exec(r *vf.Run, spec mb.Msg, path int) []finding {
	if path == 6 {
		// history: an earlier rendering of the same Msg failed in the sink, at 1/8 .. 7/8 of the full length
		var whole bytes.Buffer
		if m0, err := mb.Build(spec, nil); err == nil {
			_, _ = vf.Guard(func() { _, _ = m0.WriteTo(&whole) })
		}
		var out []finding
		seen := map[string]bool{}
		for j := 1; j <= 7; j++ {
			for _, f := range c01ExecAt(r, spec, path, whole.Len()*j/8) {
				if !seen[f.key] {
					seen[f.key] = true
					out = append(out, f)
				}
			}
		}
		return out
	}
	return c01ExecAt(r, spec, path, 0)
}

func c01ExecAt(r *vf.Run, spec mb.Msg, path, failAt int) []finding {
	m, err := mb.Build(spec, nil)
	if err != nil {
		r.HarnessError("C01 build: %v (%s)", err, spec.Describe())
		return nil
	}
	var buf bytes.Buffer
	var werr error
	pan, pw := vf.Guard(func() {
		switch path {
		case 1:
			// documented: an existing file is overwritten
			dir := filepath.Join(os.Getenv("VERIF_WORK"), fmt.Sprintf("c01-%d", os.Getpid()))
			if os.Getenv("VERIF_WORK") == "" {
				dir = filepath.Join(os.TempDir(), fmt.Sprintf("verif-c01-%d", os.Getpid()))
			}
			_ = os.MkdirAll(dir, 0o755)
			p := filepath.Join(dir, fmt.Sprintf("out-%d.eml", atomic.AddInt64(&c01FileSeq, 1)))
			defer os.Remove(p)
			old := bytes.Repeat([]byte("X-Old-Content: this file existed before and was much longer than the message\r\n"), 6000)
			if werr = os.WriteFile(p, old, 0o644); werr != nil {
				return
			}
			if werr = m.WriteToFile(p); werr == nil {
				var b []byte
				b, werr = os.ReadFile(p)
				buf.Write(b)
			}
		case 2:
			var b []byte
			b, werr = io.ReadAll(m.NewReader())
			buf.Write(b)
		case 3:
			_, werr = m.Write(&buf)
		case 4:
			var p string
			p, werr = m.WriteToTempFile()
			if werr == nil {
				var b []byte
				b, werr = os.ReadFile(p)
				buf.Write(b)
			}
			if p != "" {
				_ = os.Remove(p)
			}
		case 5:
			if _, werr = m.WriteTo(io.Discard); werr == nil {
				_, werr = m.WriteTo(&buf)
			}
		case 6:
			_, _ = m.WriteTo(&faultSink{at: failAt})
			_, werr = m.WriteTo(&buf)
		case 7:
			prog, perr := storingProgram()
			if perr != nil {
				werr = perr
				return
			}
			outp := filepath.Join(filepath.Dir(prog), fmt.Sprintf("sendmail-%d.out", atomic.AddInt64(&c01FileSeq, 1)))
			defer os.Remove(outp)
			if werr = m.WriteToSendmailWithContext(context.Background(), prog, outp); werr == nil {
				var b []byte
				b, werr = os.ReadFile(outp)
				buf.Write(b)
			}
		default:
			_, werr = m.WriteTo(&buf)
		}
	})
	if pan {
		return []finding{{"panic/" + vf.PanicSite(pw), c01Paths[path] + " panicked: " + firstLine(pw)}}
	}
	if werr != nil {
		return []finding{{"render-error", fmt.Sprintf("%s failed: %v", c01Paths[path], werr)}}
	}
	fs := checkRendered(spec, buf.Bytes(), nil)
	if len(fs) == 0 {
		r.Outcome("reached/faithful/via=" + c01Paths[path])
		if spec.Setters > 0 {
			r.Outcome(fmt.Sprintf("reached/faithful/attributes-through-setters=%d", spec.Setters))
		}
		if spec.Donor > 0 {
			r.Outcome(fmt.Sprintf("reached/faithful/files-from-a-recycled-msg=%d", spec.Donor))
		}
		for _, f := range append(append([]mb.File{}, spec.Attach...), spec.Embeds...) {
			if f.Source != "" {
				r.Outcome("reached/faithful/file-source=" + f.Source)
			}
		}
		for _, p := range spec.Parts {
			if p.Via != "" {
				r.Outcome("reached/faithful/part-via=" + p.Via)
			}
		}
	}
	return fs
}

var c01FileSeq int64

var (
	storingProgOnce sync.Once
	storingProgPath string
	storingProgErr  error
)

// storingProgram returns the path of a stand-in for sendmail that stores its standard input in the file named by its
// last argument. It is written once per process, before the first child is started (a script that is still open for
// writing while another goroutine forks cannot be executed: ETXTBSY).
func storingProgram() (string, error) {
	storingProgOnce.Do(func() {
		dir := filepath.Join(os.Getenv("VERIF_WORK"), fmt.Sprintf("sendmail-%d", os.Getpid()))
		if os.Getenv("VERIF_WORK") == "" {
			dir = filepath.Join(os.TempDir(), fmt.Sprintf("verif-sendmail-%d", os.Getpid()))
		}
		if storingProgErr = os.MkdirAll(dir, 0o755); storingProgErr != nil {
			return
		}
		storingProgPath = filepath.Join(dir, "store.sh")
		storingProgErr = os.WriteFile(storingProgPath, []byte("#!/bin/sh\nfor a; do last=$a; done\nexec cat > \"$last\"\n"), 0o755)
	})
	return storingProgPath, storingProgErr
}

var c01FileNames = []string{"a.bin", "pic.png", "notes.txt", "with space.dat", "ünï.bin", "noext"}

func c01Specs(thorough bool) []mb.Msg {
	texts, bins := textAlphabet(), binAlphabet()
	var specs []mb.Msg
	encs := []string{"qp", "b64", "8bit"}
	fencs := []string{"", "8bit", "qp"}
	ptypes := []string{"text/plain", "text/html", "text/plain"}
	rot := 0
	for np := 0; np <= 3; np++ {
		for ne := 0; ne <= 2; ne++ {
			for na := 0; na <= 2; na++ {
				for _, menc := range encs {
					for _, fenc := range fencs {
						if ne+na == 0 && fenc != "" {
							continue
						}
						reps := 8
						if thorough {
							reps = len(texts)
						}
						for rep := 0; rep < reps; rep++ {
							rot++
							s := mb.Msg{Enc: menc}
							for i := 0; i < np; i++ {
								p := mb.Part{Type: ptypes[i], Content: texts[(rot+i*7)%len(texts)]}
								// per-part encoding differs from the message encoding on every other rotation
								if (rot+i)%2 == 1 {
									p.Enc = encs[(rot+i)%3]
								}
								if (rot+i)%5 == 0 {
									p.Desc = "part description"
								}
								s.Parts = append(s.Parts, p)
							}
							// every other rotation mixes the file encodings inside one list (state must not leak from one
							// file to the next); otherwise all files share fenc
							fencOf := func(i int) string {
								if rot%2 == 1 {
									return fencs[(rot/2+i)%3]
								}
								return fenc
							}
							for i := 0; i < ne; i++ {
								fenc := fencOf(i)
								f := mb.File{Name: c01FileNames[(rot+i)%len(c01FileNames)], Content: bins[(rot+i*5)%len(bins)], Enc: fenc}
								if fenc == "qp" {
									f.Content = texts[(rot+i*3)%len(texts)] // QP is a text encoding
								}
								if (rot+i)%4 == 0 {
									f.Desc = "embed description"
								}
								s.Embeds = append(s.Embeds, f)
							}
							for i := 0; i < na; i++ {
								fenc := fencOf(i + 1)
								f := mb.File{Name: c01FileNames[(rot+i+3)%len(c01FileNames)], Content: bins[(rot+i*5+2)%len(bins)], Enc: fenc}
								if fenc == "qp" {
									f.Content = texts[(rot+i*3+1)%len(texts)]
								}
								if (rot+i)%3 == 0 {
									f.CT = "application/x-custom"
								}
								s.Attach = append(s.Attach, f)
							}
							if rot%6 == 0 && np+ne+na > 1 {
								s.Boundary = "fixed-boundary-by-caller-0001"
							}
							specs = append(specs, s)
						}
					}
				}
			}
		}
	}
	// every single byte value as content of a single part / single attachment in every encoding
	for b := 0; b < 256; b++ {
		for _, menc := range encs {
			if b != 0 {
				specs = append(specs, mb.Msg{Enc: menc, Parts: []mb.Part{{Type: "text/plain", Content: []byte{'x', byte(b), 'y'}}}})
			}
			if thorough || b%4 == 0 {
				specs = append(specs, mb.Msg{Enc: menc, Parts: []mb.Part{{Type: "text/plain", Content: []byte("body\r\n")}}, Attach: []mb.File{{Name: "b.bin", Content: []byte{byte(b)}, Enc: map[string]string{"qp": "", "b64": "b64", "8bit": "8bit"}[menc]}}})
			}
		}
	}
	// every ordered pair (and triple) of file encodings within one list, the later files carrying content that only
	// survives in its own encoding (boundary-like lines, bare LF, all byte values)
	hostile := [][]byte{bins[5], []byte("--x\n--x--\nbare\nLF"), bins[6]}
	for _, kind := range []string{"attach", "embed"} {
		for _, e1 := range fencs {
			for _, e2 := range fencs {
				for _, e3 := range []string{"-", "", "8bit"} {
					for hi, h := range hostile {
						var fs []mb.File
						c1 := texts[3]
						fs = append(fs, mb.File{Name: "first.txt", Content: c1, Enc: e1})
						c2 := h
						if e2 == "qp" {
							c2 = texts[(hi+4)%len(texts)]
						}
						if e2 == "8bit" {
							c2 = []byte("plain 8bit text\r\nsecond line\r\n")
						}
						fs = append(fs, mb.File{Name: "second.bin", Content: c2, Enc: e2})
						if e3 != "-" {
							c3 := h
							if e3 == "8bit" {
								c3 = []byte("third as 8bit\r\n")
							}
							fs = append(fs, mb.File{Name: "third.bin", Content: c3, Enc: e3})
						}
						s := mb.Msg{Parts: []mb.Part{{Type: "text/plain", Content: texts[3]}}}
						if kind == "attach" {
							s.Attach = fs
						} else {
							s.Embeds = fs
						}
						specs = append(specs, s)
					}
				}
			}
		}
	}
	// API variants and builder histories: string-based setters, deleted parts, files removed and added again,
	// two files with the same name, large contents (beyond every internal buffer size)
	bigText := []byte(repeatTo("A fairly long line of text that is repeated until the content is larger than any buffer. =\r\n", 70000))
	bigBin := make([]byte, 150000)
	{
		x := uint32(99)
		for i := range bigBin {
			x = x*1664525 + 1013904223
			bigBin[i] = byte(x >> 24)
		}
	}
	for _, menc := range encs {
		for ti := range texts {
			specs = append(specs,
				mb.Msg{Enc: menc, Parts: []mb.Part{{Type: "text/plain", Content: texts[ti], Via: "string"}}},
				mb.Msg{Enc: menc, Parts: []mb.Part{{Type: "text/plain", Content: texts[ti], Via: "string"}, {Type: "text/html", Content: texts[(ti+3)%len(texts)], Via: "string", Enc: encs[ti%3]}}},
				mb.Msg{Enc: menc, Parts: []mb.Part{{Type: "text/plain", Content: texts[ti]}, {Type: "text/html", Content: texts[(ti+1)%len(texts)], Deleted: true}}, Attach: []mb.File{{Name: "a.bin", Content: bins[ti%len(bins)]}}},
				mb.Msg{Enc: menc, Parts: []mb.Part{{Type: "text/plain", Content: texts[ti], Deleted: true}, {Type: "text/html", Content: texts[(ti+1)%len(texts)]}, {Type: "text/plain", Content: texts[(ti+2)%len(texts)]}}},
				mb.Msg{Enc: menc, Parts: []mb.Part{{Type: "text/plain", Content: texts[ti]}}, Embeds: []mb.File{{Name: "same.bin", Content: bins[ti%len(bins)]}, {Name: "same.bin", Content: bins[(ti+1)%len(bins)]}}, Attach: []mb.File{{Name: "same.bin", Content: bins[(ti+2)%len(bins)]}}, ReAdd: ti%2 == 0},
			)
		}
		specs = append(specs,
			mb.Msg{Enc: menc, Parts: []mb.Part{{Type: "text/plain", Content: bigText}}},
			mb.Msg{Enc: menc, Parts: []mb.Part{{Type: "text/plain", Content: bigText, Via: "string"}, {Type: "text/html", Content: bigText, Enc: "b64"}}, Attach: []mb.File{{Name: "big.bin", Content: bigBin}, {Name: "big.txt", Content: bigText, Enc: "8bit"}}, Embeds: []mb.File{{Name: "big.png", Content: bigBin[:70001]}}},
		)
	}
	// file sources: every file API that consumes caller-owned memory at the call (AttachReader / EmbedReader on a
	// reader over memory the caller recycles afterwards, on one scratch buffer the caller refills per file) and the
	// lazy read-seeker, × file encoding × 1..2 embeds × 1..2 attachments
	// messages that are rendered while still incomplete and completed afterwards (with and without a caller-fixed boundary)
	for _, bd := range []string{"", "caller-fixed-boundary-grow"} {
		for np := 1; np <= 2; np++ {
			for ne := 0; ne <= 1; ne++ {
				for na := 0; na <= 1; na++ {
					if ne+na == 0 {
						continue
					}
					for g := 1; g <= 2; g++ {
						s := mb.Msg{Boundary: bd, Grow: g, Parts: []mb.Part{{Type: "text/plain", Content: texts[3]}}}
						if np == 2 {
							s.Parts = append(s.Parts, mb.Part{Type: "text/html", Content: texts[5]})
						}
						if ne == 1 {
							s.Embeds = []mb.File{{Name: "e.png", Content: bins[2]}}
						}
						if na == 1 {
							s.Attach = []mb.File{{Name: "a.bin", Content: bins[3]}}
						}
						specs = append(specs, s)
					}
				}
			}
		}
	}
	// parts whose content is replaced through Part.SetContent (what the EML parser does, too)
	for ti := range texts {
		for _, menc := range encs {
			specs = append(specs,
				mb.Msg{Enc: menc, Parts: []mb.Part{{Type: "text/plain", Content: texts[ti], Via: "setcontent"}}},
				mb.Msg{Enc: menc, Parts: []mb.Part{{Type: "text/plain", Content: texts[ti], Via: "setcontent"}, {Type: "text/html", Content: texts[(ti+2)%len(texts)], Via: "setcontent", Enc: encs[ti%3]}}, Attach: []mb.File{{Name: "a.bin", Content: bins[ti%len(bins)]}}},
			)
		}
	}
	// bodies and files produced from templates (the content is the template's data)
	for ti := range texts {
		if bytes.ContainsAny(texts[ti], "\x00") {
			continue
		}
		for _, menc := range []string{"qp", "b64"} {
			specs = append(specs,
				mb.Msg{Enc: menc, Parts: []mb.Part{{Type: "text/plain", Content: texts[ti], Via: "tpl"}}},
				mb.Msg{Enc: menc, Parts: []mb.Part{{Type: "text/plain", Content: texts[ti], Via: "tpl"}, {Type: "text/html", Content: texts[(ti+2)%len(texts)], Via: "tpl"}},
					Attach: []mb.File{{Name: "t.txt", Content: texts[(ti+1)%len(texts)], Source: "ttpl"}, {Name: "h.html", Content: texts[(ti+3)%len(texts)], Source: "htpl", Enc: "8bit"}},
					Embeds: []mb.File{{Name: "e.txt", Content: texts[(ti+4)%len(texts)], Source: "htpl"}, {Name: "e2.txt", Content: texts[(ti+5)%len(texts)], Source: "ttpl"}}},
			)
		}
	}
	for _, src := range []string{"reader", "readseeker", "buffer", "reader@", "readseeker@", "readseeker+"} {
		for _, fe := range []string{"", "8bit"} { // (QP for files exists only as a field of hand-made File structs)
			for ne := 0; ne <= 2; ne++ {
				for na := 0; na <= 2; na++ {
					if ne+na == 0 {
						continue
					}
					s := mb.Msg{Parts: []mb.Part{{Type: "text/plain", Content: texts[3]}}}
					for i := 0; i < ne; i++ {
						c := bins[(i+ne+na)%len(bins)]
						if fe == "qp" || fe == "8bit" {
							c = texts[(i+ne+2*na)%len(texts)]
						}
						s.Embeds = append(s.Embeds, mb.File{Name: fmt.Sprintf("e%d.png", i), Content: c, Enc: fe, Source: src})
					}
					for i := 0; i < na; i++ {
						c := bins[(i+2*ne+na+1)%len(bins)]
						if fe == "qp" || fe == "8bit" {
							c = texts[(i+ne+na+5)%len(texts)]
						}
						s.Attach = append(s.Attach, mb.File{Name: fmt.Sprintf("a%d.bin", i), Content: c, Enc: fe, Source: src})
					}
					specs = append(specs, s)
				}
			}
		}
	}
	// body parts with a charset of their own (a label only: go-mail does not transcode) next to files with non-ASCII
	// names: the part's charset belongs to that part and to nothing else
	for _, cs := range []string{"ISO-8859-1", "US-ASCII", "UTF-16"} {
		for which := 1; which < 4; which++ { // bit 0: first part, bit 1: second (= last) part
			for _, fe := range []string{"", "8bit"} {
				s := mb.Msg{Parts: []mb.Part{{Type: "text/plain", Content: texts[0]}, {Type: "text/html", Content: texts[1]}},
					Embeds: []mb.File{{Name: "Löwe.png", Content: bins[4], Enc: fe}}, Attach: []mb.File{{Name: "Grüße – Übersicht.txt", Content: texts[2], Enc: fe}, {Name: "plain.bin", Content: bins[5]}}}
				if which&1 != 0 {
					s.Parts[0].Charset = cs
				}
				if which&2 != 0 {
					s.Parts[1].Charset = cs
				}
				specs = append(specs, s)
				single := mb.Msg{Parts: []mb.Part{{Type: "text/plain", Content: texts[0], Charset: cs}}, Attach: []mb.File{{Name: "ünï.bin", Content: bins[3], Enc: fe}}}
				specs = append(specs, single)
			}
		}
	}
	// PGP/MIME: go-mail provides the multipart/encrypted or multipart/signed around the caller's parts
	for pgp := 1; pgp <= 2; pgp++ {
		specs = append(specs, mb.Msg{PGP: pgp, Parts: []mb.Part{{Type: "application/pgp-encrypted", Content: []byte("Version: 1\r\n"), Enc: "usascii"}, {Type: "application/octet-stream", Content: texts[0], Enc: "usascii"}}})
	}
	// 7bit (EncodingUSASCII): ASCII content must come out unencoded
	ascii := [][]byte{[]byte("plain ascii\r\nwith a=b and =3D literal\r\n"), []byte(repeatTo("a long ascii line without any break ", 300) + "\r\n"), []byte(".dot\r\ntrailing blank \r\n"), []byte("x")}
	for ai, a := range ascii {
		specs = append(specs,
			mb.Msg{Enc: "usascii", Parts: []mb.Part{{Type: "text/plain", Content: a}}},
			mb.Msg{Enc: "usascii", Parts: []mb.Part{{Type: "text/plain", Content: a}, {Type: "text/html", Content: ascii[(ai+1)%len(ascii)]}}, Attach: []mb.File{{Name: "a.bin", Content: bins[5]}}},
			mb.Msg{Enc: "qp", Parts: []mb.Part{{Type: "text/plain", Content: texts[ai], Enc: "b64"}, {Type: "text/html", Content: a, Enc: "usascii"}}, Embeds: []mb.File{{Name: "e.png", Content: bins[6]}}},
		)
	}
	// all content strings in every leaf position of the full three-level shape
	for i := range texts {
		for j := range bins {
			if !thorough && (i+j)%4 != 0 {
				continue
			}
			specs = append(specs, mb.Msg{Parts: []mb.Part{{Type: "text/plain", Content: texts[i]}, {Type: "text/html", Content: texts[(i+1)%len(texts)], Enc: "b64"}},
				Embeds: []mb.File{{Name: "e.png", Content: bins[j]}}, Attach: []mb.File{{Name: "a.bin", Content: bins[(j+1)%len(bins)]}, {Name: "t.txt", Content: texts[i], Enc: "8bit"}}})
		}
	}
	// the same programs with their a body set on a message that already had one (replaced); files taken over from another Msg (SetEmbeds(other.GetEmbeds()) …) that is Reset, refilled and rendered afterwards; attributes given through setters instead of options: message-level setters right
	// after NewMsg (1), everything set after the message has been assembled (2) — every 5th program (thorough: all)
	n := len(specs)
	for i := 0; i < n; i++ {
		if !thorough && i%5 != 0 {
			continue
		}
		sp := specs[i]
		if sp.Recycle != 0 || sp.Grow != 0 || len(sp.Parts) == 0 {
			continue
		}
		deleted := false
		for _, p := range sp.Parts {
			deleted = deleted || p.Deleted || p.Via == "setcontent"
		}
		if deleted {
			continue
		}
		for st := 1; st <= 2; st++ {
			c := sp
			c.Setters = st
			specs = append(specs, c)
		}
	}
	// the same programs on a message that already had a body when the body was set (SetBody* replaces it)
	for i := 0; i < n; i++ {
		sp := specs[i]
		if sp.Recycle != 0 || sp.Grow != 0 || len(sp.Parts) == 0 || sp.Parts[0].Via == "setcontent" || (!thorough && i%4 != 0) {
			continue
		}
		c := sp
		c.ReBody = true
		specs = append(specs, c)
	}
	// the same programs with their files taken over from another Msg that is recycled afterwards
	for i := 0; i < n; i++ {
		sp := specs[i]
		if sp.Recycle != 0 || sp.Grow != 0 || sp.ReAdd || len(sp.Embeds)+len(sp.Attach) == 0 || (!thorough && i%3 != 0) {
			continue
		}
		for d := 1; d <= 2; d++ {
			c := sp
			c.Donor = d
			specs = append(specs, c)
		}
	}
	return specs
}

func init() {
	vf.Register(&vf.Check{
		ID: "C01", Title: "rendered MIME carries exactly the content the caller supplied",
		Run: func(r *vf.Run) {
			r.SetRule("builder programs in canonical order: 0..3 body parts × 0..2 embeds × 0..2 attachments × message encoding {QP, base64, 8bit} × file encoding {default base64, 8bit, QP via File.Enc} × per-part encodings/descriptions/content types/charsets/fixed boundary, contents rotated through a 25-entry text alphabet and an 18-entry binary alphabet (wrap points 57/58/75/76/77, dots, '=', boundary-like lines, bare CR/LF, all 256 byte values, 3000-byte binary); plus every single byte value in every encoding; plus files supplied through AttachReader/EmbedReader (memory recycled by the caller afterwards; one scratch buffer refilled per file) and Attach/EmbedReadSeeker, both also on a source that stands behind a header the caller has consumed already; bodies and files produced from text/html templates; part contents replaced through Part.SetContent; a body set on a message that already had one (replaced); files taken over from another Msg (SetEmbeds(other.GetEmbeds()) …) that is Reset, refilled and rendered afterwards; attributes given through setters instead of options (Msg.SetEncoding / SetCharset / SetBoundary after NewMsg, or everything — incl. Part.SetContentType / SetEncoding / SetCharset / SetDescription — after the message was assembled); messages rendered while still incomplete and completed afterwards; each program is rendered through WriteTo, WriteToFile onto an existing longer file, NewReader, Write, WriteToTempFile, a second WriteTo of the same Msg, a WriteTo that follows one into a sink failing at 1/8..7/8 of the rendering, and WriteToSendmailWithContext into a program that stores its input; each rendering is re-read by the harness' own MIME reader and compared leaf by leaf; distinct by program")
			r.Assume("file media types without WithFileContentType are those of mime.TypeByExtension", "the charset of a text part is a label: the harness compares bytes, not characters", "NUL bytes are not text")
			specs := c01Specs(r.Thorough)
			r.Extra("programs", len(specs))
			r.Parallel(len(specs), "C01 programs", func(i int) {
				spec := specs[i]
				fs := c01Exec(r, spec, 0)
				b, _ := json.Marshal(spec)
				// the other output paths: only what differs from the WriteTo verdict is reported, per path
				big := false
				for _, f := range append(append([]mb.File{}, spec.Attach...), spec.Embeds...) {
					big = big || len(f.Content) > 20000
				}
				for path := 1; path < len(c01Paths) && !big; path++ {
					path := path
					have := map[string]bool{}
					for _, f := range fs {
						have[f.key] = true
					}
					r.Eval(vf.Hash(string(b), c01Paths[path]), true)
					r.TraceValidated()
					for _, f := range c01Exec(r, spec, path) {
						if have[f.key] {
							continue
						}
						f := f
						key := f.key + "/only-via=" + strings.SplitN(c01Paths[path], "(", 2)[0]
						r.Violation(key, f.what+" — output path "+c01Paths[path]+" — program: "+spec.Describe(), c01Case{spec, path}, func() string {
							for _, x := range c01Exec(r, spec, path) {
								if x.key == f.key {
									return key
								}
							}
							return ""
						})
					}
				}
				r.Eval(vf.Hash(string(b)), len(spec.Parts)+len(spec.Embeds)+len(spec.Attach) > 0)
				_, shape := expectedLeaves(spec)
				from := vf.Hash("shape", shapeClass(shape), spec.Enc)
				r.Transition(from, string(b), vf.Hash("rendered", shapeClass(shape), spec.Enc, fmt.Sprint(len(fs) == 0)))
				r.TraceValidated()
				if i%1499 == 0 {
					r.Sample(map[string]interface{}{"program": spec.Describe()})
				}
				if len(fs) == 0 {
					r.Outcome("faithful")
				}
				for _, f := range fs {
					f := f
					r.Outcome(strings.SplitN(f.key, "/", 2)[0])
					r.Violation(f.key, f.what+" — program: "+spec.Describe(), c01Case{spec, 0}, func() string {
						for _, x := range c01Exec(r, spec, 0) {
							if x.key == f.key {
								return f.key
							}
						}
						return ""
					})
				}
			})
			if storingProgPath != "" {
				_ = os.RemoveAll(filepath.Dir(storingProgPath))
			}
			for _, n := range c01Paths {
				r.Reached("reached/faithful/via=" + n)
			}
			r.Reached("reached/faithful/file-source=reader", "reached/faithful/file-source=readseeker+", "reached/faithful/file-source=readseeker", "reached/faithful/files-from-a-recycled-msg=1", "reached/faithful/files-from-a-recycled-msg=2", "reached/faithful/attributes-through-setters=1", "reached/faithful/attributes-through-setters=2", "reached/faithful/file-source=buffer", "reached/faithful/file-source=reader@", "reached/faithful/file-source=readseeker@", "reached/faithful/file-source=ttpl", "reached/faithful/file-source=htpl",
				"reached/faithful/part-via=string", "reached/faithful/part-via=tpl", "reached/faithful/part-via=setcontent")
		},
		Replay: func(r *vf.Run, kase json.RawMessage) {
			var k c01Case
			if err := json.Unmarshal(kase, &k); err != nil {
				r.HarnessError("bad case: %v", err)
				return
			}
			r.Eval(1, true)
			fmt.Printf("  program: %s\n", k.Spec.Describe())
			for _, f := range c01Exec(r, k.Spec, k.Path) {
				if k.Path > 0 {
					f.key += "/only-via=" + strings.SplitN(c01Paths[k.Path], "(", 2)[0]
				}
				fmt.Printf("  -> %s: %s\n", f.key, f.what)
				r.Violation(f.key, f.what, k, nil)
			}
		},
	})
}
