package checks

import (
	"bytes"
	"encoding/json"
	"fmt"
	"os"
	"strings"
	"verif/mapseam"

	mail "github.com/wneessen/go-mail"

	"verif/mb"
	"verif/mimeread"
	"verif/vf"
)

// C10 — render → parse → render preserves the message.

type c10Case struct {
	Spec     mb.Msg `json:"spec"`
	FromName string `json:"from_name"`
	ToName   string `json:"to_name"`
	// Rcpt: recipient lists of different lengths: 1 = three more To addresses and one Cc, 2 = one more To and three Cc,
	// 3 = three of each; KS: map-iteration start while the rendering is parsed (the parser walks the address headers of a map)
	Rcpt int `json:"rcpt,omitempty"`
	KS   int `json:"ks,omitempty"`
	// Entry: the parser's entry point: 0 EMLToMsgFromReader, 1 EMLToMsgFromString, 2 EMLToMsgFromFile
	Entry int `json:"entry,omitempty"`
}

var c10Extra = []string{"Zoë Ångström <zoe@rcp.example>", "Plain Name <plain@rcp.example>", "third@rcp.example", "\"Last, First\" <lf@rcp.example>"}
var c10ExtraNA = [][2]string{{"Zoë Ångström", "zoe@rcp.example"}, {"Plain Name", "plain@rcp.example"}, {"", "third@rcp.example"}, {"Last, First", "lf@rcp.example"}}

var c10Singletons = []string{"content-type", "content-transfer-encoding", "mime-version", "subject", "date", "message-id", "from", "to", "cc", "reply-to", "content-disposition", "content-id"}

func c10ClassOfName(n string) string {
	switch {
	case strings.ContainsAny(n, ";"):
		return "semicolon"
	case strings.ContainsAny(n, "="):
		return "equals"
	case strings.ContainsAny(n, " "):
		return "blank"
	case strings.IndexFunc(n, func(r rune) bool { return r > 127 }) >= 0:
		return "non-ascii"
	case strings.ContainsAny(n, ","):
		return "comma"
	case len(n) > 60:
		return "long"
	}
	return "plain"
}

func c10Exec(r *vf.Run, k c10Case) []finding {
	var out []finding
	add := func(key, f string, a ...interface{}) { out = append(out, finding{key, fmt.Sprintf(f, a...)}) }
	spec := k.Spec
	m, err := mb.Build(spec, nil)
	if err != nil {
		r.HarnessError("C10 build: %v", err)
		return nil
	}
	if k.FromName != "" {
		if err := m.FromFormat(k.FromName, "sender@snd.example"); err != nil {
			r.Outcome("skipped/setter-refused")
			return nil // setter refused: nothing to round-trip
		}
	}
	if k.ToName != "" {
		if err := m.AddToFormat(k.ToName, "named@rcp.example"); err != nil {
			return nil
		}
	}
	nTo, nCc := 0, 0
	switch k.Rcpt {
	case 1:
		nTo, nCc = 3, 1
	case 2:
		nTo, nCc = 1, 3
	case 3:
		nTo, nCc = 3, 3
	}
	for i := 0; i < nTo; i++ {
		_ = m.AddTo(c10Extra[i])
	}
	for i := 0; i < nCc; i++ {
		_ = m.AddCc(c10Extra[3-i])
	}
	var r1 bytes.Buffer
	if _, err := m.WriteTo(&r1); err != nil {
		r.HarnessError("C10 render: %v", err)
		return nil
	}
	// precondition (C01): the first rendering is faithful
	for _, f := range checkRendered(spec, r1.Bytes(), nil) {
		if strings.HasPrefix(f.key, "content/qp-bare-CR") {
			continue
		}
		r.Outcome("skipped/first-rendering-unfaithful/" + strings.SplitN(f.key, "/", 2)[0])
		return nil // C01's business; C10 quantifies over messages whose rendering is right
	}
	var parsed *mail.Msg
	var perr error
	pan, pw := vf.Guard(func() {
		mapseam.With(k.KS, func() {
			switch k.Entry {
			case 1:
				parsed, perr = mail.EMLToMsgFromString(r1.String())
			case 2:
				f, ferr := os.CreateTemp(os.Getenv("VERIF_WORK"), "c10-*.eml")
				if ferr != nil {
					perr = ferr
					return
				}
				defer os.Remove(f.Name())
				_, _ = f.Write(r1.Bytes())
				_ = f.Close()
				parsed, perr = mail.EMLToMsgFromFile(f.Name())
			default:
				parsed, perr = mail.EMLToMsgFromReader(bytes.NewReader(r1.Bytes()))
			}
		})
	})
	if pan {
		return []finding{{"panic/" + vf.PanicSite(pw), firstLine(pw)}}
	}
	leaves, shape := expectedLeaves(spec)
	scls := shapeClass(shape)
	if perr != nil {
		add("parse-error/"+scls, "parsing the rendering failed: %v — %s", perr, spec.Describe())
		return out
	}
	// --- P: the parsed Msg must equal the model ---
	wantSubj := "harness message"
	if spec.Subject != nil {
		wantSubj = *spec.Subject
	}
	if g := parsed.GetGenHeader(mail.HeaderSubject); len(g) != 1 {
		add("parsed/subject-count", "parsed Msg has %d Subject values", len(g))
	} else if d, derr := mimeread.DecodeWords(g[0]); derr != nil || normWS(d) != normWS(wantSubj) {
		add("parsed/subject/"+valueClass([]byte(wantSubj)), "parsed subject %q (decoded %q), want %q", g[0], d, wantSubj)
	}
	wantFromName := k.FromName
	if f := parsed.GetFrom(); len(f) != 1 || f[0].Address != "sender@snd.example" || f[0].Name != wantFromName {
		add("parsed/from/"+c10ClassOfName(wantFromName), "parsed From %v, want %q <sender@snd.example>", f, wantFromName)
	}
	wantTo := []string{"rcpt@rcp.example"}
	wantToNames := []string{""}
	if k.ToName != "" {
		wantTo = append(wantTo, "named@rcp.example")
		wantToNames = append(wantToNames, k.ToName)
	}
	for i := 0; i < nTo; i++ {
		wantTo = append(wantTo, c10ExtraNA[i][1])
		wantToNames = append(wantToNames, c10ExtraNA[i][0])
	}
	if k.Rcpt > 0 {
		var wantCc [][2]string
		for i := 0; i < nCc; i++ {
			wantCc = append(wantCc, c10ExtraNA[3-i])
		}
		cc := parsed.GetCc()
		ok := len(cc) == len(wantCc)
		for i := 0; ok && i < len(cc); i++ {
			ok = cc[i].Address == wantCc[i][1] && cc[i].Name == wantCc[i][0]
		}
		if !ok {
			add(fmt.Sprintf("parsed/cc/lists=%d", k.Rcpt), "parsed Cc %v, want %v", cc, wantCc)
		} else {
			r.Outcome(fmt.Sprintf("reached/recipient-lists=%d", k.Rcpt))
		}
	}
	if t := parsed.GetTo(); len(t) != len(wantTo) {
		add("parsed/to-count", "parsed To has %d addresses, want %d", len(t), len(wantTo))
	} else {
		for i := range t {
			if t[i].Address != wantTo[i] || t[i].Name != wantToNames[i] {
				add("parsed/to/"+c10ClassOfName(wantToNames[i]), "parsed To[%d] = %q <%s>, want %q <%s>", i, t[i].Name, t[i].Address, wantToNames[i], wantTo[i])
			}
		}
	}
	if d := parsed.GetGenHeader(mail.HeaderDate); len(d) != 1 || d[0] != "Tue, 02 Jan 2024 03:04:05 +0000" {
		add("parsed/date", "parsed Date %v", d)
	}
	// parts
	var wantParts []leafExp
	var wantFiles []leafExp
	for _, l := range leaves {
		if l.kind == "part" {
			wantParts = append(wantParts, l)
		} else {
			wantFiles = append(wantFiles, l)
		}
	}
	gotParts := parsed.GetParts()
	if len(gotParts) != len(wantParts) {
		var ts []string
		for _, p := range gotParts {
			ts = append(ts, string(p.GetContentType()))
		}
		add(fmt.Sprintf("parsed/part-count/want=%d/got=%d/%s", len(wantParts), len(gotParts), scls), "parsed Msg has %d body parts %v, the message was built with %d — %s", len(gotParts), ts, len(wantParts), spec.Describe())
	} else {
		for i, p := range gotParts {
			w := wantParts[i]
			if string(p.GetContentType()) != w.mtype {
				add("parsed/part-type", "part %d parsed as %q, want %q", i, p.GetContentType(), w.mtype)
			}
			if !strings.EqualFold(p.GetCharset().String(), "UTF-8") {
				add("parsed/part-charset", "part %d parsed with charset %q, want UTF-8", i, p.GetCharset())
			}
			c, cerr := p.GetContent()
			if cerr != nil {
				add("parsed/part-content-error", "part %d: %v", i, cerr)
			} else if !bytes.Equal(c, w.content) && !(w.enc == "qp" && bytes.Equal(canonLF(c), canonLF(w.content))) {
				add(fmt.Sprintf("parsed/part-content/enc=%s/%s", w.enc, scls), "part %d (%s, %s): parsed content %q…, want %q… — %s", i, w.mtype, w.enc, clipb(c, 40), clipb(w.content, 40), spec.Describe())
			}
		}
	}
	var gotFiles []struct {
		kind string
		f    *mail.File
	}
	for _, f := range parsed.GetEmbeds() {
		gotFiles = append(gotFiles, struct {
			kind string
			f    *mail.File
		}{"embed", f})
	}
	for _, f := range parsed.GetAttachments() {
		gotFiles = append(gotFiles, struct {
			kind string
			f    *mail.File
		}{"attach", f})
	}
	if len(gotFiles) != len(wantFiles) {
		add(fmt.Sprintf("parsed/file-count/want=%d/got=%d", len(wantFiles), len(gotFiles)), "parsed Msg has %d files, want %d", len(gotFiles), len(wantFiles))
	} else {
		for i, g := range gotFiles {
			w := wantFiles[i]
			if g.kind != w.kind {
				add("parsed/file-kind", "file %d parsed as %s, want %s", i, g.kind, w.kind)
			}
			if g.f.Name != sanitizeName(w.name) {
				add("parsed/file-name/"+c10ClassOfName(w.name), "file %d parsed with name %q, want %q", i, g.f.Name, sanitizeName(w.name))
			}
			var fb bytes.Buffer
			if _, err := g.f.Writer(&fb); err != nil {
				add("parsed/file-content-error", "file %d: %v", i, err)
			} else if !bytes.Equal(fb.Bytes(), w.content) && !(w.enc == "qp" && bytes.Equal(canonLF(fb.Bytes()), canonLF(w.content))) {
				add("parsed/file-content/enc="+w.enc, "file %d (%s): parsed content %q…, want %q…", i, w.enc, clipb(fb.Bytes(), 40), clipb(w.content, 40))
			}
		}
	}
	// --- R2: re-rendering the parsed Msg ---
	var r2 bytes.Buffer
	var werr error
	pan, pw = vf.Guard(func() { _, werr = parsed.WriteTo(&r2) })
	if pan {
		add("rerender/panic/"+vf.PanicSite(pw), "%s", firstLine(pw))
		return out
	}
	if werr != nil {
		add("rerender/error", "re-rendering the parsed Msg failed: %v", werr)
		return out
	}
	e2 := mimeread.Parse(r2.Bytes())
	for _, p := range e2.AllProblems() {
		cls := p
		if i := strings.IndexAny(cls, "\"%0123456789"); i > 0 {
			cls = strings.TrimSpace(cls[:i])
		}
		add("rerender/malformed/"+strings.ReplaceAll(cls, " ", "-")+"/"+scls, "re-rendered message: %s", p)
	}
	var walk func(e *mimeread.Entity, path string)
	walk = func(e *mimeread.Entity, path string) {
		for _, s := range c10Singletons {
			if v := e.Get(s); len(v) > 1 {
				add(fmt.Sprintf("rerender/duplicate-field/%s/%s", s, scls), "re-rendered %s has %d %s fields: %q", path, len(v), s, v)
			}
		}
		for i, c := range e.Children {
			walk(c, fmt.Sprintf("%s.%d", path, i+1))
		}
	}
	walk(e2, "message")
	// same content through the independent reader; the parser may legitimately pick other transfer encodings
	gl := e2.Leaves()
	if len(gl) != len(leaves) {
		add(fmt.Sprintf("rerender/leaf-count/want=%d/got=%d/%s", len(leaves), len(gl), scls), "re-rendered message has %d leaves (%s), the original %d (%s)", len(gl), e2.Shape(), len(leaves), shape)
	} else {
		// the media type of a file is not among the attributes the property lists (name, bytes, kind): where the
		// builder overrode it, only the nesting and the body parts' types are compared
		ctOverride := false
		for _, f := range append(append([]mb.File{}, spec.Attach...), spec.Embeds...) {
			if f.CT != "" {
				ctOverride = true
			}
		}
		if e2.Shape() != shape && !(ctOverride && shapeClass(e2.Shape()) == shapeClass(shape)) {
			add("rerender/nesting/"+scls, "re-rendered nesting %s, original %s", e2.Shape(), shape)
		}
		for i, w := range leaves {
			g := gl[i]
			if g.MediaType != w.mtype && w.kind == "part" {
				add("rerender/media-type/"+w.kind, "leaf %d: %s, want %s", i, g.MediaType, w.mtype)
			}
			dec, derr := g.DecodeBody()
			if derr != nil {
				add("rerender/undecodable/"+w.kind, "leaf %d: %v", i, derr)
				continue
			}
			if !bytes.Equal(dec, w.content) && !bytes.Equal(canonLF(dec), canonLF(w.content)) {
				add(fmt.Sprintf("rerender/content/%s/orig-enc=%s/now=%s", w.kind, w.enc, g.CTE), "leaf %d: re-rendered content %q…, original %q… — %s", i, clipb(dec, 40), clipb(w.content, 40), spec.Describe())
			}
			if w.kind != "part" {
				_, dp, _ := mimeread.ParseParamHeader(g.First("Content-Disposition"))
				dn, _ := mimeread.DecodeWords(dp["filename"])
				if dn != sanitizeName(w.name) {
					add("rerender/file-name/"+c10ClassOfName(w.name), "leaf %d: file name %q after the round trip, want %q", i, dn, sanitizeName(w.name))
				}
			}
		}
	}
	return out
}

func c10Specs(thorough bool) []c10Case {
	texts := [][]byte{[]byte("plain ascii text\r\nsecond line\r\n"), []byte("a=b and =3D literal\r\n.dot\r\n"), []byte("ünïcode ✓ text\r\n"), []byte("no trailing newline"), []byte(repeatTo("long line ", 180) + "\r\n"), []byte("lf only\nlines\n")}
	htmls := [][]byte{[]byte("<html><body><p>hi</p></body></html>\r\n"), []byte("<p>a=b ünï</p>\r\n")}
	bins := [][]byte{[]byte("attached text\r\n"), c12Bin, {}, []byte("x")}
	names := []string{"a.txt", "a b.txt", "ä.txt", "a;b.txt", "a=b.txt", "report-2024.pdf",
		"очень-длинное-имя-файла-с-отчётом-за-год.txt", "日本語のとても長いファイル名のテストです資料.pdf", repeatTo("long-ascii-file-name-", 90) + ".bin",
		"ünï cödé with blanks and (parens) & more.dat", "semi;colon=equals and, comma.txt", "name.with.many.dots.tar.gz", "UPPER lower 123.TXT", "tab\tname.txt", "percent%20name.txt", "'single' quotes.txt",
		" leading blank.txt", "trailing blank.txt ", "  blanks on both sides  ", "non-breaking space at the end.txt\u00a0", "\u3000ideographic space first.txt", "ünï trailing blank "}
	subjects := []string{"plain subject", "sübject with ümlaut", repeatTo("eighty character subject ", 80), "comma, in subject", "Re: [list] something?",
		repeatTo("длинная тема письма ", 150), "tab\there", "trailing blank ", "\"quoted\" subject", "=?looks?like?="}
	dnames := []string{"", "Plain Name", "Ünï Näme", repeatTo("Long Name ", 80), "Last, First", repeatTo("Очень Длинное Имя ", 120), "O'Brien \"Bob\"", "back\\slash"}
	encs := []string{"qp", "b64", "8bit", "usascii"}
	var cs []c10Case
	n := 0
	for np := 1; np <= 2; np++ {
		for na := 0; na <= 2; na++ {
			for ne := 0; ne <= 2; ne++ {
				for _, menc := range encs {
					nv := 6
					if thorough {
						nv = 48 // every text × 8 rotations of names / subjects / display names
					}
					for v := 0; v < nv; v++ {
						n++
						s := mb.Msg{Enc: menc}
						t := texts[(n+v)%len(texts)]
						n += v / len(texts) // rotate the name / subject pools as well
						if menc == "usascii" {
							t = texts[(n+v)%2] // 7bit bodies are ASCII
						}
						p := mb.Part{Type: "text/plain", Content: t}
						if n%3 == 0 && menc != "usascii" {
							p.Enc = encs[(n/3)%3]
						}
						s.Parts = append(s.Parts, p)
						if np == 2 {
							h := mb.Part{Type: "text/html", Content: htmls[n%2]}
							if menc == "usascii" {
								h.Content = htmls[0]
							}
							s.Parts = append(s.Parts, h)
						}
						for i := 0; i < na; i++ {
							s.Attach = append(s.Attach, mb.File{Name: names[(n+i)%len(names)], Content: bins[(n+i)%len(bins)]})
						}
						for i := 0; i < ne; i++ {
							s.Embeds = append(s.Embeds, mb.File{Name: names[(n+i+2)%len(names)], Content: bins[(n+i+1)%len(bins)]})
						}
						sub := subjects[n%len(subjects)]
						s.Subject = &sub
						cs = append(cs, c10Case{Spec: s, FromName: dnames[n%len(dnames)], ToName: dnames[(n/2)%len(dnames)]})
					}
				}
			}
		}
	}
	// boundary contents: every body part empty / one byte / only a line break, in every structure and encoding
	for _, tiny := range [][]byte{{}, []byte("x"), []byte("\r\n")} {
		for np := 1; np <= 2; np++ {
			for na := 0; na <= 1; na++ {
				for ne := 0; ne <= 1; ne++ {
					for _, menc := range encs {
						for which := 1; which < 1<<np; which++ {
							n++
							s := mb.Msg{Enc: menc}
							pc, hc := texts[0], htmls[0]
							if which&1 != 0 {
								pc = tiny
							}
							if which&2 != 0 {
								hc = tiny
							}
							s.Parts = append(s.Parts, mb.Part{Type: "text/plain", Content: pc})
							if np == 2 {
								s.Parts = append(s.Parts, mb.Part{Type: "text/html", Content: hc})
							}
							if na == 1 {
								s.Attach = []mb.File{{Name: "a.txt", Content: bins[n%len(bins)]}}
							}
							if ne == 1 {
								s.Embeds = []mb.File{{Name: "e.png", Content: bins[(n+1)%len(bins)]}}
							}
							sub := subjects[0]
							s.Subject = &sub
							cs = append(cs, c10Case{Spec: s})
						}
					}
				}
			}
		}
	}
	// file names whose encoded-words run through the whole symbol set of the B and Q encodings: every code point
	// U+00A1..U+00FF and a sample of 3- and 4-byte ones at the three base64 alignments
	sweep := []rune{0x0100, 0x03A9, 0x07FF, 0x0800, 0x0FFF, 0x3FFF, 0x4E2D, 0xFFFD, 0x1F600, 0x10FFFF}
	for u := rune(0xA1); u <= 0xFF; u++ {
		sweep = append(sweep, u)
	}
	for ui, u := range sweep {
		for al, pre := range []string{"", "a", "ab"} {
			for _, menc := range []string{"qp", "b64"} {
				s := mb.Msg{Enc: menc, Parts: []mb.Part{{Type: "text/plain", Content: texts[0]}}}
				f := mb.File{Name: pre + string(u) + ".bin", Content: bins[ui%len(bins)]}
				if (ui+al)%2 == 0 {
					s.Attach = []mb.File{f}
				} else {
					s.Embeds = []mb.File{f}
				}
				sub := subjects[ui%len(subjects)]
				s.Subject = &sub
				cs = append(cs, c10Case{Spec: s})
			}
		}
	}
	// files that share a name (and files that share name AND content): 2 or 3 attachments, 2 or 3 embeds, and an attachment next to an embed
	for ni, nm := range []string{"report.txt", "ä b.txt", "logo.png"} {
		for _, menc := range encs {
			for kind := 0; kind < 5; kind++ {
				s := mb.Msg{Enc: menc, Parts: []mb.Part{{Type: "text/plain", Content: texts[0]}}}
				a, b, c := mb.File{Name: nm, Content: bins[0]}, mb.File{Name: nm, Content: bins[1]}, mb.File{Name: nm, Content: bins[0]}
				switch kind {
				case 0:
					s.Attach = []mb.File{a, b}
				case 1:
					s.Embeds = []mb.File{a, b}
				case 2:
					s.Attach = []mb.File{a, b, c}
					s.Parts = append(s.Parts, mb.Part{Type: "text/html", Content: htmls[0]})
				case 3:
					s.Embeds = []mb.File{a, c, b}
				default:
					s.Attach = []mb.File{a}
					s.Embeds = []mb.File{b}
				}
				sub := subjects[ni%len(subjects)]
				s.Subject = &sub
				cs = append(cs, c10Case{Spec: s})
			}
		}
	}
	// every file name as attachment and as embed, in every message encoding
	for ni, nm := range names {
		for _, menc := range encs {
			for _, kind := range []int{0, 1, 2} {
				s := mb.Msg{Enc: menc, Parts: []mb.Part{{Type: "text/plain", Content: texts[0]}}}
				f := mb.File{Name: nm, Content: bins[ni%len(bins)]}
				switch kind {
				case 0:
					s.Attach = []mb.File{f}
				case 1:
					s.Embeds = []mb.File{f}
				default:
					s.Parts = append(s.Parts, mb.Part{Type: "text/html", Content: htmls[0]})
					s.Attach = []mb.File{f, {Name: names[(ni+5)%len(names)], Content: bins[1]}}
					s.Embeds = []mb.File{{Name: names[(ni+9)%len(names)], Content: bins[3]}}
				}
				sub := subjects[ni%len(subjects)]
				s.Subject = &sub
				cs = append(cs, c10Case{Spec: s, FromName: dnames[ni%len(dnames)], ToName: dnames[(ni+2)%len(dnames)]})
			}
		}
	}
	// file options: every combination of Content-ID / description / explicit media type on an attachment and on an
	// embed, alone and next to other files, in every message encoding
	for _, menc := range encs {
		for opt := 1; opt < 8; opt++ {
			for kind := 0; kind < 4; kind++ {
				f := mb.File{Name: names[(opt+kind)%6], Content: bins[opt%2]}
				if opt&1 != 0 {
					f.CID = fmt.Sprintf("file-%d@harness.example", opt)
				}
				if opt&2 != 0 {
					f.Desc = "a described file"
				}
				if opt&4 != 0 {
					f.CT = "application/pdf"
				}
				s := mb.Msg{Enc: menc, Parts: []mb.Part{{Type: "text/plain", Content: texts[0]}}}
				switch kind {
				case 0:
					s.Attach = []mb.File{f}
				case 1:
					s.Embeds = []mb.File{f}
				case 2:
					s.Parts = append(s.Parts, mb.Part{Type: "text/html", Content: htmls[0]})
					s.Attach = []mb.File{{Name: "first.txt", Content: bins[0]}, f}
					s.Embeds = []mb.File{{Name: "logo.png", Content: bins[1], CID: "logo@harness.example"}}
				default:
					s.Parts = append(s.Parts, mb.Part{Type: "text/html", Content: htmls[0]})
					s.Attach = []mb.File{{Name: "first.txt", Content: bins[0], CID: "att@harness.example"}}
					s.Embeds = []mb.File{f, {Name: "logo.png", Content: bins[1]}}
				}
				sub := subjects[0]
				s.Subject = &sub
				cs = append(cs, c10Case{Spec: s})
			}
		}
	}
	// recipient lists of different lengths in To and Cc, parsed under every map-iteration start
	for rc := 1; rc <= 3; rc++ {
		for ks := 0; ks < 8; ks++ {
			for _, menc := range encs[:2] {
				s := mb.Msg{Enc: menc, Parts: []mb.Part{{Type: "text/plain", Content: texts[0]}, {Type: "text/html", Content: htmls[0]}}, Attach: []mb.File{{Name: "a.txt", Content: bins[0]}}}
				sub := subjects[0]
				s.Subject = &sub
				cs = append(cs, c10Case{Spec: s, Rcpt: rc, KS: ks, ToName: dnames[rc]})
			}
		}
	}
	// every subject × display name combination on the alternative+attachment shape
	for si := range subjects {
		for di := range dnames {
			for dj := range dnames {
				s := mb.Msg{Parts: []mb.Part{{Type: "text/plain", Content: texts[si%len(texts)]}, {Type: "text/html", Content: htmls[di%2]}}, Attach: []mb.File{{Name: names[(si+di)%len(names)], Content: bins[dj%len(bins)]}}}
				sub := subjects[si]
				s.Subject = &sub
				cs = append(cs, c10Case{Spec: s, FromName: dnames[di], ToName: dnames[dj]})
			}
		}
	}
	return cs
}

func init() {
	vf.Register(&vf.Check{
		ID: "C10", Title: "render → parse → render preserves the message",
		Run: func(r *vf.Run) {
			r.SetRule("builder programs inside the parser's feature set: body text/plain with optional text/html alternative × 0..2 attachments × 0..2 embeds (also files that share a name, or name and content) × message encoding {QP, base64, 8bit, 7bit} × per-part encodings × 6 text contents ('=', dots, UTF-8, long lines, LF-only, no final newline) plus every body part empty / one byte / a bare line break in every structure × 4 file contents × 22 file names (inner / leading / trailing blanks and Unicode spaces, non-ASCII, ';', '=') and a sweep of 105 code points (all of U+00A1..U+00FF, 3- and 4-byte ones) at the three base64 alignments under both header encoders × every combination of Content-ID / description / media-type option on attachments and embeds × 5 subjects × 5 display names (RFC 2047, comma, 80 chars) × To and Cc lists of different lengths parsed under every map-iteration start; each is rendered, the rendering is checked with the independent reader (precondition), parsed with EMLToMsgFromReader (and once more with EMLToMsgFromString or EMLToMsgFromFile), compared with the model through the Msg getters, rendered again and compared again through the independent reader; distinct by program")
			r.Assume("messages whose first rendering is already wrong are C01's business and skipped here", "the parser may choose other transfer encodings on re-rendering; contents are compared decoded (QP text modulo LF->CRLF)")
			cases := c10Specs(r.Thorough)
			// the other two entry points of the parser: every program once more, alternating between them
			for i, n := 0, len(cases); i < n; i++ {
				c := cases[i]
				c.Entry = 1 + i%2
				cases = append(cases, c)
			}
			r.Extra("programs", len(cases))
			defer r.Reached("reached/recipient-lists=1", "reached/recipient-lists=2", "reached/recipient-lists=3")
			r.Parallel(len(cases), "C10 programs", func(i int) {
				k := cases[i]
				fs := c10Exec(r, k)
				b, _ := json.Marshal(k)
				r.Eval(vf.Hash(string(b)), true)
				_, shape := expectedLeaves(k.Spec)
				st := vf.Hash("built", shapeClass(shape), k.Spec.Enc)
				p := vf.Hash("parsed", shapeClass(shape), k.Spec.Enc)
				r.Transition(st, "render+parse", p)
				r.Transition(p, "re-render", vf.Hash("rerendered", shapeClass(shape), k.Spec.Enc, fmt.Sprint(len(fs) == 0)))
				r.TraceValidated()
				if i%157 == 0 {
					r.Sample(map[string]interface{}{"program": k.Spec.Describe(), "subject": *k.Spec.Subject, "from_name": k.FromName})
				}
				if len(fs) == 0 {
					r.Outcome("preserved")
				}
				for _, f := range fs {
					f := f
					r.Outcome(strings.Join(strings.SplitN(f.key, "/", 3)[:2], "/"))
					r.Violation(f.key, f.what, k, func() string {
						for _, x := range c10Exec(r, k) {
							if x.key == f.key {
								return f.key
							}
						}
						return ""
					})
				}
			})
		},
		Replay: func(r *vf.Run, kase json.RawMessage) {
			var k c10Case
			if err := json.Unmarshal(kase, &k); err != nil {
				r.HarnessError("bad case: %v", err)
				return
			}
			r.Eval(1, true)
			fmt.Printf("  program: %s\n", k.Spec.Describe())
			for _, f := range c10Exec(r, k) {
				fmt.Printf("  -> %s: %s\n", f.key, f.what)
				r.Violation(f.key, f.what, k, nil)
			}
		},
	})
}
