package checks

import (
	"bytes"
	"context"
	"embed"
	"encoding/json"
	"fmt"
	"io"
	"io/fs"
	"net/textproto"
	"os"
	"path/filepath"
	"strings"
	"sync"
	"testing/fstest"
	tt "text/template"

	mail "github.com/wneessen/go-mail"

	"verif/cmsverify"
	"verif/hx"
	"verif/mapseam"
	"verif/mimeread"
	"verif/refsmtp"
	"verif/vf"
)

// C11 — rendering is repeatable and all output paths agree.

type c11Cfg struct {
	Shape int `json:"shape"` // index into c11Shapes
	Src   int `json:"src"`   // file source, index into c11Srcs (ignored for shapes without files)
	FEnc  int `json:"fenc"`  // 0 default base64, 1 8bit (WithFileEncoding(NoEncoding)), 2 QP (File.Enc)
}

type c11Case struct {
	Cfg c11Cfg `json:"cfg"`
	Ops []int  `json:"ops"`
	Ks  []int  `json:"ks"` // map-iteration start per op
	// op 15 (failure-offset sweep): the sink of that WriteTo starts failing at byte SinkAt; style 0 accepts the
	// prefix of the write that crosses the offset (short write), style 1 rejects that whole write
	SinkAt    int `json:"sink_at,omitempty"`
	SinkStyle int `json:"sink_style,omitempty"`
}

// c11EnumOps is the number of operations the sequence enumeration ranges over (op 15 belongs to the sweep).
const c11EnumOps = 15

const c11SweepOp = 15

var (
	c11Shapes = []string{"single", "alternative", "body+attachment", "body+embed", "attachment-only", "preformatted-and-many-generic-headers", "smime-single", "smime+attachment", "two-attachments-only", "body-writer+file-writer (switchable source fault)", "caller-fixed boundary: alternative+attachment (nested multiparts)", "caller-fixed boundary: S/MIME alternative+attachment", "single body with a transfer encoding outside go-mail's constants (binary)", "PGP/MIME encrypted (WithPGPType, two caller-supplied parts)", "PGP/MIME signed (SetPGPType, body + detached signature part)", "two middlewares (subject tag, added header)"}
	c11Srcs   = []string{"reader", "readseeker", "file", "fs.FS", "text-template", "reader(*bytes.Reader, partially consumed)", "reader(*strings.Reader)", "readseeker(partially consumed)", "reader(*os.File)", "embed.FS", "fs.FS(reads fail while the source fault is on)", "readseeker(reads fail while the source fault is on)"}
	c11Ops    = []string{"WriteTo", "Write", "NewReader", "UpdateReader", "WriteToFile", "WriteToTempFile", "Send", "WriteTo(sink fails at 0)", "WriteTo(sink fails mid-way)",
		"WriteTo(while the content source fails)", "NewReader(while the content source fails)", "UpdateReader(while the content source fails)", "Send(while the content source fails)", "NewReader(only 64 bytes read)", "NewReader(copied into a failing sink)", "WriteTo(sink fails at byte K)", "WriteToSkipMiddleware(the first middleware)", "WriteToSkipMiddleware(the second middleware)"}
)

func c11HasFile(shape int) bool {
	return shape == 2 || shape == 3 || shape == 4 || shape == 7 || shape == 8 || shape == 10 || shape == 11
}
func c11MapMatters(shape int) bool {
	return shape == 4 || shape == 5 || shape == 6 || shape == 7
}

//go:embed testdata/data.bin
var c11EmbedFS embed.FS

var c11FileContent = []byte("file content line one\nline two with bare LF\r\nbinary: \x00\x01\xfe\xff = . end\n")

// the two middlewares of shape 15: both idempotent, both visible in the output
type c11MwTag struct{}

func (c11MwTag) Type() mail.MiddlewareType { return "c11-subject-tag" }
func (c11MwTag) Handle(m *mail.Msg) *mail.Msg {
	m.Subject("[tagged] repeatability")
	return m
}

type c11MwHdr struct{}

func (c11MwHdr) Type() mail.MiddlewareType { return "c11-added-header" }
func (c11MwHdr) Handle(m *mail.Msg) *mail.Msg {
	m.SetGenHeader(mail.Header("X-Mw-Applied"), "yes")
	return m
}

// c11Fault is the switchable source fault of shape 9 and of the two fault-capable file sources.
type c11Fault struct{ on bool }

// c11SrcHasFault: the file source has a switchable fault (a read in the middle of the content fails while it is on).
func c11SrcHasFault(src int) bool { return strings.Contains(c11Srcs[src], "source fault") }

// c11FaultRS is a read-seeker whose reads beyond the middle of its content fail while the fault is on (a transient
// error of the medium behind the file).
type c11FaultRS struct {
	rd  *bytes.Reader
	flt *c11Fault
}

func (f *c11FaultRS) Read(p []byte) (int, error) {
	if f.flt.on {
		pos, _ := f.rd.Seek(0, io.SeekCurrent)
		half := f.rd.Size() / 2
		if pos >= half {
			return 0, errProducer
		}
		if int64(len(p)) > half-pos {
			p = p[:half-pos]
		}
	}
	return f.rd.Read(p)
}
func (f *c11FaultRS) Seek(off int64, whence int) (int64, error) { return f.rd.Seek(off, whence) }

// c11FaultFS is a one-file fs.FS whose files are such read-seekers.
type c11FaultFS struct {
	name string
	flt  *c11Fault
}

type c11FaultFile struct {
	c11FaultRS
	name string
}

func (f *c11FaultFile) Stat() (fs.FileInfo, error) {
	return fstest.MapFS{f.name: &fstest.MapFile{Data: c11FileContent}}.Stat(f.name)
}
func (f *c11FaultFile) Close() error { return nil }

func (f c11FaultFS) Open(name string) (fs.File, error) {
	if name != f.name {
		return nil, &fs.PathError{Op: "open", Path: name, Err: fs.ErrNotExist}
	}
	return &c11FaultFile{c11FaultRS{rd: bytes.NewReader(c11FileContent), flt: f.flt}, name}, nil
}

var c11Faults sync.Map // *mail.Msg -> *c11Fault

func c11TmpDir() string {
	d := filepath.Join(os.Getenv("VERIF_WORK"), fmt.Sprintf("c11-%d", os.Getpid()))
	if os.Getenv("VERIF_WORK") == "" {
		d = filepath.Join("/verif/.work", fmt.Sprintf("c11-%d", os.Getpid()))
	}
	_ = os.MkdirAll(d, 0o755)
	return d
}

func c11Build(cfg c11Cfg, dir string) (*mail.Msg, error) {
	var mo []mail.MsgOption
	if cfg.Shape == 15 {
		mo = append(mo, mail.WithMiddleware(c11MwTag{}), mail.WithMiddleware(c11MwHdr{}))
	}
	m := mail.NewMsg(mo...)
	_ = m.From("sender@snd.example")
	_ = m.To("rcpt@rcp.example")
	m.Subject("repeatability")
	var err error
	note := func(e error) {
		if e != nil && err == nil {
			err = e
		}
	}
	shape := cfg.Shape
	if shape == 13 || shape == 14 {
		// the caller supplies the parts of a PGP/MIME message; go-mail only provides the multipart around them
		if shape == 13 {
			m.SetPGPType(mail.PGPEncrypt)
			m.SetBodyString(mail.ContentType("application/pgp-encrypted"), "Version: 1\r\n", mail.WithPartEncoding(mail.EncodingUSASCII))
			m.AddAlternativeString(mail.ContentType("application/octet-stream"), "-----BEGIN PGP MESSAGE-----\r\n\r\nhQEMA5kq0wXSPBQPAQf+armoured\r\n-----END PGP MESSAGE-----\r\n", mail.WithPartEncoding(mail.EncodingUSASCII))
		} else {
			m.SetPGPType(mail.PGPSignature)
			m.SetBodyString(mail.TypeTextPlain, "signed body\r\n")
			m.AddAlternativeString(mail.ContentType("application/pgp-signature"), "-----BEGIN PGP SIGNATURE-----\r\n\r\niQEzBAABCAAdFiEE\r\n-----END PGP SIGNATURE-----\r\n", mail.WithPartEncoding(mail.EncodingUSASCII))
		}
	} else if shape == 12 {
		m.SetBodyString(mail.TypeTextPlain, "plain body\r\nwith = and .dot\r\n", mail.WithPartEncoding(mail.Encoding("binary")))
	} else if shape != 4 && shape != 8 && shape != 9 {
		m.SetBodyString(mail.TypeTextPlain, "plain body\r\nwith = and .dot\r\n")
	}
	if shape == 1 || shape == 10 || shape == 11 {
		m.AddAlternativeString(mail.TypeTextHTML, "<p>html</p>\r\n")
	}
	if shape == 10 || shape == 11 {
		m.SetBoundary("caller-fixed-boundary-0001")
	}
	if shape == 9 {
		flt := &c11Fault{}
		c11Faults.Store(m, flt)
		m.SetBodyWriter(mail.TypeTextPlain, func(w io.Writer) (int64, error) {
			if flt.on {
				return 0, errProducer
			}
			n, err := w.Write([]byte("body from a writer function\r\nsecond line\r\n"))
			return int64(n), err
		})
		m.SetAttachments([]*mail.File{{Name: "from-writer.bin", Header: textproto.MIMEHeader{}, Writer: func(w io.Writer) (int64, error) {
			if flt.on {
				n, _ := w.Write(c11FileContent[:10])
				return int64(n), errProducer
			}
			n, err := w.Write(c11FileContent)
			return int64(n), err
		}}})
	}
	if shape == 15 {
		// fixed Date / Message-ID: the rendering of a fresh twin of this message is then the absolute reference
		m.SetDateWithValue(hx.T0)
		m.SetMessageIDWithValue("fixed.c11@harness.example")
	}
	if shape == 5 {
		m.SetGenHeaderPreformatted(mail.Header("X-Preformatted-One"), "first value")
		m.SetGenHeaderPreformatted(mail.Header("X-Preformatted-Two"), "second value,\r\n continued")
		m.SetGenHeaderPreformatted(mail.Header("X-Preformatted-Three"), "third")
		// a well-filled generic-header map: extension fields next to registered ones
		m.SetGenHeader(mail.Header("X-Custom-A"), "first custom value")
		m.SetGenHeader(mail.Header("X-Custom-B"), "second custom value", "with a second entry")
		m.SetGenHeader(mail.Header("X-Zebra"), "last in the alphabet")
		m.SetImportance(mail.ImportanceHigh)
		m.SetBulk()
		m.SetOrganization("Harness Org")
	}
	if c11HasFile(shape) {
		var fo []mail.FileOption
		if cfg.FEnc == 1 {
			fo = append(fo, mail.WithFileEncoding(mail.NoEncoding))
		}
		embed := shape == 3
		name := "data.bin"
		switch c11Srcs[cfg.Src] {
		case "reader":
			if embed {
				note(m.EmbedReader(name, bytes.NewBuffer(append([]byte{}, c11FileContent...)), fo...))
			} else {
				note(m.AttachReader(name, bytes.NewBuffer(append([]byte{}, c11FileContent...)), fo...))
			}
		case "reader(*bytes.Reader, partially consumed)":
			// the caller has already read a prefix: the file content is what is left to read
			br := bytes.NewReader(append([]byte("ALREADY-CONSUMED-PREFIX"), c11FileContent...))
			_, _ = br.Seek(int64(len("ALREADY-CONSUMED-PREFIX")), io.SeekStart)
			if embed {
				note(m.EmbedReader(name, br, fo...))
			} else {
				note(m.AttachReader(name, br, fo...))
			}
		case "reader(*strings.Reader)":
			if embed {
				note(m.EmbedReader(name, strings.NewReader(string(c11FileContent)), fo...))
			} else {
				note(m.AttachReader(name, strings.NewReader(string(c11FileContent)), fo...))
			}
		case "readseeker(partially consumed)":
			br := bytes.NewReader(append([]byte("ALREADY-CONSUMED-PREFIX"), c11FileContent...))
			_, _ = br.Seek(int64(len("ALREADY-CONSUMED-PREFIX")), io.SeekStart)
			if embed {
				m.EmbedReadSeeker(name, br, fo...)
			} else {
				m.AttachReadSeeker(name, br, fo...)
			}
		case "reader(*os.File)":
			p := filepath.Join(dir, "osfile-"+name)
			if _, serr := os.Stat(p); serr != nil {
				note(os.WriteFile(p, c11FileContent, 0o644))
			}
			fh, ferr := os.Open(p)
			note(ferr)
			if ferr == nil {
				if embed {
					note(m.EmbedReader(name, fh, fo...))
				} else {
					note(m.AttachReader(name, fh, fo...))
				}
				_ = fh.Close()
			}
		case "readseeker":
			if embed {
				m.EmbedReadSeeker(name, bytes.NewReader(c11FileContent), fo...)
			} else {
				m.AttachReadSeeker(name, bytes.NewReader(c11FileContent), fo...)
			}
		case "file":
			p := filepath.Join(dir, name)
			if _, serr := os.Stat(p); serr != nil {
				note(os.WriteFile(p, c11FileContent, 0o644))
			}
			if embed {
				m.EmbedFile(p, fo...)
			} else {
				m.AttachFile(p, fo...)
			}
		case "fs.FS":
			fsys := fstest.MapFS{name: &fstest.MapFile{Data: c11FileContent}}
			if embed {
				note(m.EmbedFromIOFS(name, fsys, fo...))
			} else {
				note(m.AttachFromIOFS(name, fsys, fo...))
			}
		case "fs.FS(reads fail while the source fault is on)":
			flt := &c11Fault{}
			c11Faults.Store(m, flt)
			if embed {
				note(m.EmbedFromIOFS(name, c11FaultFS{name, flt}, fo...))
			} else {
				note(m.AttachFromIOFS(name, c11FaultFS{name, flt}, fo...))
			}
		case "readseeker(reads fail while the source fault is on)":
			flt := &c11Fault{}
			c11Faults.Store(m, flt)
			if embed {
				m.EmbedReadSeeker(name, &c11FaultRS{rd: bytes.NewReader(c11FileContent), flt: flt}, fo...)
			} else {
				m.AttachReadSeeker(name, &c11FaultRS{rd: bytes.NewReader(c11FileContent), flt: flt}, fo...)
			}
		case "embed.FS":
			if embed {
				note(m.EmbedFromEmbedFS("testdata/"+name, &c11EmbedFS, fo...))
			} else {
				note(m.AttachFromEmbedFS("testdata/"+name, &c11EmbedFS, fo...))
			}
		case "text-template":
			tpl, terr := tt.New("t").Parse("templated {{.}} content\nsecond line\n")
			note(terr)
			if embed {
				note(m.EmbedTextTemplate(name, tpl, "VALUE", fo...))
			} else {
				note(m.AttachTextTemplate(name, tpl, "VALUE", fo...))
			}
		}
		if shape == 8 {
			m.AttachReadSeeker("second.bin", bytes.NewReader([]byte("second attachment")), fo...)
		}
		if cfg.FEnc == 2 {
			for _, f := range m.GetAttachments() {
				f.Enc = mail.EncodingQP
			}
			for _, f := range m.GetEmbeds() {
				f.Enc = mail.EncodingQP
			}
		}
	}
	if shape == 6 || shape == 7 || shape == 11 {
		kp := hx.Mat().SignECDSA
		note(m.SignWithKeypair(kp.PrivateKey, kp.Leaf, nil))
	}
	return m, err
}

// c11Comparable reduces an output to what must be stable: everything, or for S/MIME the signed entity plus the
// top-level header without the (per-render random) boundary parameter.
func c11Comparable(raw []byte, smime bool, verify ...bool) ([]byte, string) {
	if !smime {
		return raw, ""
	}
	e := mimeread.Parse(raw)
	if e.MediaType != "multipart/signed" || len(e.Children) != 2 {
		return raw, fmt.Sprintf("not a two-part multipart/signed (%s with %d children; %v)", e.MediaType, len(e.Children), e.Problems)
	}
	var hdr []string
	for _, f := range e.Fields {
		if strings.EqualFold(f.Name, "Content-Type") {
			continue
		}
		hdr = append(hdr, f.Name+": "+f.Value)
	}
	// the signature value is per-render, but in EVERY rendering it has to cover the entity that was rendered with it
	prob := ""
	if len(verify) > 0 && !verify[0] {
		// (what a server received went through the DATA writer, which turns the bare LFs of 8bit content into CRLF: that
		// is transport, not rendering, and not judged here)
	} else if der, derr := e.Children[1].DecodeBody(); derr != nil {
		prob = fmt.Sprintf("signature part cannot be decoded: %v", derr)
	} else if _, verr := cmsverify.Verify(der, e.Children[0].Raw); verr != nil {
		prob = fmt.Sprintf("the signature does not cover the entity it was rendered with: %v", verr)
	}
	return []byte(strings.Join(hdr, "\r\n") + "\r\n\r\n" + string(e.Children[0].Raw)), prob
}

func c11Exec(r *vf.Run, k c11Case, dir string) []finding {
	var out []finding
	add := func(key, f string, a ...interface{}) { out = append(out, finding{key, fmt.Sprintf(f, a...)}) }
	m, err := c11Build(k.Cfg, dir)
	if err != nil {
		r.HarnessError("C11 build %+v: %v", k.Cfg, err)
		return nil
	}
	smime := k.Cfg.Shape == 6 || k.Cfg.Shape == 7 || k.Cfg.Shape == 11
	var ref []byte
	refOp := ""
	var rd *mail.Reader
	if k.Cfg.Shape == 15 {
		// absolute reference: what a fresh twin of the message (never rendered without a middleware) writes
		if twin, terr := c11Build(k.Cfg, dir); terr == nil {
			var b bytes.Buffer
			if _, werr := twin.WriteTo(&b); werr == nil {
				ref, refOp = b.Bytes(), "WriteTo of a fresh message"
			}
		}
	}
	cfgCls := c11Shapes[k.Cfg.Shape]
	if c11HasFile(k.Cfg.Shape) {
		cfgCls += "/src=" + c11Srcs[k.Cfg.Src] + "/fenc=" + []string{"b64", "8bit", "qp"}[k.Cfg.FEnc]
	}
	compare := func(opName string, step int, got []byte, kStart int) {
		cmp, prob := c11Comparable(got, smime, opName != "Send")
		if prob != "" {
			add("smime-structure/"+cfgCls, "%s (op %d %s): %s", cfgCls, step, opName, prob)
			return
		}
		if ref == nil {
			ref, refOp = cmp, opName
			return
		}
		if bytes.Equal(cmp, ref) {
			return
		}
		// transport adds a final CRLF when the content does not end in one
		if opName == "Send" && bytes.Equal(cmp, append(append([]byte{}, ref...), '\r', '\n')) {
			return
		}
		// 8bit file content with bare LF/CR is canonicalised by the SMTP transport (and illegal on the wire):
		// across the Send path such content compares modulo line-break canonicalisation
		if k.Cfg.FEnc == 1 && (opName == "Send" || refOp == "Send") {
			a, b := canonLB(cmp), canonLB(ref)
			if bytes.Equal(a, b) || bytes.Equal(a, append(append([]byte{}, b...), '\r', '\n')) || bytes.Equal(append(append([]byte{}, a...), '\r', '\n'), b) {
				return
			}
		}
		d := 0
		for d < len(cmp) && d < len(ref) && cmp[d] == ref[d] {
			d++
		}
		where := "body"
		if h := bytes.Index(ref, []byte("\r\n\r\n")); h < 0 || d < h {
			where = "top-header"
		}
		mapNote := "same-map-order"
		for _, x := range k.Ks {
			if x != k.Ks[0] {
				mapNote = "other-map-order"
			}
		}
		add(fmt.Sprintf("render-differs/%s/in=%s/%s", cfgCls, where, mapNote),
			"%s: output of op %d (%s) differs from the first output (%s) at byte %d: got %q, first was %q; ops=%v map-starts=%v", cfgCls, step, opName, refOp, d,
			clipb(cmp[minInt(d, len(cmp)):], 50), clipb(ref[minInt(d, len(ref)):], 50), opNames(k.Ops), k.Ks)
	}
	for step, op := range k.Ops {
		var got []byte
		var operr error
		ok := true
		ks := k.Ks[step]
		srcFault := op >= 9 && op <= 12
		if srcFault {
			if v, found := c11Faults.Load(m); found {
				v.(*c11Fault).on = true
			} else {
				continue // this shape has no switchable source
			}
			op = map[int]int{9: 0, 10: 2, 11: 3, 12: 6}[op]
		}
		pan, pw := vf.Guard(func() {
			mapseam.With(ks, func() {
				switch op {
				case 0:
					var b bytes.Buffer
					_, operr = m.WriteTo(&b)
					got = b.Bytes()
				case 1:
					var b bytes.Buffer
					_, operr = m.Write(&b)
					got = b.Bytes()
				case 2:
					// the first bytes through Read, the rest through io.Copy (which uses a WriterTo if the Reader has one)
					rd = m.NewReader()
					head := make([]byte, 32)
					n, herr := io.ReadFull(rd, head)
					var rest bytes.Buffer
					if herr == nil {
						_, operr = io.Copy(&rest, rd)
					} else if herr != io.ErrUnexpectedEOF && herr != io.EOF {
						operr = herr
					}
					got = append(head[:n], rest.Bytes()...)
				case 3:
					if rd == nil {
						rd = m.NewReader()
					}
					m.UpdateReader(rd)
					got, operr = io.ReadAll(rd)
				case 4:
					p := filepath.Join(dir, fmt.Sprintf("out-%d.eml", step))
					// the target exists already and is longer than the message (documented: it is overwritten)
					_ = os.WriteFile(p, bytes.Repeat([]byte("X-Old: content of the file that existed before\r\n"), 400), 0o644)
					operr = m.WriteToFile(p)
					if operr == nil {
						got, operr = os.ReadFile(p)
					}
					_ = os.Remove(p)
				case 5:
					var p string
					p, operr = m.WriteToTempFile()
					if operr == nil {
						got, operr = os.ReadFile(p)
					}
					if p != "" {
						_ = os.Remove(p)
					}
				case 6:
					sess := &refsmtp.Session{Host: hx.Host, Caps: []string{"8BITMIME"}}
					conn := refsmtp.NewConn(sess)
					rig := &hx.Rig{Mk: func(n int) *refsmtp.Conn { return conn }}
					cl, cerr := mail.NewClient(hx.Host, mail.WithDialContextFunc(rig.Dial), mail.WithHELO("client.example.test"), mail.WithTLSPolicy(mail.NoTLS))
					if cerr != nil {
						operr = cerr
						return
					}
					operr = cl.DialAndSendWithContext(context.Background(), m)
					if operr == nil && len(sess.Commits) == 1 {
						got = sess.Commits[0].Data
					} else if operr == nil {
						operr = fmt.Errorf("server committed %d messages", len(sess.Commits))
					}
				case c11SweepOp:
					_, _ = m.WriteTo(&faultSink{at: k.SinkAt, style: k.SinkStyle})
					ok = false
				case 16, 17:
					// a rendering without one of the middlewares: its output legitimately differs and is not compared, but
					// it must not change what the renderings after it produce
					var b bytes.Buffer
					_, _ = m.WriteToSkipMiddleware(&b, map[int]mail.MiddlewareType{16: c11MwTag{}.Type(), 17: c11MwHdr{}.Type()}[op])
					ok = false
				case 13:
					// the caller peeks at the beginning and abandons the read
					rd = m.NewReader()
					_, _ = io.ReadFull(rd, make([]byte, 64))
					ok = false
				case 14:
					// the caller copies the Reader into a destination that fails mid-way
					rd = m.NewReader()
					_, _ = io.Copy(&faultSink{at: 100}, rd)
					ok = false
				case 7, 8:
					at := 0
					if op == 8 {
						at = 150
						if ref != nil {
							at = len(ref) / 2
						}
					}
					_, _ = m.WriteTo(&faultSink{at: at})
					ok = false
				}
			})
		})
		if srcFault {
			if v, found := c11Faults.Load(m); found {
				v.(*c11Fault).on = false
			}
		}
		if pan {
			add("panic/"+vf.PanicSite(pw), "op %d %s panicked: %s", step, c11Ops[k.Ops[step]], firstLine(pw))
			return out
		}
		if srcFault {
			if operr == nil {
				add("source-failure-not-reported/op="+c11Ops[k.Ops[step]], "%s: op %d (%s) succeeded although the content source failed", cfgCls, step, c11Ops[k.Ops[step]])
			}
			continue // a failed render has no output to compare
		}
		if !ok {
			continue
		}
		if operr != nil {
			add(fmt.Sprintf("render-error/%s/op=%s", cfgCls, c11Ops[op]), "%s: op %d (%s) failed: %v; ops=%v", cfgCls, step, c11Ops[op], operr, opNames(k.Ops))
			continue
		}
		if step > 0 && ref != nil {
			r.Outcome("reached/compared/op=" + c11Ops[op])
			r.Outcome("reached/compared/shape=" + c11Shapes[k.Cfg.Shape])
			if c11HasFile(k.Cfg.Shape) {
				r.Outcome("reached/compared/src=" + c11Srcs[k.Cfg.Src])
			}
		}
		compare(c11Ops[op], step, got, ks)
	}
	return out
}

func opNames(ops []int) []string {
	var n []string
	for _, o := range ops {
		n = append(n, c11Ops[o])
	}
	return n
}

// c11QuickSend: the Msg that QuickSend builds, delivers and returns is rendered again through every path; what the
// server committed is the first rendering.
func c11QuickSend(r *vf.Run) {
	for _, content := range [][]byte{[]byte("quick body line one\r\nline two = with equals\r\n"), []byte("x"), bytes.Repeat([]byte("a long quick body line that is wrapped somewhere. "), 40)} {
		sess := &refsmtp.Session{Host: "127.0.0.1", Caps: []string{"8BITMIME"}}
		conn := refsmtp.NewConn(sess)
		b, err := hx.ServeTCP(conn)
		if err != nil {
			r.HarnessError("C11 listen: %v", err)
			return
		}
		var m *mail.Msg
		var qerr error
		pan, pw := vf.Guard(func() {
			m, qerr = mail.QuickSend(fmt.Sprintf("127.0.0.1:%d", b.Port), nil, "sender@snd.example", []string{"rcpt@rcp.example"}, "quick", content)
		})
		b.Stop()
		r.Eval(vf.Hash("quicksend", string(content)), true)
		r.TraceValidated()
		kase := c11Case{Cfg: c11Cfg{Shape: -1}}
		if pan {
			r.Violation("panic/"+vf.PanicSite(pw), firstLine(pw), kase, nil)
			continue
		}
		if qerr != nil || m == nil || len(sess.Commits) != 1 {
			r.HarnessError("C11 QuickSend against the plain loopback server failed: %v (%d commits)", qerr, len(sess.Commits))
			return
		}
		first := bytes.TrimSuffix(sess.Commits[0].Data, []byte("\r\n"))
		outs := map[string][]byte{}
		var b1, b2, b3 bytes.Buffer
		_, _ = m.WriteTo(&b1)
		outs["WriteTo"] = b1.Bytes()
		_, _ = m.WriteTo(&b2)
		outs["second WriteTo"] = b2.Bytes()
		_, _ = io.Copy(&b3, m.NewReader())
		outs["NewReader"] = b3.Bytes()
		ok := true
		for name, o := range outs {
			if !bytes.Equal(bytes.TrimSuffix(o, []byte("\r\n")), first) {
				ok = false
				r.Violation("render-differs/quicksend-message/"+strings.ReplaceAll(name, " ", "-"), fmt.Sprintf("the Msg returned by QuickSend renders through %s as %d bytes, the server had received %d bytes: %q… vs %q…", name, len(o), len(first), clipb(o[minInt(len(o), 300):], 60), clipb(first[minInt(len(first), 300):], 60)), kase, nil)
			}
		}
		if ok {
			r.Outcome("reached/quicksend-message-rendered-again")
		}
	}
}

func init() {
	vf.Register(&vf.Check{
		ID: "C11", Title: "rendering is repeatable and all output paths agree",
		Run: func(r *vf.Run) {
			r.SetRule("message shapes {single (also with a transfer encoding outside go-mail's constants), PGP/MIME encrypted and signed (caller-supplied parts), alternative, body+attachment, body+embed, attachment-only, two attachments only, three preformatted headers next to a dozen generic headers (custom X- fields, importance, bulk, organisation), S/MIME single, S/MIME+attachment, nested multiparts with a caller-fixed boundary (plain and S/MIME)} × file source {io.Reader (buffer, *bytes.Reader partially consumed, *strings.Reader, *os.File), read-seeker (fresh and partially consumed), file, fs.FS, text template} × file encoding {base64, 8bit, QP} × ALL sequences of length 2..L (at length 4 without the two thin wrappers Write / WriteToTempFile) over the 9 render operations {WriteTo, Write, NewReader (32 bytes through Read, the rest through io.Copy), UpdateReader, WriteToFile, WriteToTempFile, Send (server commit log), WriteTo into a sink failing at 0, … failing mid-way, WriteTo / NewReader / UpdateReader / Send while the content source (body or file writer function) fails, a Reader of which only 64 bytes are read, a Reader copied into a failing destination} × map-iteration start 0..7 per operation (<=1 operation deviating from start 0; thorough <=2) through the runtime seam; Date, Message-ID and boundaries are generated by go-mail on first use; plus a failure-offset sweep per configuration: [WriteTo, WriteTo into a sink that starts failing at byte K, WriteTo, WriteTo] for EVERY K of the output × {short write, rejected write}; every successful output must equal the first; plus the Msg that QuickSend builds, delivers and returns, rendered again through WriteTo (twice) and NewReader against what the server received; distinct by (configuration, operation sequence, map starts)")
			r.Assume("map iteration order is owned through a runtime build-overlay seam (start offset 0..7 for maps of <= 8 entries)", "for S/MIME the per-render outer boundary and signature value are excluded: the signed entity and the remaining top-level fields are compared",
				"Send output compares modulo the transport's final CRLF", "8bit file content with bare LF/CR compares modulo line-break canonicalisation across the Send path (the dot-writer canonicalises it; such content is illegal on the wire)")
			if !mapseam.Enabled {
				r.Incomplete("runtime map-iteration seam not available with this toolchain: map order is sampled, not enumerated")
			}
			if !r.IsShardChild() {
				c11QuickSend(r)
			}
			if r.Fork(r.Workers) {
				r.Reached("reached/quicksend-message-rendered-again")
				for _, n := range c11Ops[:7] {
					r.Reached("reached/compared/op=" + n)
				}
				for _, n := range c11Shapes {
					r.Reached("reached/compared/shape=" + n)
				}
				for _, n := range c11Srcs {
					r.Reached("reached/compared/src=" + n)
				}
				r.Reached("identical-after-failed-render", "identical-around-a-skipped-middleware")
				return
			}
			dir := c11TmpDir()
			defer os.RemoveAll(dir)
			maxLen := 3
			if r.Thorough {
				maxLen = 4
			}
			var cfgs []c11Cfg
			for sh := range c11Shapes {
				if !c11HasFile(sh) {
					cfgs = append(cfgs, c11Cfg{Shape: sh})
					continue
				}
				for src := range c11Srcs {
					for fe := 0; fe < 3; fe++ {
						cfgs = append(cfgs, c11Cfg{Shape: sh, Src: src, FEnc: fe})
					}
				}
			}
			idx := 0
			for _, cfg := range cfgs {
				for L := 2; L <= maxLen; L++ {
					if L == maxLen && L > 3 && (cfg.Shape == 6 || cfg.Shape == 7 || cfg.Shape == 11) {
						continue // signing is the expensive step; signed shapes stop one level earlier
					}
					n := 1
					for i := 0; i < L; i++ {
						n *= c11EnumOps
					}
					for code := 0; code < n; code++ {
						ops := make([]int, L)
						c := code
						useful := 0
						for i := 0; i < L; i++ {
							ops[i] = c % c11EnumOps
							c /= c11EnumOps
							if ops[i] < 7 {
								useful++
							}
						}
						if useful < 2 {
							continue // fewer than two successful renders: nothing to compare
						}
						hasSrcOp := false
						for _, o := range ops {
							if o >= 9 && o <= 12 {
								hasSrcOp = true
							}
						}
						if hasSrcOp && cfg.Shape != 9 && !(c11HasFile(cfg.Shape) && c11SrcHasFault(cfg.Src)) {
							continue // only shape 9 and two of the file sources have a switchable content fault
						}
						if r.Thorough && L == 4 {
							// length 4: Write and WriteToTempFile are thin wrappers of WriteTo / WriteToFile and left to lengths <= 3
							wrapper := false
							for _, o := range ops {
								if o == 1 || o == 5 {
									wrapper = true
								}
							}
							if wrapper {
								continue
							}
						}
						if !r.Thorough && L == 3 {
							// quick: length-3 sequences over the five representative operations only
							rep := true
							for _, o := range ops {
								if o != 0 && o != 2 && o != 3 && o != 6 && o != 8 && o != 11 && o != 13 && o != 14 {
									rep = false
								}
							}
							if !rep {
								continue
							}
						}
						// map-start vectors
						var kss [][]int
						kss = append(kss, make([]int, L))
						if c11MapMatters(cfg.Shape) {
							for pos := 0; pos < L; pos++ {
								for kk := 1; kk < 8; kk++ {
									v := make([]int, L)
									v[pos] = kk
									kss = append(kss, v)
									if r.Thorough && L <= 3 {
										for pos2 := pos + 1; pos2 < L; pos2++ {
											for k2 := 1; k2 < 8; k2 += 2 {
												w := append([]int{}, v...)
												w[pos2] = k2
												kss = append(kss, w)
											}
										}
									}
								}
							}
						}
						for _, ks := range kss {
							idx++
							if !r.Mine(idx) {
								continue
							}
							if r.OverBudget() {
								r.Incomplete("time budget reached during C11 enumeration")
								return
							}
							k := c11Case{Cfg: cfg, Ops: ops, Ks: ks}
							fs := c11Exec(r, k, dir)
							r.Eval(vf.Hash(fmt.Sprintf("%+v", k)), true)
							r.TraceValidated()
							// state space: (configuration, set of render paths used so far)
							st := vf.Hash(fmt.Sprintf("%+v", cfg), "start")
							for i, op := range ops {
								nx := vf.Hash(fmt.Sprintf("%+v", cfg), fmt.Sprint(ops[:i+1]))
								r.Transition(st, c11Ops[op]+fmt.Sprint(ks[i]), nx)
								st = nx
							}
							if idx%40009 == 0 {
								r.Sample(map[string]interface{}{"shape": c11Shapes[cfg.Shape], "source": c11Srcs[cfg.Src], "fenc": cfg.FEnc, "ops": opNames(ops), "map_starts": ks})
							}
							if len(fs) == 0 {
								r.Outcome("identical")
							}
							for _, f := range fs {
								f := f
								r.Outcome(strings.SplitN(f.key, "/", 2)[0])
								r.Violation(f.key, f.what, k, func() string {
									for _, x := range c11Exec(r, k, dir) {
										if x.key == f.key {
											return f.key
										}
									}
									return ""
								})
							}
						}
					}
				}
			}
			// failure-offset sweep: render, render into a sink that starts failing at byte K — for EVERY K of the
			// output and both failure styles — then render twice more: both must equal the first output
			for _, cfg := range cfgs {
				m0, err := c11Build(cfg, dir)
				if err != nil {
					r.HarnessError("C11 build %+v: %v", cfg, err)
					return
				}
				var b0 bytes.Buffer
				if pan, pw := vf.Guard(func() { _, err = m0.WriteTo(&b0) }); pan || err != nil {
					continue // reported by the sequence enumeration above
				} else {
					_ = pw
				}
				step := 1
				if (cfg.Shape == 6 || cfg.Shape == 7 || cfg.Shape == 11) && !r.Thorough {
					step = 7 // signing is the expensive step
				}
				for at := 0; at < b0.Len(); at += step {
					for style := 0; style < 2; style++ {
						idx++
						if !r.Mine(idx) {
							continue
						}
						if r.OverBudget() {
							r.Incomplete("time budget reached during the C11 failure-offset sweep")
							return
						}
						k := c11Case{Cfg: cfg, Ops: []int{0, c11SweepOp, 0, 0}, Ks: []int{0, 0, 0, 0}, SinkAt: at, SinkStyle: style}
						fs := c11Exec(r, k, dir)
						r.Eval(vf.Hash(fmt.Sprintf("%+v", k)), true)
						r.TraceValidated()
						if len(fs) == 0 {
							r.Outcome("identical-after-failed-render")
						}
						for _, f := range fs {
							f := f
							r.Outcome(strings.SplitN(f.key, "/", 2)[0])
							r.Violation(f.key+"/after-failed-render", f.what+fmt.Sprintf(" (sink failed at byte %d, style %d)", at, style), k, func() string {
								for _, x := range c11Exec(r, k, dir) {
									if x.key == f.key {
										return f.key + "/after-failed-render"
									}
								}
								return ""
							})
						}
					}
				}
			}
			// the middleware shape with the two WriteToSkipMiddleware operations: all sequences of length 2..3 (thorough ..4)
			// over {WriteTo, NewReader, UpdateReader, WriteToFile, Send, skip first, skip second} with two comparable renderings
			{
				alpha := []int{0, 2, 3, 4, 6, 16, 17}
				for L := 2; L <= maxLen; L++ {
					n := 1
					for i := 0; i < L; i++ {
						n *= len(alpha)
					}
					for code := 0; code < n; code++ {
						ops, c, useful, skips := make([]int, L), code, 0, 0
						for i := 0; i < L; i++ {
							ops[i] = alpha[c%len(alpha)]
							c /= len(alpha)
							if ops[i] < 7 {
								useful++
							} else {
								skips++
							}
						}
						if useful < 2 || skips == 0 {
							continue
						}
						idx++
						if !r.Mine(idx) {
							continue
						}
						k := c11Case{Cfg: c11Cfg{Shape: 15}, Ops: ops, Ks: make([]int, L)}
						fs := c11Exec(r, k, dir)
						r.Eval(vf.Hash(fmt.Sprintf("%+v", k)), true)
						r.TraceValidated()
						if len(fs) == 0 {
							r.Outcome("identical-around-a-skipped-middleware")
						}
						for _, f := range fs {
							f := f
							r.Outcome(strings.SplitN(f.key, "/", 2)[0])
							r.Violation(f.key, f.what, k, func() string {
								for _, x := range c11Exec(r, k, dir) {
									if x.key == f.key {
										return f.key
									}
								}
								return ""
							})
						}
					}
				}
			}
		},
		Replay: func(r *vf.Run, kase json.RawMessage) {
			var k c11Case
			if err := json.Unmarshal(kase, &k); err != nil {
				r.HarnessError("bad case: %v", err)
				return
			}
			if k.Cfg.Shape < 0 {
				c11QuickSend(r)
				return
			}
			dir := c11TmpDir()
			defer os.RemoveAll(dir)
			r.Eval(1, true)
			fmt.Printf("  cfg=%+v ops=%v map-starts=%v\n", k.Cfg, opNames(k.Ops), k.Ks)
			for _, f := range c11Exec(r, k, dir) {
				if len(k.Ops) > 1 && k.Ops[1] == c11SweepOp {
					f.key += "/after-failed-render"
				}
				fmt.Printf("  -> %s: %s\n", f.key, f.what)
				r.Violation(f.key, f.what, k, nil)
			}
		},
	})
}
