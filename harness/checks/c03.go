package checks

import (
	"bytes"
	"context"
	"crypto/ed25519"
	"crypto/rand"
	"encoding/json"
	"errors"
	"fmt"
	"io"
	"net/textproto"
	"strings"

	mail "github.com/wneessen/go-mail"

	"verif/hx"
	"verif/refsmtp"
	"verif/vf"
)

// C03 — the server only ever commits complete messages; IsDelivered tells the truth.

type c03Cfg struct {
	M    int  `json:"m"`   // batch size
	Rot  int  `json:"rot"` // shape rotation: message i has shape (i+rot)%4
	NoOp bool `json:"nonoop"`
	// Resend: history — after the (possibly failed) Send the very same Msg objects are sent once more over a new,
	// fault-free connection: what the server commits then must be complete as well
	Resend bool `json:"resend,omitempty"`
	// ResendNoRcpt (with Resend): before the re-send all recipients are removed from the messages, so the second
	// attempt is refused locally before MAIL FROM — whatever the first attempt did, the messages are then NOT delivered
	ResendNoRcpt bool `json:"resend_norcpt,omitempty"`
	// Presend: history — BEFORE the judged Send the very same Msg objects were delivered once over a fault-free
	// connection (all of them delivered, IsDelivered()==true); the judged Send then has to re-establish the truth
	Presend bool `json:"presend,omitempty"`
	// TLS: the session runs inside STARTTLS (real crypto/tls handshake on the in-memory connection)
	TLS bool `json:"tls,omitempty"`
	// API: how the batch is handed over — 0 DialWithContext + Send + Close; 1 DialAndSend; 2 DialToSMTPClientWithContext +
	// SendWithSMTPClient + CloseWithSMTPClient (a connection the Client does not keep); 3 = as 2 while the Client
	// additionally keeps a connection of its own (dialled before, idle)
	API int `json:"api,omitempty"`
}

var c03APINames = []string{"Dial+Send+Close", "DialAndSend", "DialToSMTPClient+SendWithSMTPClient", "SendWithSMTPClient beside the Client's own connection"}

type c03Case struct {
	Cfg    c03Cfg `json:"cfg"`
	Prefix []int  `json:"choices"`
}

var c03ShapeNames = []string{"single", "alternative", "body+attachment", "body+embed", "body+attachment(AttachReader)", "body+embed(EmbedReadSeeker)", "single 8bit body", "8bit body + 8bit alternative + 7bit attachment"}

const c03NShapes = 8

// faultCtl decides, through the chooser, how each content producer behaves; Off disables all faults (used
// for the reference rendering after the run).
type faultCtl struct {
	c      *vf.Chooser
	off    bool
	picked map[string]int
	fired  map[string]bool // producer actually failed during the run
}

func (f *faultCtl) mode(name string) int {
	if f.off {
		return 0
	}
	if v, ok := f.picked[name]; ok {
		return v
	}
	// 0 ok, 1 fail before the first byte, 2 fail after half; 3..5: the same failures with other error identities
	// (io.EOF before the first byte, io.EOF after half, wrapped io.EOF after half) — an error must count as a
	// failure whatever its identity; 6..8: errors whose text looks like an SMTP reply (after half "404 …", after half
	// "550 …", before the first byte "451 …")
	v := f.c.Choose("producer:"+name, 9)
	f.picked[name] = v
	return v
}

var errProducer = errors.New("producer failed (injected)")

// signFault decides (once per message) whether the message gets a signer that fails at render time.
func (f *faultCtl) signFault(msg string) bool {
	if f.off || f.c == nil {
		return false
	}
	name := msg + ".sign"
	if v, ok := f.picked[name]; ok {
		return v == 1
	}
	v := f.c.Choose("signing:"+msg, 2)
	f.picked[name] = v
	return v == 1
}

func (f *faultCtl) producer(name string, content []byte) func(io.Writer) (int64, error) {
	return func(w io.Writer) (int64, error) {
		switch md := f.mode(name); md {
		case 1, 3, 8:
			f.fired[name] = true
			if md == 3 {
				return 0, io.EOF
			}
			if md == 8 {
				return 0, errors.New("451 4.3.0 content source temporarily unavailable")
			}
			return 0, errProducer
		case 2, 4, 5, 6, 7:
			f.fired[name] = true
			n, _ := w.Write(content[:len(content)/2])
			switch md {
			case 4:
				return int64(n), io.EOF
			case 5:
				return int64(n), fmt.Errorf("source ended early: %w", io.EOF)
			case 6:
				return int64(n), errors.New("404 Not Found: content source")
			case 7:
				return int64(n), errors.New("550 5.7.1 content source refused")
			}
			return int64(n), errProducer
		}
		n, err := w.Write(content)
		return int64(n), err
	}
}

func c03Build(i, shape int, f *faultCtl) *mail.Msg {
	m := mail.NewMsg()
	if shape >= 6 {
		m.SetEncoding(mail.NoEncoding) // 8bit: content is written as is
	}
	_ = m.From(hx.Sender(i))
	_ = m.To(hx.Rcpt(i, 0))
	_ = m.Cc(hx.Rcpt(i, 1))
	m.SetDateWithValue(hx.T0)
	m.SetMessageIDWithValue(hx.MsgID(i))
	m.Subject(fmt.Sprintf("message %d of shape %s", i, c03ShapeNames[shape]))
	body := []byte(fmt.Sprintf("Plain body of message %d.\r\n.dot line\r\nFrom here on, text = with equals signs and a long line that has to be wrapped by the quoted-printable encoder somewhere.\r\nEnd of %d\r\n", i, i))
	nm := fmt.Sprintf("m%d", i)
	m.SetBodyWriter(mail.TypeTextPlain, f.producer(nm+".body", body))
	if shape == 0 && f.signFault(nm) {
		// S/MIME signing that fails at render time (the API accepts an Ed25519 key, the PKCS#7 signer does not):
		// WriteTo returns an error before the first byte is written, on a healthy connection
		_, edKey, _ := ed25519.GenerateKey(rand.Reader)
		_ = m.SignWithKeypair(edKey, hx.Mat().SignECDSA.Leaf, nil)
	}
	switch shape {
	case 1:
		html := []byte(fmt.Sprintf("<html><body><p>HTML body of message %d</p>\r\n<p>second paragraph</p></body></html>\r\n", i))
		m.AddAlternativeWriter(mail.TypeTextHTML, f.producer(nm+".alt", html))
	case 2:
		data := bytes.Repeat([]byte{byte(i), 0xff, 0x00, '.', '\r', '\n', 'A'}, 1200) // larger than the transport's write buffer
		m.SetAttachments([]*mail.File{{Name: fmt.Sprintf("att%d.bin", i), Header: textproto.MIMEHeader{}, Writer: f.producer(nm+".att", data)}})
	case 3:
		data := bytes.Repeat([]byte{0x89, 'P', 'N', 'G', byte(i), '\n'}, 30)
		m.SetEmbeds([]*mail.File{{Name: fmt.Sprintf("emb%d.png", i), Header: textproto.MIMEHeader{}, Writer: f.producer(nm+".emb", data)}})
	case 4:
		// library-made producers: the content is handed over as a reader (no producer fault here; transport faults apply)
		data := bytes.Repeat([]byte{byte(i), 0xfe, 0x01, '.', '\r', '\n', 'R'}, 1300) // larger than the transport's write buffer: a failure can hit while the part is still being produced
		_ = m.AttachReader(fmt.Sprintf("rdr%d.bin", i), bytes.NewReader(data))
	case 5:
		data := bytes.Repeat([]byte{0x89, 'P', 'N', 'G', byte(i), '\n', 'S'}, 1300)
		m.EmbedReadSeeker(fmt.Sprintf("rs%d.png", i), bytes.NewReader(data))
	case 7:
		html := []byte(fmt.Sprintf("<html><body><p>8bit HTML body of message %d: ünï</p></body></html>\r\n", i))
		m.AddAlternativeWriter(mail.TypeTextHTML, f.producer(nm+".alt", html))
		txt := []byte(strings.Repeat(fmt.Sprintf("seven bit attachment line of message %d\r\n", i), 20))
		att := &mail.File{Name: fmt.Sprintf("att%d.txt", i), Header: textproto.MIMEHeader{}, Writer: f.producer(nm+".att", txt)}
		mail.WithFileEncoding(mail.EncodingUSASCII)(att)
		m.SetAttachments([]*mail.File{att})
	}
	return m
}

var c03XportNames = []string{"never", "at first content byte", "inside headers", "inside a part body", "just before the end of content", "inside the end-of-data marker", "inside the content of the last part"}

func c03Exec(r *vf.Run, cfg c03Cfg, c *vf.Chooser) (keys, whats []string) {
	add := func(k, w string) { keys = append(keys, k); whats = append(whats, w) }
	f := &faultCtl{c: c, picked: map[string]int{}, fired: map[string]bool{}}
	msgs := make([]*mail.Msg, cfg.M)
	for i := range msgs {
		msgs[i] = c03Build(i, (i+cfg.Rot)%c03NShapes, f)
	}
	// reference lengths from a pilot rendering of structurally identical messages (boundaries differ, lengths do not)
	refLen := make([]int, cfg.M)
	hdrLen := make([]int, cfg.M)
	{
		pf := &faultCtl{off: true}
		for i := range msgs {
			var b bytes.Buffer
			_, _ = c03Build(i, (i+cfg.Rot)%c03NShapes, pf).WriteTo(&b)
			refLen[i] = b.Len()
			hdrLen[i] = bytes.Index(b.Bytes(), []byte("\r\n\r\n"))
		}
	}
	sess := &refsmtp.Session{Host: hx.Host, Caps: []string{"8BITMIME", "ENHANCEDSTATUSCODES"}}
	if cfg.TLS {
		sess.Caps = append(sess.Caps, "STARTTLS")
	}
	xport := map[int]int{} // txn -> absolute content offset at which the transport fails
	xportCls := map[int]int{}
	stdM := stdScriptM(c)
	std := func(s *refsmtp.Session, ev *refsmtp.Event, def refsmtp.Action) refsmtp.Action {
		return stdM(s, ev, def)
	}
	sess.Script = func(s *refsmtp.Session, ev *refsmtp.Event, def refsmtp.Action) refsmtp.Action {
		switch ev.Verb {
		case "GREETING", "EHLO", "HELO", "QUIT", "STARTTLS":
			return def
		case "EOD":
			// alphabet {250, 4yz, 5yz, drop, other 2yz}
			switch c.Choose(ev.Pos(), 6) {
			case 5:
				return refsmtp.Action{Kind: refsmtp.ActReply, Code: 250, Text: []string{"2.0.0 Ok", "queued as 0001", "thank you"}}
			case 1:
				return refsmtp.Action{Kind: refsmtp.ActReply, Code: 451}
			case 2:
				return refsmtp.Action{Kind: refsmtp.ActReply, Code: 554}
			case 3:
				return refsmtp.Action{Kind: refsmtp.ActDrop}
			case 4:
				return refsmtp.Action{Kind: refsmtp.ActReply, Code: 251, Text: []string{"2.0.0 accepted, will forward"}}
			}
			return def
		}
		a := std(s, ev, def)
		if ev.Verb == "DATA" && a.Kind == refsmtp.ActReply && a.Code == 354 {
			mi := -1
			for i := range msgs {
				if strings.Contains(s.FromRaw(), hx.Sender(i)) {
					mi = i
				}
			}
			if mi >= 0 && !cfg.TLS {
				if k := c.Choose(fmt.Sprintf("transport#%d", ev.Txn), 7); k > 0 {
					off := 0
					switch k {
					case 2:
						off = hdrLen[mi] / 2
					case 3:
						off = hdrLen[mi] + 12
					case 4:
						off = refLen[mi] - 9
					case 5:
						off = refLen[mi] + 1
					case 6:
						off = hdrLen[mi] + (refLen[mi]-hdrLen[mi])*2/3
					}
					xport[ev.Txn] = off
					xportCls[ev.Txn] = k
				}
			}
		}
		return a
	}
	conn := refsmtp.NewConn(sess)
	conn.TLSConfig = hx.ServerTLS(hx.Mat().Good)
	conn.FailInData = func(txn, have, n int) int {
		off, ok := xport[txn]
		if !ok {
			return -1
		}
		if have+n > off {
			k := off - have
			if k < 0 {
				k = 0
			}
			return k
		}
		return -1
	}
	sess2 := &refsmtp.Session{Host: hx.Host, Caps: []string{"8BITMIME", "ENHANCEDSTATUSCODES"}}
	conn2 := refsmtp.NewConn(sess2)
	sess0 := &refsmtp.Session{Host: hx.Host, Caps: []string{"8BITMIME", "ENHANCEDSTATUSCODES"}}
	conn0 := refsmtp.NewConn(sess0)
	connOwn := refsmtp.NewConn(&refsmtp.Session{Host: hx.Host, Caps: []string{"8BITMIME"}})
	rig := &hx.Rig{Mk: func(n int) *refsmtp.Conn {
		if cfg.API == 3 {
			if n == 0 {
				return connOwn
			}
			n--
		}
		if cfg.Presend {
			if n == 0 {
				return conn0
			}
			n--
		}
		if n == 1 && cfg.Resend {
			return conn2
		}
		if n > 0 {
			return nil
		}
		return conn
	}}
	opts := []mail.Option{mail.WithDialContextFunc(rig.Dial), mail.WithHELO("client.example.test"), mail.WithTLSPolicy(mail.NoTLS)}
	if cfg.TLS {
		opts = append(opts, mail.WithTLSPolicy(mail.TLSMandatory), mail.WithTLSConfig(hx.ClientTLS(hx.Host)))
	}
	if cfg.NoOp {
		opts = append(opts, mail.WithoutNoop())
	}
	cl, err := mail.NewClient(hx.Host, opts...)
	if err != nil {
		r.HarnessError("C03 NewClient: %v", err)
		return
	}
	if cfg.Presend {
		f.off = true
		pan0, pw0 := vf.Guard(func() {
			if err := cl.DialWithContext(context.Background()); err != nil {
				r.HarnessError("C03 dial for the earlier delivery failed: %v", err)
				return
			}
			_ = cl.Send(msgs...)
			_ = cl.Close()
		})
		f.off = false
		if pan0 {
			add("panic/"+vf.PanicSite(pw0), "earlier fault-free delivery: "+pw0)
			return
		}
		all := true
		for _, m := range msgs {
			all = all && m.IsDelivered()
		}
		if all {
			r.Outcome("reached/delivered-before-the-judged-send")
		}
	}
	pan, pw := vf.Guard(func() {
		switch cfg.API {
		case 1:
			_ = cl.DialAndSend(msgs...)
			return
		case 2, 3:
			if cfg.API == 3 {
				if err := cl.DialWithContext(context.Background()); err != nil {
					r.HarnessError("C03 dial of the Client's own connection failed: %v", err)
					return
				}
			}
			sc, err := cl.DialToSMTPClientWithContext(context.Background())
			if err != nil {
				r.HarnessError("C03 dial failed: %v", err)
				return
			}
			_ = cl.SendWithSMTPClient(sc, msgs...)
			_ = cl.CloseWithSMTPClient(sc)
			if cfg.API == 3 {
				// the Client's own connection must have survived whatever happened on the other one
				if err := cl.Reset(); err != nil {
					add("own-connection-lost/api="+c03APINames[cfg.API], fmt.Sprintf("after SendWithSMTPClient on another connection the Client's own idle connection does not work any more: %v", err))
				} else {
					r.Outcome("reached/own-connection-alive-after-foreign-send")
				}
				_ = cl.Close()
			}
			return
		}
		if err := cl.DialWithContext(context.Background()); err != nil {
			r.HarnessError("C03 dial failed: %v", err)
			return
		}
		_ = cl.Send(msgs...)
		_ = cl.Close()
	})
	if pan {
		add("panic/"+vf.PanicSite(pw), pw)
		return
	}
	// state of the messages after the judged Send (the re-send and the reference renderings come afterwards)
	delivered := make([]bool, cfg.M)
	hasErr := make([]bool, cfg.M)
	for i, m := range msgs {
		delivered[i], hasErr[i] = m.IsDelivered(), m.HasSendError()
	}
	var resendErr error
	resendDelivered := make([]bool, cfg.M)
	if cfg.Resend {
		// before anything else renders these Msg objects again: the same objects over a new, fault-free connection
		f.off = true
		if cfg.ResendNoRcpt {
			for _, m := range msgs {
				_ = m.To()
				_ = m.Cc()
				_ = m.Bcc()
			}
		}
		pan, pw = vf.Guard(func() {
			if err := cl.DialWithContext(context.Background()); err != nil {
				r.HarnessError("C03 second dial failed: %v", err)
				return
			}
			resendErr = cl.Send(msgs...)
			_ = cl.Close()
		})
		if pan {
			add("panic/"+vf.PanicSite(pw), "re-send: "+pw)
			return
		}
		for i, m := range msgs {
			resendDelivered[i] = m.IsDelivered()
		}
	}
	protoStates(r, sess.Transcript)
	// a failing signer only "fires" if the message got as far as DATA (354)
	for i := range msgs {
		if f.picked[fmt.Sprintf("m%d.sign", i)] == 1 {
			for _, e := range sess.Transcript {
				if e.Verb == "DATA" && e.Code == 354 {
					for _, e2 := range sess.Transcript {
						if e2.Verb == "MAIL" && e2.Txn == e.Txn && strings.Contains(e2.Line, "<"+hx.Sender(i)+">") {
							f.fired[fmt.Sprintf("m%d.sign", i)] = true
						}
					}
				}
			}
		}
	}
	// (in this mode the messages were changed after the first attempt: that attempt is judged by the other
	// configurations, here only the refused second attempt is)
	if cfg.Resend && cfg.ResendNoRcpt {
		if len(sess2.Commits) > 0 {
			add("commit-without-recipients/on-resend", fmt.Sprintf("the server committed %d message(s) although every message had lost its recipients", len(sess2.Commits)))
		}
		for i := range msgs {
			if resendDelivered[i] {
				add(fmt.Sprintf("stale-delivered-after-refused-resend/first-attempt-delivered=%v", delivered[i]),
					fmt.Sprintf("message %d: the re-send was refused before MAIL FROM (no recipients), yet IsDelivered()==true (after the first attempt it was %v)", i, delivered[i]))
			}
		}
		if resendErr != nil {
			r.Outcome("reached/resend-refused-locally")
		}
		return
	}
	// reference renderings of the very Msg objects that were sent, faults switched off
	f.off = true
	refs := make([][]byte, cfg.M)
	for i, m := range msgs {
		var b bytes.Buffer
		if f.picked[fmt.Sprintf("m%d.sign", i)] == 1 {
			refs[i] = []byte("\x00<message whose signing fails: it has no rendering>\x00")
			continue
		}
		if _, err := m.WriteTo(&b); err != nil {
			r.HarnessError("C03 reference rendering of message %d failed: %v", i, err)
			return
		}
		refs[i] = b.Bytes()
	}
	// cause description for keys
	cause := func() string {
		switch {
		case len(f.fired) > 0:
			return "producer-failure"
		case len(xportCls) > 0:
			return "transport-failure"
		}
		return "replies-only"
	}
	committed := make([]int, cfg.M)
	for _, cm := range sess.Commits {
		hit := -1
		for i, ref := range refs {
			if bytes.Equal(cm.Data, ref) || bytes.Equal(cm.Data, append(append([]byte{}, ref...), '\r', '\n')) {
				hit = i
			}
		}
		if hit < 0 {
			kind := "other"
			for _, ref := range refs {
				d := bytes.TrimSuffix(cm.Data, []byte("\r\n"))
				if len(d) < len(ref) && bytes.HasPrefix(ref, d) {
					kind = "truncated-prefix"
				}
			}
			if len(cm.Data) == 0 || string(cm.Data) == "\r\n" {
				kind = "empty"
			}
			add(fmt.Sprintf("incomplete-commit/%s/cause=%s", kind, cause()),
				fmt.Sprintf("the server committed %d bytes in transaction %d that are not the complete rendering of any message of the batch (%s): %q…", len(cm.Data), cm.Txn, kind, clipb(cm.Data, 60)))
			continue
		}
		committed[hit]++
		if cm.From.String() != hx.Sender(hit) || len(cm.Rcpts) != 2 || cm.Rcpts[0].String() != hx.Rcpt(hit, 0) || cm.Rcpts[1].String() != hx.Rcpt(hit, 1) {
			add("commit-with-foreign-envelope/cause="+cause(), fmt.Sprintf("content of message %d was committed with envelope %s -> %v", hit, cm.From, cm.Rcpts))
		}
	}
	// which message got a 2yz at its end-of-data?
	txnMsg := map[int]int{}
	for _, e := range sess.Transcript {
		if e.Verb == "MAIL" {
			for i := range msgs {
				if strings.Contains(e.Line, "<"+hx.Sender(i)+">") {
					txnMsg[e.Txn] = i
				}
			}
		}
	}
	acked := make([]int, cfg.M)
	ackCode := make([]int, cfg.M)
	for _, e := range sess.Transcript {
		if e.Verb == "EOD" && e.Code/100 == 2 {
			if i, ok := txnMsg[e.Txn]; ok {
				acked[i]++
				ackCode[i] = e.Code
			}
		}
	}
	for i, m := range msgs {
		if committed[i] > 1 {
			add("committed-twice/cause="+cause(), fmt.Sprintf("message %d was committed %d times in one Send", i, committed[i]))
		}
		renderFailed := false
		for n := range f.fired {
			if strings.HasPrefix(n, fmt.Sprintf("m%d.", i)) {
				renderFailed = true
			}
		}
		_ = m
		if delivered[i] != (acked[i] > 0) {
			add(fmt.Sprintf("isdelivered-mismatch/delivered=%v/acked=%v/eod-code=%d/own-render-failed=%v", delivered[i], acked[i] > 0, ackCode[i], renderFailed),
				fmt.Sprintf("message %d: IsDelivered()=%v but its end-of-data was acknowledged 2yz %d time(s) (code %d)", i, delivered[i], acked[i], ackCode[i]))
		}
		if renderFailed {
			if !hasErr[i] {
				add("render-failure-not-reported/cause="+cause(), fmt.Sprintf("rendering of message %d failed but it carries no SendError", i))
			}
			if delivered[i] {
				add("render-failure-but-delivered/cause="+cause(), fmt.Sprintf("rendering of message %d failed but IsDelivered()==true", i))
			}
			if committed[i] > 0 {
				add("render-failure-but-committed/cause="+cause(), fmt.Sprintf("rendering of message %d failed but the server committed it", i))
			}
		}
	}
	for _, k := range xportCls {
		r.Outcome(fmt.Sprintf("reached/transport-failure-class-%d", k))
	}
	for n := range f.fired {
		if strings.HasSuffix(n, ".sign") {
			r.Outcome("reached/signing-failure")
		} else {
			r.Outcome("reached/producer-failure")
		}
	}
	if len(sess.Commits) > 0 {
		r.Outcome("reached/commit")
	}
	if cfg.Resend && len(sess2.Commits) == cfg.M {
		r.Outcome("reached/resend-committed-all")
	}
	if cfg.Resend && len(xportCls) > 0 && len(sess2.Commits) == cfg.M {
		r.Outcome("reached/resend-after-transport-failure")
	}
	if cfg.Resend {
		signBad := func(i int) bool { return f.picked[fmt.Sprintf("m%d.sign", i)] == 1 }
		got := make([]int, cfg.M)
		for _, cm := range sess2.Commits {
			hit := -1
			for i, ref := range refs {
				if bytes.Equal(cm.Data, ref) || bytes.Equal(cm.Data, append(append([]byte{}, ref...), '\r', '\n')) {
					hit = i
				}
			}
			if hit < 0 {
				add("incomplete-commit/on-resend/first-attempt="+cause(),
					fmt.Sprintf("re-sending the same Msg objects over a fault-free connection, the server committed %d bytes that are not the complete rendering of any of them: %q…", len(cm.Data), clipb(cm.Data, 60)))
				continue
			}
			got[hit]++
		}
		anyBad := false
		for i := range msgs {
			anyBad = anyBad || signBad(i)
		}
		for i := range msgs {
			if anyBad {
				break // a message that still cannot be signed fails again and takes the connection with it: only completeness is judged
			}
			if got[i] != 1 {
				add(fmt.Sprintf("resend-committed-%d-times/first-attempt=%s", got[i], cause()), fmt.Sprintf("message %d was committed %d times by the fault-free re-send (error: %v)", i, got[i], resendErr))
			}
			if !resendDelivered[i] {
				add("resend-not-delivered/first-attempt="+cause(), fmt.Sprintf("message %d: IsDelivered()==false after a fault-free re-send (error: %v)", i, resendErr))
			}
		}
	}
	return
}

func clipb(b []byte, n int) string {
	if len(b) > n {
		b = b[:n]
	}
	return string(b)
}

func c03Describe(label string, pick int) string {
	switch {
	case strings.HasPrefix(label, "producer:"):
		return label + "=" + []string{"ok", "fail-before-first-byte", "fail-after-half", "fail-before-first-byte(io.EOF)", "fail-after-half(io.EOF)", "fail-after-half(wrapped io.EOF)", "fail-after-half(error text '404 …')", "fail-after-half(error text '550 …')", "fail-before-first-byte(error text '451 …')"}[pick]
	case strings.HasPrefix(label, "signing:"):
		return label + "=fails"
	case strings.HasPrefix(label, "transport#"):
		return label + "=fail " + c03XportNames[pick]
	case strings.HasPrefix(label, "EOD#") && pick == 4:
		return label + "=251"
	case strings.HasPrefix(label, "EOD#") && pick == 5:
		return label + "=250 multi-line"
	}
	return describeReplyChoiceM(label, pick)
}

func init() {
	vf.Register(&vf.Check{
		ID: "C03", Title: "only complete messages are committed; IsDelivered tells the truth",
		Run: func(r *vf.Run) {
			r.SetRule("batches of 1..3 messages over shapes {single, alternative, body+attachment, body+embed, body+attachment from a reader, body+embed from a read-seeker, single 8bit body, 8bit body + 8bit alternative + 7bit attachment}; (history) the same Msg objects delivered once over a fault-free connection BEFORE the judged Send; (history) the same Msg objects sent again over a fault-free connection, unchanged or after all their recipients were removed (second attempt refused before MAIL FROM); choice points: every content producer {ok, fail before first byte, fail after half — with a generic error, with io.EOF, with a wrapped io.EOF, with an error whose text reads like a 4yz / 5yz reply}, S/MIME signing of single-part messages {off, fails at render time before the first byte}, transport failure in each DATA phase at {never, first content byte, inside headers, inside a part body, just before the end, inside the end-of-data marker, inside the content of the last part}, server reply at NOOP/MAIL/RCPT/DATA/RSET {ok,4yz,5yz,drop,multi-line ok,421+disconnect} and at end-of-data {250,4yz,5yz,drop,251,multi-line 250}; all vectors with <= k deviations; oracle: server commit log vs. reference rendering of the same Msg objects; plus the same batches inside a STARTTLS session (transport faults are not offered there); plus two goroutines calling Send on one established connection, every interleaving up to 2 preemptions (scheduler of C13), same oracle; distinct by (configuration, choice vector); the batch handed over in 4 ways (Dial+Send+Close, DialAndSend, SendWithSMTPClient on a connection the Client does not keep, the same beside an idle connection of the Client that has to survive)")
			r.Assume("the reference rendering is WriteTo on the same Msg after Send with faults disabled (default file encodings; repeatability itself is C11)",
				"the transport's final CRLF after content that does not end in CRLF is not part of the message")
			type job struct {
				cfg   c03Cfg
				bound int
			}
			var jobs []job
			maxM, bound := 2, 2
			if r.Thorough {
				maxM, bound = 3, 3
			}
			deep := 0
			if r.Thorough {
				deep = 4 // single-message batches one level deeper
			}
			for m := 1; m <= maxM; m++ {
				for rot := 0; rot < c03NShapes; rot++ {
					for _, nn := range []bool{false, true} {
						b := bound
						if m == 3 && nn {
							continue
						}
						if m == 1 && deep > b {
							b = deep
						}
						jobs = append(jobs, job{c03Cfg{M: m, Rot: rot, NoOp: nn}, b})
					}
				}
			}
			// histories: the same Msg objects are sent again over a fault-free connection
			for rot := 0; rot < c03NShapes; rot++ {
				b := 1
				if r.Thorough {
					b = 2
				}
				jobs = append(jobs, job{c03Cfg{M: 1, Rot: rot, Resend: true}, b + 1}, job{c03Cfg{M: 2, Rot: rot, Resend: true}, b})
				jobs = append(jobs, job{c03Cfg{M: 2, Rot: rot, Resend: true, ResendNoRcpt: true}, 1})
				jobs = append(jobs, job{c03Cfg{M: 2, Rot: rot, Presend: true}, b}, job{c03Cfg{M: 3, Rot: rot, Presend: true}, 1})
				jobs = append(jobs, job{c03Cfg{M: 2, Rot: rot, TLS: true}, 1}, job{c03Cfg{M: 1, Rot: rot, TLS: true}, b})
				for api := 1; api <= 3; api++ {
					jobs = append(jobs, job{c03Cfg{M: 2, Rot: rot, API: api}, b}, job{c03Cfg{M: 1, Rot: rot, API: api, NoOp: true}, b}, job{c03Cfg{M: 2, Rot: rot, API: api, Resend: api == 1}, 1})
				}
			}
			if !r.Thorough {
				// quick still covers batches of 3 at bound 1
				for rot := 0; rot < c03NShapes; rot++ {
					jobs = append(jobs, job{c03Cfg{M: 3, Rot: rot}, 1})
				}
			}
			r.Extra("deviation_bound", bound)
			r.Extra("configurations", len(jobs))
			for _, j := range jobs {
				j := j
				vf.Explore(r, j.bound, fmt.Sprintf("C03 %+v", j.cfg), func(c *vf.Chooser) {
					keys, whats := c03Exec(r, j.cfg, c)
					r.TraceValidated()
					r.Eval(vf.Hash(fmt.Sprintf("%+v", j.cfg), fmt.Sprint(c.Picks)), true)
					kase := c03Case{Cfg: j.cfg, Prefix: append([]int{}, c.Picks...)}
					if len(keys) == 0 {
						r.Outcome("faithful")
					} else {
						r.Outcome("unfaithful")
					}
					if r.NSamples() < 5 && c.Deviations() == j.bound {
						r.Sample(map[string]interface{}{"cfg": j.cfg, "script": c.Describe(c03Describe)})
					}
					for i, k := range keys {
						k := k
						r.Violation(k, whats[i]+" — faults/replies: "+c.Describe(c03Describe)+fmt.Sprintf(" cfg=%+v", j.cfg), kase, func() string {
							ks, _ := c03Exec(r, j.cfg, vf.NewChooser(kase.Prefix))
							for _, x := range ks {
								if x == k {
									return k
								}
							}
							return ""
						})
					}
				})
			}
			// concurrent Send calls on ONE established connection: every interleaving of two callers at the visible
			// operations (mutexes, connection I/O) up to 2 preemptions under the cooperative scheduler of C13; the oracle is
			// this property's: what the server commits are complete messages, each at most once, IsDelivered tells the truth
			for _, scn := range []c13Scn{{Name: "2xSend(1)", Senders: 2, PerCall: 1}, {Name: "2xSend(2)", Senders: 2, PerCall: 2}} {
				scn := scn
				b := 2
				if scn.PerCall > 1 && !r.Thorough {
					b = 1
				}
				// (one worker: the cooperative scheduler owns process-wide state, executions must not overlap)
				vf.ExploreN(r, 1, b, "C03 concurrent "+scn.Name, func(c *vf.Chooser) {
					fs, _, _ := c13Exec(r, scn, c)
					if c.Silent {
						return
					}
					r.TraceValidated()
					r.Eval(vf.Hash("concurrent", scn.Name, fmt.Sprint(c.Picks)), c.Deviations() > 0)
					r.Outcome("reached/concurrent-senders")
					kase := c03Case{Cfg: c03Cfg{M: -scn.PerCall}, Prefix: append([]int{}, c.Picks...)}
					for _, f := range fs {
						f := f
						key := "concurrent-senders/" + f.key
						r.Violation(key, f.what+" — two goroutines calling Send on one connection ("+scn.Name+"), schedule deviations: "+c.Describe(nil), kase, func() string {
							xs, _, _ := c13Exec(r, scn, vf.NewChooser(kase.Prefix))
							for _, x := range xs {
								if x.key == f.key {
									return key
								}
							}
							return ""
						})
					}
				})
			}
			r.Reached("reached/concurrent-senders", "reached/own-connection-alive-after-foreign-send")
			r.Reached("reached/transport-failure-class-1", "reached/transport-failure-class-2", "reached/transport-failure-class-3", "reached/transport-failure-class-4", "reached/transport-failure-class-5", "reached/transport-failure-class-6",
				"reached/signing-failure", "reached/producer-failure", "reached/commit", "reached/resend-committed-all", "reached/resend-after-transport-failure", "reached/resend-refused-locally", "reached/delivered-before-the-judged-send")
		},
		Replay: func(r *vf.Run, kase json.RawMessage) {
			var k c03Case
			if err := json.Unmarshal(kase, &k); err != nil {
				r.HarnessError("bad case: %v", err)
				return
			}
			if k.Cfg.M < 0 {
				scn := c13Scn{Name: fmt.Sprintf("2xSend(%d)", -k.Cfg.M), Senders: 2, PerCall: -k.Cfg.M}
				fs, _, _ := c13Exec(r, scn, vf.NewChooser(k.Prefix))
				r.Eval(1, true)
				for _, f := range fs {
					fmt.Printf("  -> concurrent-senders/%s: %s\n", f.key, f.what)
					r.Violation("concurrent-senders/"+f.key, f.what, k, nil)
				}
				return
			}
			c := vf.NewChooser(k.Prefix)
			keys, whats := c03Exec(r, k.Cfg, c)
			r.Eval(1, true)
			fmt.Printf("  cfg=%+v faults/replies=%s\n", k.Cfg, c.Describe(c03Describe))
			for i, key := range keys {
				fmt.Printf("  -> %s: %s\n", key, whats[i])
				r.Violation(key, whats[i], k, nil)
			}
		},
	})
}
