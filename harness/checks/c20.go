package checks

import (
	"context"
	"encoding/json"
	"errors"
	"fmt"
	"sort"
	"strings"

	mail "github.com/wneessen/go-mail"

	"verif/hx"
	"verif/refsmtp"
	"verif/vf"
)

// C20 — SendError reflects the server's verdict.

type c20Fail struct {
	Msg   int    `json:"msg"`  // message index (0-based)
	Pos   string `json:"pos"`  // MAIL RCPT DATA EOD RSET
	Mask  int    `json:"mask"` // for RCPT: bit j set = recipient j rejected
	Code  int    `json:"code"`
	Code2 int    `json:"code2"` // RCPT: code of the *other* rejected recipients (0 = same)
	Text  int    `json:"text"`  // text kind
	// SD: "subject.detail" of the enhanced code the reply text carries ("" = "7.<last digit of the code>")
	SD string `json:"sd,omitempty"`
}

type c20Case struct {
	ESC   bool      `json:"esc"`
	M     int       `json:"m"`
	R     int       `json:"r"`
	Fails []c20Fail `json:"fails"`
	// Resend: after the Send with the scripted failures, the same messages are sent again on a fresh connection to
	// a server that accepts everything; the verdict must then be that of the second call
	Resend bool `json:"resend,omitempty"`
	// Pool: the messages are sent with SendWithSMTPClient on a connection obtained from DialToSMTPClientWithContext;
	// AFTER that dial the same Client dialled a second connection to a server that advertises the OPPOSITE of ESC
	// (a Client that keeps several connections): what is reported must follow the connection the message was sent on
	Pool bool `json:"pool,omitempty"`
	// TLS: the session runs over STARTTLS (real handshake); the EHLO reply BEFORE the handshake advertises the OPPOSITE
	// of ESC, the one inside TLS is the one that counts
	TLS bool `json:"tls,omitempty"`
	// Addr: the form of the envelope addresses on the messages: 0 = plain dot-atoms; 1 = quoted local parts holding a
	// blank; 2 = holding a double quote; 3 = holding a backslash; 4 = with display names; 5 = UTF-8 local parts
	Addr int `json:"addr,omitempty"`
}

// c20Addr returns what the caller hands to the setter and the mailbox that denotes.
func c20Addr(form int, who string, i, j int) (input, mailbox string) {
	dom := map[string]string{"m": "snd.example", "r": "rcp.example"}[who]
	plain := ""
	if who == "m" {
		plain = hx.Sender(i)
	} else {
		plain = hx.Rcpt(i, j)
	}
	switch form {
	case 1:
		return fmt.Sprintf(`"%s%d %d"@%s`, who, i, j, dom), fmt.Sprintf(`%s%d %d@%s`, who, i, j, dom)
	case 2:
		return fmt.Sprintf(`"%s%d\"%d"@%s`, who, i, j, dom), fmt.Sprintf(`%s%d"%d@%s`, who, i, j, dom)
	case 3:
		return fmt.Sprintf(`"%s%d\\%d"@%s`, who, i, j, dom), fmt.Sprintf(`%s%d\%d@%s`, who, i, j, dom)
	case 4:
		return fmt.Sprintf(`"Doe; John (%d)" <%s>`, j, plain), plain
	case 5:
		return fmt.Sprintf(`%sü%d-%d@%s`, who, i, j, dom), fmt.Sprintf(`%sü%d-%d@%s`, who, i, j, dom)
	}
	return plain, plain
}

var c20TextNames = []string{"esc-at-start", "plain", "triple-inside", "multiline-esc", "esc-not-at-start", "esc-then-percent-verbs", "bare-esc-without-text", "esc-and-one-character"}

func c20Text(kind, code int, sd ...string) (lines []string, leadESC string) {
	cls := code / 100
	esc := fmt.Sprintf("%d.7.%d", cls, code%10)
	if len(sd) > 0 && sd[0] != "" {
		esc = fmt.Sprintf("%d.%s", cls, sd[0])
	}
	switch kind {
	case 0:
		return []string{esc + " mailbox unavailable"}, esc
	case 1:
		return []string{"mailbox unavailable"}, ""
	case 2:
		return []string{"relay from 10.4.7.1 denied by 172.5.1.9"}, ""
	case 3:
		return []string{esc + " first line", esc + " second line"}, esc
	case 6:
		return []string{esc}, esc
	case 7:
		return []string{esc + " x"}, esc
	case 5:
		return []string{esc + " quota 100% used (%s %d %v %!x) for <user%domain@example>"}, esc
	default:
		return []string{"rejected: see " + esc + " for details"}, ""
	}
}

type c20Expect struct {
	failed bool
	reason mail.SendErrReason
	code   int
	esc    string
	rcpts  []string
}

func c20Exec(r *vf.Run, k c20Case) (keys, whats []string) {
	add := func(key, what string) { keys = append(keys, key); whats = append(whats, what) }
	caps := []string{"8BITMIME"}
	if k.Addr == 5 {
		caps = append(caps, "SMTPUTF8")
	}
	if k.ESC {
		caps = append(caps, "ENHANCEDSTATUSCODES")
	}
	sess := &refsmtp.Session{Host: hx.Host, Caps: caps}
	if k.TLS {
		pre := []string{"8BITMIME", "STARTTLS"}
		if !k.ESC {
			pre = append(pre, "ENHANCEDSTATUSCODES")
		}
		sess.Caps, sess.CapsTLS = pre, caps
	}
	over := map[string]refsmtp.Action{}
	exp := make([]c20Expect, k.M)
	collateralFrom := k.M // messages from this index on fail because the connection was given up
	// transaction numbers: message i is transaction i+1 unless an earlier message was refused locally (never here)
	fails := append([]c20Fail{}, k.Fails...)
	sort.SliceStable(fails, func(a, b int) bool { return fails[a].Pos != "RSET" && fails[b].Pos == "RSET" })
	for _, f := range fails {
		txn := f.Msg + 1
		mk := func(code int) refsmtp.Action {
			lines, _ := c20Text(f.Text, code, f.SD)
			return refsmtp.Action{Kind: refsmtp.ActReply, Code: code, Text: lines, NoTag: f.Text >= 6}
		}
		_, lead := c20Text(f.Text, f.Code, f.SD)
		e := &exp[f.Msg]
		switch f.Pos {
		case "MAIL":
			over[fmt.Sprintf("MAIL#%d", txn)] = mk(f.Code)
			*e = c20Expect{failed: true, reason: mail.ErrSMTPMailFrom, code: f.Code, esc: lead}
		case "RCPT":
			last := 0
			for j := 0; j < k.R; j++ {
				if f.Mask&(1<<j) != 0 {
					code := f.Code
					if f.Code2 != 0 && j != highestBit(f.Mask) {
						code = f.Code2
					}
					over[fmt.Sprintf("RCPT#%d.%d", txn, j+1)] = mk(code)
					_, mbox := c20Addr(k.Addr, "r", f.Msg, j)
					e.rcpts = append(e.rcpts, mbox)
					last = code
				}
			}
			_, lead = c20Text(f.Text, last, f.SD)
			e.failed, e.reason, e.code, e.esc = true, mail.ErrSMTPRcptTo, last, lead
		case "DATA":
			over[fmt.Sprintf("DATA#%d", txn)] = mk(f.Code)
			*e = c20Expect{failed: true, reason: mail.ErrSMTPData, code: f.Code, esc: lead}
		case "EOD":
			over[fmt.Sprintf("EOD#%d", txn)] = mk(f.Code)
			*e = c20Expect{failed: true, reason: mail.ErrSMTPDataClose, code: f.Code, esc: lead}
		case "RSET":
			if e.failed {
				// the clean-up RSET after a refused MAIL/RCPT/DATA is refused as well: the verdict stays that of the
				// first failure; the connection is given up, so the remaining messages of the batch are collateral
				collateralFrom = f.Msg + 1
			} else {
				// the RSET that follows the successful delivery of message f.Msg
				*e = c20Expect{failed: true, reason: mail.ErrSMTPReset, code: f.Code, esc: lead}
			}
		}
	}
	// RSET positions depend on how many RSETs earlier messages caused; resolve dynamically
	rsetFor := map[int]refsmtp.Action{}
	for _, f := range k.Fails {
		if f.Pos == "RSET" {
			lines, _ := c20Text(f.Text, f.Code, f.SD)
			rsetFor[f.Msg+1] = refsmtp.Action{Kind: refsmtp.ActReply, Code: f.Code, Text: lines, NoTag: f.Text >= 6}
		}
	}
	base := posScript(over)
	sess.Script = func(s *refsmtp.Session, ev *refsmtp.Event, def refsmtp.Action) refsmtp.Action {
		if ev.Verb == "RSET" {
			if a, ok := rsetFor[ev.Txn]; ok {
				return a
			}
		}
		return base(s, ev, def)
	}
	if !k.ESC {
		for i := range exp {
			exp[i].esc = ""
		}
	}
	conn := refsmtp.NewConn(sess)
	conn.TLSConfig = hx.ServerTLS(hx.Mat().Good)
	otherCaps := []string{"8BITMIME"}
	if !k.ESC {
		otherCaps = append(otherCaps, "ENHANCEDSTATUSCODES")
	}
	other := refsmtp.NewConn(&refsmtp.Session{Host: hx.Host, Caps: otherCaps})
	rig := &hx.Rig{Mk: func(n int) *refsmtp.Conn {
		if n == 1 && k.Pool {
			return other
		}
		if n > 0 {
			return nil
		}
		return conn
	}}
	pol := mail.NoTLS
	if k.TLS {
		pol = mail.TLSMandatory
	}
	cl, err := mail.NewClient(hx.Host, mail.WithDialContextFunc(rig.Dial), mail.WithHELO("client.example.test"), mail.WithTLSPolicy(pol), mail.WithTLSConfig(hx.ClientTLS(hx.Host)))
	if err != nil {
		r.HarnessError("C20 NewClient: %v", err)
		return
	}
	msgs := make([]*mail.Msg, k.M)
	for i := range msgs {
		msgs[i] = hx.StdMsg(i, k.R, mail.EncodingQP)
		if k.Addr != 0 {
			in, _ := c20Addr(k.Addr, "m", i, 0)
			if err := msgs[i].From(in); err != nil {
				r.HarnessError("C20 sender %q: %v", in, err)
				return
			}
			var tos []string
			for j := 0; j < k.R; j++ {
				in, _ := c20Addr(k.Addr, "r", i, j)
				tos = append(tos, in)
			}
			if err := msgs[i].To(tos...); err != nil {
				r.HarnessError("C20 recipients %q: %v", tos, err)
				return
			}
		}
	}
	var sendErr error
	pan, pw := vf.Guard(func() {
		if k.Pool {
			first, err := cl.DialToSMTPClientWithContext(context.Background())
			if err != nil {
				r.HarnessError("C20 dial failed on the all-success prefix: %v", err)
				return
			}
			second, err := cl.DialToSMTPClientWithContext(context.Background())
			if err != nil {
				r.HarnessError("C20 second dial failed: %v", err)
				return
			}
			sendErr = cl.SendWithSMTPClient(first, msgs...)
			_ = cl.CloseWithSMTPClient(first)
			_ = cl.CloseWithSMTPClient(second)
			r.Outcome("reached/sent-on-the-first-of-two-connections")
			return
		}
		if err := cl.DialWithContext(context.Background()); err != nil {
			r.HarnessError("C20 dial failed on the all-success prefix: %v", err)
			return
		}
		sendErr = cl.Send(msgs...)
		_ = cl.Close()
	})
	if pan {
		add("panic/"+vf.PanicSite(pw), pw)
		return
	}
	protoStates(r, sess.Transcript)
	nFailed := 0
	for i, m := range msgs {
		e := exp[i]
		pos := "none"
		tk := ""
		for _, f := range k.Fails {
			if f.Msg == i && (pos == "none" || f.Pos != "RSET") {
				pos = f.Pos
				tk = c20TextNames[f.Text]
				r.Outcome("reached/text-kind/" + tk)
			}
		}
		for _, f := range k.Fails {
			if f.Msg == i && f.Pos == "RSET" && pos != "RSET" {
				pos += "+RSET-refused"
			}
		}
		cls := fmt.Sprintf("%dyz", e.code/100)
		if i >= collateralFrom {
			nFailed++
			if !m.HasSendError() {
				add("collateral-message-without-error", fmt.Sprintf("message %d was sent after the connection had been given up but reports no error", i))
			}
			if m.IsDelivered() {
				add("collateral-message-delivered", fmt.Sprintf("message %d reports delivery after the connection had been given up", i))
			}
			continue
		}
		if !e.failed {
			if m.HasSendError() {
				add("unaffected-message-has-error", fmt.Sprintf("message %d was not affected by any failing reply but reports %v", i, m.SendError()))
			}
			if !m.IsDelivered() {
				add("unaffected-message-not-delivered", fmt.Sprintf("message %d was accepted by the server but IsDelivered()==false", i))
			}
			continue
		}
		nFailed++
		if !m.HasSendError() {
			add("failed-message-without-error/pos="+pos, fmt.Sprintf("message %d got %d at %s but reports no SendError", i, e.code, pos))
			continue
		}
		var se *mail.SendError
		if !errors.As(m.SendError(), &se) {
			add("senderror-type/pos="+pos, fmt.Sprintf("Msg.SendError() of message %d is %T", i, m.SendError()))
			continue
		}
		if se.Reason != e.reason {
			add(fmt.Sprintf("reason/pos=%s", pos), fmt.Sprintf("message %d failed at %s with %d but Reason is %q", i, pos, e.code, se.Reason.String()))
		}
		if se.ErrorCode() != e.code {
			add(fmt.Sprintf("code/pos=%s/%s", pos, cls), fmt.Sprintf("message %d failed at %s with %d but ErrorCode()=%d", i, pos, e.code, se.ErrorCode()))
		}
		if se.IsTemp() != (e.code/100 == 4) {
			add(fmt.Sprintf("temp/pos=%s/%s", pos, cls), fmt.Sprintf("message %d failed at %s with %d but IsTemp()=%v", i, pos, e.code, se.IsTemp()))
		}
		if m.SendErrorIsTemp() != (e.code/100 == 4) {
			add(fmt.Sprintf("msg-temp/pos=%s/%s", pos, cls), fmt.Sprintf("message %d failed at %s with %d but Msg.SendErrorIsTemp()=%v", i, pos, e.code, m.SendErrorIsTemp()))
		}
		if se.EnhancedStatusCode() != e.esc {
			add(fmt.Sprintf("esc/pos=%s/text=%s/advertised=%v", pos, tk, k.ESC), fmt.Sprintf("message %d failed at %s (ENHANCEDSTATUSCODES advertised=%v, reply text kind %s): EnhancedStatusCode()=%q, want %q; error: %v", i, pos, k.ESC, tk, se.EnhancedStatusCode(), e.esc, se))
		}
		// recipients
		var got []string
		txt := se.Error()
		if a := strings.Index(txt, ", affected recipient(s): "); a >= 0 {
			rest := txt[a+len(", affected recipient(s): "):]
			if b := strings.Index(rest, ", affected message ID"); b >= 0 {
				rest = rest[:b]
			}
			got = strings.Split(rest, ", ")
		}
		want := append([]string{}, e.rcpts...)
		sort.Strings(got)
		sort.Strings(want)
		if strings.Join(got, " ") != strings.Join(want, " ") {
			add(fmt.Sprintf("rcpts/pos=%s", pos), fmt.Sprintf("message %d: rejected recipients %v but SendError lists %v", i, want, got))
		}
		if se.Msg() != m {
			add("affected-msg/pos="+pos, fmt.Sprintf("SendError of message %d points at another Msg", i))
		}
		wantDelivered := e.reason == mail.ErrSMTPReset
		if m.IsDelivered() != wantDelivered {
			add(fmt.Sprintf("delivered/pos=%s", pos), fmt.Sprintf("message %d failed at %s: IsDelivered()=%v", i, pos, m.IsDelivered()))
		}
	}
	if k.Resend {
		sess2 := &refsmtp.Session{Host: hx.Host, Caps: caps}
		conn2 := refsmtp.NewConn(sess2)
		rig2 := &hx.Rig{Mk: func(n int) *refsmtp.Conn { return conn2 }}
		cl2, err := mail.NewClient(hx.Host, mail.WithDialContextFunc(rig2.Dial), mail.WithHELO("client.example.test"), mail.WithTLSPolicy(mail.NoTLS))
		if err != nil {
			r.HarnessError("C20 NewClient: %v", err)
			return
		}
		err2 := cl2.DialAndSendWithContext(context.Background(), msgs...)
		if err2 == nil && len(sess2.Commits) == len(msgs) {
			r.Outcome("reached/resend-committed-all")
		}
		if err2 != nil {
			add("resend/error", fmt.Sprintf("re-sending the batch to an accepting server failed: %v", err2))
		}
		for i, m := range msgs {
			if m.HasSendError() {
				add("resend/stale-send-error", fmt.Sprintf("message %d was accepted on the second Send but still reports the SendError of the first: %v", i, m.SendError()))
			}
			if !m.IsDelivered() {
				add("resend/not-delivered", fmt.Sprintf("message %d was accepted on the second Send but IsDelivered()==false", i))
			}
		}
		if len(sess2.Commits) != len(msgs) {
			add("resend/commit-count", fmt.Sprintf("second Send: server committed %d of %d messages", len(sess2.Commits), len(msgs)))
		}
		return
	}
	// joined error: one entry per failed message
	var entries []error
	if sendErr != nil {
		if j, ok := sendErr.(interface{ Unwrap() []error }); ok {
			entries = j.Unwrap()
		} else {
			entries = []error{sendErr}
		}
	}
	if len(entries) != nFailed {
		add("joined-count", fmt.Sprintf("%d messages failed but the joined error has %d entries: %v", nFailed, len(entries), sendErr))
	} else {
		for _, e := range entries {
			var se *mail.SendError
			if !errors.As(e, &se) {
				add("joined-type", fmt.Sprintf("joined entry is %T", e))
				continue
			}
			found := false
			for i, m := range msgs {
				if (exp[i].failed || i >= collateralFrom) && m.SendError() == e {
					found = true
				}
			}
			if !found {
				add("joined-entry-not-a-message-error", fmt.Sprintf("joined entry %v is not the SendError of a failed message", e))
			}
		}
	}
	return
}

func highestBit(m int) int {
	h := 0
	for j := 0; j < 8; j++ {
		if m&(1<<j) != 0 {
			h = j
		}
	}
	return h
}

func init() {
	vf.Register(&vf.Check{
		ID: "C20", Title: "SendError reflects the server's verdict",
		Run: func(r *vf.Run) {
			r.SetRule("every reply code 400..599 × 8 reply-text kinds (enhanced code at start / plain / dotted triple inside / multi-line / enhanced code not at start / text with '%' format verbs / the bare enhanced code without any text / the enhanced code and one character; enhanced codes with every subject/detail field of 1..3 digits from {0,1,7,10,77,100,255|509,999}) × position {MAIL, every non-empty subset of 3 RCPTs (mixed codes), DATA, end-of-data, RSET} × failing message 1..3 of a batch of 3 × ENHANCEDSTATUSCODES advertised or not, plus all pairs of failing messages; plus the same failures in a STARTTLS session whose EHLO replies before and inside TLS differ in ENHANCEDSTATUSCODES; plus the same failures on the first of two connections of one Client (connection-per-caller API) whose servers differ in ENHANCEDSTATUSCODES; the oracle is a reference function of the replies the server actually sent; distinct by case tuple; envelope addresses in 6 forms (dot-atom, quoted local part with blank / double quote / backslash, display names, UTF-8) × every rejected-recipient subset")
			r.Assume("the list of rejected recipients is read from SendError.Error() (no exported accessor)", "a message whose delivery succeeded but whose trailing RSET failed counts as delivered")
			var cases []c20Case
			codes := []int{}
			for c := 400; c < 600; c++ {
				codes = append(codes, c)
			}
			for _, esc := range []bool{true, false} {
				for _, code := range codes {
					for text := 0; text < len(c20TextNames); text++ {
						for msg := 0; msg < 3; msg++ {
							if !r.Thorough && msg != (code+text)%3 {
								continue // quick: rotate the failing message instead of the full product
							}
							for _, pos := range []string{"MAIL", "DATA", "EOD", "RSET"} {
								cases = append(cases, c20Case{ESC: esc, M: 3, R: 3, Fails: []c20Fail{{Msg: msg, Pos: pos, Code: code, Text: text}}})
							}
							for mask := 1; mask < 8; mask++ {
								if !r.Thorough && mask != 1+(code+msg)%7 {
									continue
								}
								other := 0
								if mask&(mask-1) != 0 { // several rejected: earlier ones get the opposite class
									other = 450
									if code < 500 {
										other = 550
									}
								}
								cases = append(cases, c20Case{ESC: esc, M: 3, R: 3, Fails: []c20Fail{{Msg: msg, Pos: "RCPT", Mask: mask, Code: code, Code2: other, Text: text}}})
							}
						}
					}
				}
				// the enhanced code itself: every subject and detail field of one to three digits from a small set
				for _, code := range []int{421, 450, 550, 554} {
					for _, pos := range []string{"MAIL", "RCPT", "DATA", "EOD", "RSET"} {
						for _, sub := range []int{0, 1, 7, 10, 77, 100, 255, 999} {
							for _, det := range []int{0, 1, 7, 10, 77, 100, 509, 999} {
								for _, text := range []int{0, 3, 6, 7} {
									cases = append(cases, c20Case{ESC: esc, M: 3, R: 3, Fails: []c20Fail{{Msg: (sub + det) % 3, Pos: pos, Mask: 1 + (sub+det)%7, Code: code, Text: text, SD: fmt.Sprintf("%d.%d", sub, det)}}})
								}
							}
						}
					}
				}
				// the session over STARTTLS, the EHLO replies before and inside TLS differ in ENHANCEDSTATUSCODES
				for _, code := range []int{421, 450, 550, 554} {
					for _, pos := range []string{"MAIL", "RCPT", "DATA", "EOD", "RSET"} {
						for _, text := range []int{0, 1, 3} {
							cases = append(cases, c20Case{ESC: esc, M: 3, R: 3, TLS: true, Fails: []c20Fail{{Msg: (code + text) % 3, Pos: pos, Mask: 1 + code%7, Code: code, Text: text}}})
						}
					}
				}
				// a Client with two connections whose servers differ in ENHANCEDSTATUSCODES: the message fails on the first
				for _, code := range []int{421, 450, 550, 554} {
					for _, pos := range []string{"MAIL", "RCPT", "DATA", "EOD", "RSET"} {
						for msg := 0; msg < 3; msg++ {
							for _, text := range []int{0, 1, 3} {
								cases = append(cases, c20Case{ESC: esc, M: 3, R: 3, Pool: true, Fails: []c20Fail{{Msg: msg, Pos: pos, Mask: 1 + (code+msg)%7, Code: code, Text: text}}})
							}
						}
					}
				}
				// one message failing twice: MAIL / RCPT / DATA refused and then the clean-up RSET refused with another code
				for _, p1 := range []string{"MAIL", "RCPT", "DATA"} {
					for _, c1 := range []int{421, 450, 451, 550, 552, 554} {
						for _, c2 := range []int{421, 451, 500, 503, 554} {
							for msg := 0; msg < 3; msg++ {
								for text := 0; text < 2; text++ {
									cases = append(cases, c20Case{ESC: esc, M: 3, R: 3, Fails: []c20Fail{{Msg: msg, Pos: p1, Mask: 3, Code: c1, Text: text}, {Msg: msg, Pos: "RSET", Code: c2, Text: 1 - text}}})
								}
							}
						}
					}
				}
				// histories: the failed batch is sent again to an accepting server
				for _, p1 := range []string{"MAIL", "RCPT", "DATA", "EOD", "RSET"} {
					for _, c1 := range []int{451, 550} {
						for msg := 0; msg < 3; msg++ {
							cases = append(cases, c20Case{ESC: esc, M: 3, R: 3, Resend: true, Fails: []c20Fail{{Msg: msg, Pos: p1, Mask: 2, Code: c1, Text: 0}}})
						}
					}
				}
				// other address forms on the messages (quoted local parts, display names, UTF-8): every recipient subset
				for addr := 1; addr <= 5; addr++ {
					for _, pos := range []string{"MAIL", "RCPT", "DATA", "EOD", "RSET"} {
						for mask := 1; mask < 8; mask++ {
							if pos != "RCPT" && mask > 1 {
								continue
							}
							for _, code := range []int{450, 550} {
								for msg := 0; msg < 3; msg++ {
									cases = append(cases, c20Case{ESC: esc, M: 3, R: 3, Addr: addr, Fails: []c20Fail{{Msg: msg, Pos: pos, Mask: mask, Code: code, Code2: 1001 - code, Text: (mask + msg) % 2}}})
								}
							}
						}
					}
				}
				// two failing messages
				poss := []string{"MAIL", "RCPT", "DATA", "EOD", "RSET"}
				for _, p1 := range poss {
					for _, p2 := range poss {
						for _, c1 := range []int{421, 450, 550, 554} {
							for _, c2 := range []int{451, 552} {
								for _, pair := range [][2]int{{0, 1}, {0, 2}, {1, 2}} {
									cases = append(cases, c20Case{ESC: esc, M: 3, R: 3, Fails: []c20Fail{
										{Msg: pair[0], Pos: p1, Mask: 5, Code: c1, Text: 0}, {Msg: pair[1], Pos: p2, Mask: 2, Code: c2, Text: 2}}})
								}
							}
						}
					}
				}
			}
			r.Parallel(len(cases), "C20 cases", func(i int) {
				k := cases[i]
				keys, whats := c20Exec(r, k)
				r.TraceValidated()
				b, _ := json.Marshal(k)
				r.Eval(vf.Hash(string(b)), true)
				if i%9973 == 0 {
					r.Sample(k)
				}
				if len(keys) == 0 {
					r.Outcome("faithful")
				} else {
					r.Outcome("unfaithful")
				}
				for j, key := range keys {
					key := key
					r.Violation(key, whats[j], k, func() string {
						ks, _ := c20Exec(r, k)
						for _, x := range ks {
							if x == key {
								return key
							}
						}
						return ""
					})
				}
			})
			r.Reached("reached/resend-committed-all", "reached/sent-on-the-first-of-two-connections")
			for _, n := range c20TextNames {
				r.Reached("reached/text-kind/" + n)
			}
		},
		Replay: func(r *vf.Run, kase json.RawMessage) {
			var k c20Case
			if err := json.Unmarshal(kase, &k); err != nil {
				r.HarnessError("bad case: %v", err)
				return
			}
			keys, whats := c20Exec(r, k)
			r.Eval(1, true)
			for i, key := range keys {
				fmt.Printf("  -> %s: %s\n", key, whats[i])
				r.Violation(key, whats[i], k, nil)
			}
		},
	})
}
