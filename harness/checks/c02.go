package checks

import (
	"bytes"
	"encoding/json"
	"fmt"
	"io"
	"net/textproto"
	"sort"
	"strings"

	mail "github.com/wneessen/go-mail"

	"verif/hx"
	"verif/mimeread"
	"verif/vf"
)

// C02 — no caller-supplied text can alter the header block.

type c02Case struct {
	Setter  int    `json:"setter"`
	Value   []byte `json:"value"`
	Shape   int    `json:"shape"`   // 0 single part, 1 alternative, 2 mixed+related
	B       bool   `json:"b"`       // header encoder B (message encoding base64) instead of Q
	Setter2 int    `json:"setter2"` // -1 = none
	Value2  []byte `json:"value2,omitempty"`
	// Late (file / part setters only): the message is first built with a benign value and rendered once; the value
	// is then applied to the existing File / Part objects (options called on the *File, Part setters) and the message
	// is rendered again — that second rendering is the one judged (structure only: whether a late option takes
	// effect at all is not this property's business)
	Late bool `json:"late,omitempty"`
	// Charset: message charset set with WithCharset ("" = the default UTF-8). With another charset the value round
	// trip is only judged for 7-bit values (what an encoded-word labelled US-ASCII with 8-bit content means is open)
	Charset string `json:"charset,omitempty"`
	// MEnc: message encoding other than QP / base64 ("8bit" = NoEncoding, "usascii" = 7bit): the header encoder then
	// is neither the Q nor the B encoder the caller picked
	MEnc string `json:"menc,omitempty"`
	// Field: the field name handed to SetGenHeader / SetHeader (default X-Custom / X-Alias)
	Field string `json:"field,omitempty"`
	// Only: the part / file description (and Content-ID) is given to 0 = every part or file, 1 = only the first one,
	// 2 = only the last one (the message then has three body parts and two files of each kind)
	Only int `json:"only,omitempty"`
	// Multi (generic setters): the field is set with several values — 1 = ("", v), 2 = ("first value", v),
	// 3 = (v, ""), 4 = ("", "", v, "last"); judged by the differential oracle only (same field names, bodies unchanged)
	Multi int `json:"multi,omitempty"`
}

func c02MultiValues(multi int, v string) []string {
	switch multi {
	case 1:
		return []string{"", v}
	case 2:
		return []string{"first value", v}
	case 3:
		return []string{v, ""}
	case 4:
		return []string{"", "", v, "last"}
	}
	return []string{v}
}

// c02GenFields: go-mail's Header constants that have no setter of their own, plus two registered names without constant.
var c02GenFields = []string{"In-Reply-To", "References", "List-Unsubscribe", "List-Unsubscribe-Post", "Precedence", "Importance", "Priority", "X-Priority",
	"X-MSMail-Priority", "X-Auto-Response-Suppress", "Content-Language", "Content-Location", "X-Mailer", "Keywords", "Comments"}

var c02Setters = []string{"subject", "gen-header", "from-name", "to-name", "cc-name", "replyto-name", "message-id", "organization", "user-agent",
	"attachment-name", "embed-name", "file-description", "part-description", "content-id", "mdn-name", "mdn-add-name", "set-header-alias"}

// c02Apply builds the message of the given shape and applies the setter(s). It returns the first setter error.
func c02Build(shape int, b bool, sets [][2]interface{}, late bool, charset string, menc ...string) (*mail.Msg, error) {
	lateSets := sets
	if late {
		// first the benign state, rendered once
		var bs [][2]interface{}
		for _, x := range sets {
			bs = append(bs, [2]interface{}{x[0], []byte("benign first value")})
		}
		sets = bs
	}
	enc := mail.EncodingQP
	if b {
		enc = mail.EncodingB64
	}
	genField, aliasField := "X-Custom", "X-Alias"
	if len(menc) > 1 && menc[1] != "" {
		genField, aliasField = menc[1], menc[1]
	}
	multi := 0
	if len(menc) > 3 && menc[3] != "" {
		multi = int(menc[3][0] - '0')
	}
	only := 0
	if len(menc) > 2 && menc[2] != "" {
		only = int(menc[2][0] - '0')
	}
	if len(menc) > 0 {
		switch menc[0] {
		case "8bit":
			enc = mail.NoEncoding
		case "usascii":
			enc = mail.EncodingUSASCII
		}
	}
	mo := []mail.MsgOption{mail.WithEncoding(enc)}
	if charset != "" {
		mo = append(mo, mail.WithCharset(mail.Charset(charset)))
	}
	m := mail.NewMsg(mo...)
	m.SetDateWithValue(hx.T0)
	m.SetMessageIDWithValue("fixed.id@harness.example")
	_ = m.From("sender@snd.example")
	_ = m.To("rcpt@rcp.example")
	m.Subject("benign subject")
	val := func(id int) (string, bool) {
		for _, s := range sets {
			if s[0].(int) == id {
				return string(s[1].([]byte)), true
			}
		}
		return "", false
	}
	var err error
	note := func(e error) {
		if e != nil && err == nil {
			err = e
		}
	}
	if v, ok := val(0); ok {
		m.Subject(v)
	}
	if v, ok := val(1); ok {
		m.SetGenHeader(mail.Header(genField), c02MultiValues(multi, v)...)
	}
	if v, ok := val(16); ok {
		m.SetHeader(mail.Header(aliasField), c02MultiValues(multi, v)...) // the deprecated alias of SetGenHeader
	}
	if v, ok := val(2); ok {
		note(m.FromFormat(v, "sender@snd.example"))
	}
	if v, ok := val(3); ok {
		note(m.AddToFormat(v, "second@rcp.example"))
	}
	if v, ok := val(4); ok {
		note(m.AddCcFormat(v, "cc@rcp.example"))
	}
	if v, ok := val(5); ok {
		note(m.ReplyToFormat(v, "reply@snd.example"))
	}
	if v, ok := val(6); ok {
		m.SetMessageIDWithValue(v)
	}
	if v, ok := val(7); ok {
		m.SetOrganization(v)
	}
	if v, ok := val(8); ok {
		m.SetUserAgent(v)
	}
	if v, ok := val(14); ok {
		note(m.RequestMDNToFormat(v, "mdn@snd.example"))
	}
	if v, ok := val(15); ok {
		note(m.RequestMDNTo("first@snd.example"))
		note(m.RequestMDNAddToFormat(v, "mdn@snd.example"))
	}
	var po []mail.PartOption
	if v, ok := val(12); ok {
		po = append(po, mail.WithPartContentDescription(v))
	}
	poFor := func(i, n int) []mail.PartOption {
		if only == 0 || (only == 1 && i == 0) || (only == 2 && i == n-1) {
			return po
		}
		return nil
	}
	if shape < 3 && only != 0 {
		m.SetBodyString(mail.TypeTextPlain, "plain body\r\n", poFor(0, 3)...)
		m.AddAlternativeString(mail.TypeTextHTML, "<p>html body</p>\r\n", poFor(1, 3)...)
		m.AddAlternativeString(mail.ContentType("text/x-amp-html"), "<p>third body</p>\r\n", poFor(2, 3)...)
	} else {
		if shape < 3 {
			m.SetBodyString(mail.TypeTextPlain, "plain body\r\n", po...)
		}
		if shape >= 1 && shape < 3 {
			m.AddAlternativeString(mail.TypeTextHTML, "<p>html body</p>\r\n", po...)
		}
	}
	prod := func(content string) *mail.File {
		return &mail.File{Header: textproto.MIMEHeader{}, Writer: producer2([]byte(content))}
	}
	needFiles := shape >= 2
	for _, id := range []int{9, 10, 11, 13} {
		if _, ok := val(id); ok {
			needFiles = true
		}
	}
	if needFiles {
		att := prod("attachment content")
		att.Name = "att.bin"
		if v, ok := val(9); ok {
			att.Name = v
		}
		if v, ok := val(11); ok {
			att.Desc = v
		}
		emb := prod("embed content")
		emb.Name = "emb.png"
		if v, ok := val(10); ok {
			emb.Name = v
		}
		if v, ok := val(13); ok {
			mail.WithFileContentID(v)(emb)
		}
		if v, ok := val(11); ok {
			emb.Desc = v
		}
		switch shape {
		case 3: // nothing but one attachment: its headers are the top-level headers of the message
			if v, ok := val(13); ok {
				mail.WithFileContentID(v)(att)
			}
			m.SetAttachments([]*mail.File{att})
		case 4: // nothing but one embed
			m.SetEmbeds([]*mail.File{emb})
		default:
			if only != 0 {
				// two files of each kind; the attribute goes to the first or to the last of each kind only
				att2, emb2 := prod("second attachment"), prod("second embed")
				att2.Name, emb2.Name = "att2.bin", "emb2.png"
				att2.Desc, emb2.Desc = att.Desc, emb.Desc
				if v, ok := val(13); ok {
					mail.WithFileContentID(v)(emb2)
				}
				strip := func(f *mail.File) {
					f.Desc = ""
					f.Header.Del("Content-ID")
				}
				if only == 1 {
					strip(att2)
					strip(emb2)
				} else {
					strip(att)
					strip(emb)
				}
				m.SetAttachments([]*mail.File{att, att2})
				m.SetEmbeds([]*mail.File{emb, emb2})
				break
			}
			m.SetAttachments([]*mail.File{att})
			m.SetEmbeds([]*mail.File{emb})
		}
	}
	if late {
		_, _ = m.WriteTo(io.Discard)
		lval := func(id int) (string, bool) {
			for _, s := range lateSets {
				if s[0].(int) == id {
					return string(s[1].([]byte)), true
				}
			}
			return "", false
		}
		for _, f := range append(append([]*mail.File{}, m.GetAttachments()...), m.GetEmbeds()...) {
			if v, ok := lval(11); ok {
				mail.WithFileDescription(v)(f)
			}
		}
		for _, f := range m.GetAttachments() {
			if v, ok := lval(9); ok {
				mail.WithFileName(v)(f)
			}
		}
		for _, f := range m.GetEmbeds() {
			if v, ok := lval(10); ok {
				mail.WithFileName(v)(f)
			}
			if v, ok := lval(13); ok {
				mail.WithFileContentID(v)(f)
			}
		}
		if v, ok := lval(12); ok {
			for _, p := range m.GetParts() {
				p.SetDescription(v)
			}
		}
	}
	return m, err
}

func producer2(content []byte) func(w io.Writer) (int64, error) {
	return func(w io.Writer) (int64, error) {
		n, err := w.Write(content)
		return int64(n), err
	}
}

type c02Section struct {
	names []string
	ent   *mimeread.Entity
}

func c02Sections(e *mimeread.Entity, out *[]c02Section) {
	var n []string
	for _, f := range e.Fields {
		n = append(n, strings.ToLower(f.Name))
	}
	sort.Strings(n)
	*out = append(*out, c02Section{n, e})
	for _, c := range e.Children {
		c02Sections(c, out)
	}
}

func normWS(s string) string {
	return strings.Join(strings.FieldsFunc(s, func(r rune) bool { return r == ' ' || r == '\t' || r == '\r' || r == '\n' }), " ")
}

// valueClass names the most dangerous ingredient of a value (part of finding keys).
func valueClass(v []byte) string {
	s := string(v)
	switch {
	case strings.ContainsAny(s, "\r\n"):
		return "CR/LF"
	case strings.ContainsRune(s, 0):
		return "NUL"
	case strings.IndexFunc(s, func(r rune) bool { return r < 32 || r == 127 }) >= 0:
		return "control"
	case strings.HasPrefix(s, "=?") && strings.HasSuffix(s, "?=") && strings.IndexFunc(s, func(r rune) bool { return r >= 128 }) < 0:
		// printable ASCII that as a whole looks like an encoded-word (whatever else it contains)
		return "encoded-word-lookalike"
	case strings.Contains(s, `\`):
		return "backslash"
	case strings.Contains(s, `"`):
		return "dquote"
	case strings.IndexFunc(s, func(r rune) bool { return r >= 128 }) >= 0:
		return "non-ascii"
	case strings.Contains(s, "=?") && strings.Contains(s, "?="):
		return "encoded-word-lookalike"
	case strings.ContainsAny(s, "<>:;=?@,()[]"):
		return "specials"
	case len(s) > 70:
		return "long"
	case strings.TrimSpace(s) != s || strings.Contains(s, "  "):
		return "blanks"
	case s == "":
		return "empty"
	}
	return "plain"
}

// parseNameAddr extracts the display name of the single address whose addr-spec is given from an address list value.
func parseDisplayName(fieldValue, addr string) (string, error) {
	i := strings.Index(fieldValue, "<"+addr+">")
	if i < 0 {
		return "", fmt.Errorf("address <%s> not found in %q", addr, fieldValue)
	}
	pre := fieldValue[:i]
	// the display name starts after the previous address's ">," if any
	if j := strings.LastIndex(pre, ">,"); j >= 0 {
		// careful: ">," could be inside a quoted string; scan quotes
		inq := false
		cut := -1
		for k := 0; k < len(pre); k++ {
			switch {
			case pre[k] == '\\' && inq:
				k++
			case pre[k] == '"':
				inq = !inq
			case pre[k] == ',' && !inq:
				cut = k
			}
		}
		if cut >= 0 {
			pre = pre[cut+1:]
		}
	}
	pre = strings.TrimSpace(pre)
	if pre == "" {
		return "", nil
	}
	if pre[0] == '"' {
		var b strings.Builder
		k := 1
		closed := false
		for k < len(pre) {
			c := pre[k]
			if c == '\\' && k+1 < len(pre) {
				b.WriteByte(pre[k+1])
				k += 2
				continue
			}
			if c == '"' {
				closed = true
				k++
				break
			}
			b.WriteByte(c)
			k++
		}
		if !closed {
			return "", fmt.Errorf("unterminated quoted display name in %q", fieldValue)
		}
		if rest := strings.TrimSpace(pre[k:]); rest != "" {
			return "", fmt.Errorf("text %q between quoted display name and address", rest)
		}
		return b.String(), nil
	}
	return mimeread.DecodeWords(pre)
}

func c02Exec(r *vf.Run, k c02Case) []finding {
	if k.Setter2 >= 0 {
		// a pair is only interesting when each setter alone is fine: report pair-specific findings only
		a := c02Exec(r, c02Case{Setter: k.Setter, Value: k.Value, Shape: k.Shape, B: k.B, Setter2: -1, Charset: k.Charset, MEnc: k.MEnc})
		b := c02Exec(r, c02Case{Setter: k.Setter2, Value: k.Value2, Shape: k.Shape, B: k.B, Setter2: -1, Charset: k.Charset, MEnc: k.MEnc})
		if len(a) > 0 || len(b) > 0 {
			return nil
		}
		fs := c02ExecOne(r, k)
		for i := range fs {
			fs[i].key = "pair/" + c02Setters[k.Setter] + "+" + c02Setters[k.Setter2] + "/" + fs[i].key
		}
		return fs
	}
	fs := c02ExecOne(r, k)
	if k.Late {
		for i := range fs {
			fs[i].key += "/applied-after-a-first-rendering"
		}
	}
	return fs
}

func c02ExecOne(r *vf.Run, k c02Case) []finding {
	var out []finding
	sname := c02Setters[k.Setter]
	add := func(key, f string, a ...interface{}) { out = append(out, finding{key, fmt.Sprintf(f, a...)}) }
	sets := [][2]interface{}{{k.Setter, k.Value}}
	benign := [][2]interface{}{{k.Setter, []byte("benign")}}
	if k.Setter2 >= 0 {
		sets = append(sets, [2]interface{}{k.Setter2, k.Value2})
		benign = append(benign, [2]interface{}{k.Setter2, []byte("benign2")})
	}
	render := func(s [][2]interface{}) ([]byte, error, string) {
		var buf bytes.Buffer
		var serr, werr error
		pan, pw := vf.Guard(func() {
			var m *mail.Msg
			m, serr = c02Build(k.Shape, k.B, s, k.Late, k.Charset, k.MEnc, k.Field, []string{"", "1", "2"}[k.Only], []string{"", "1", "2", "3", "4"}[k.Multi])
			if serr == nil {
				_, werr = m.WriteTo(&buf)
			}
		})
		if pan {
			return nil, nil, pw
		}
		if serr != nil {
			return nil, serr, ""
		}
		if werr != nil {
			return nil, nil, "WriteTo error: " + werr.Error()
		}
		return buf.Bytes(), nil, ""
	}
	ref, rerr, rp := render(benign)
	if rerr != nil || rp != "" {
		r.HarnessError("C02 benign render failed: %v %s", rerr, rp)
		return nil
	}
	raw, serr, p := render(sets)
	vc := valueClass(k.Value)
	if p != "" {
		if strings.HasPrefix(p, "WriteTo error") {
			add("render-error/"+sname+"/"+vc, "%s", p)
		} else {
			add("panic/"+sname+"/"+vf.PanicSite(p), "panic: %s", firstLine(p))
		}
		return out
	}
	if serr != nil {
		return nil // the setter rejected the value: allowed
	}
	re, he := mimeread.Parse(ref), mimeread.Parse(raw)
	var rs, hs []c02Section
	c02Sections(re, &rs)
	c02Sections(he, &hs)
	for _, pr := range he.AllProblems() {
		cls := pr
		if i := strings.IndexAny(cls, "\"%0123456789"); i > 0 {
			cls = strings.TrimSpace(cls[:i])
		}
		add(fmt.Sprintf("malformed-header/%s/%s/%s", sname, strings.ReplaceAll(cls, " ", "-"), vc), "independent reader: %s", pr)
	}
	if len(rs) != len(hs) {
		add(fmt.Sprintf("structure-changed/%s/%s", sname, vc), "the message has %d entities with the hostile value, %d with a benign one (%s vs %s)", len(hs), len(rs), he.Shape(), re.Shape())
		return out
	}
	if normWS(string(k.Value)) == "" {
		// an empty value means "not set": the setter's own field may be absent
		own := map[string]string{"file-description": "content-description", "part-description": "content-description", "subject": "subject",
			"gen-header": "x-custom", "organization": "organization", "content-id": "content-id", "set-header-alias": "x-alias"}[sname]
		if k.Field != "" && (sname == "gen-header" || sname == "set-header-alias") {
			own = strings.ToLower(k.Field)
		}
		strip := func(secs []c02Section) {
			for i := range secs {
				var n []string
				for _, x := range secs[i].names {
					if x != own {
						n = append(n, x)
					}
				}
				secs[i].names = n
			}
		}
		if own != "" {
			strip(rs)
			strip(hs)
		}
	}
	for i := range rs {
		if strings.Join(rs[i].names, ",") != strings.Join(hs[i].names, ",") {
			extra, missing := diffNames(rs[i].names, hs[i].names)
			kind := "fields-changed"
			if len(extra) > 0 && len(missing) == 0 {
				kind = "extra-field"
			} else if len(missing) > 0 && len(extra) == 0 {
				kind = "missing-field"
			}
			add(fmt.Sprintf("%s/%s/%s", kind, sname, vc), "header section %d: extra fields %v, missing fields %v compared with a benign value", i, extra, missing)
		}
		if rs[i].ent.HasBody != hs[i].ent.HasBody {
			add(fmt.Sprintf("separator/%s/%s", sname, vc), "header section %d: header/body separator differs from the benign rendering", i)
		}
	}
	rl, hl := re.Leaves(), he.Leaves()
	for i := range rl {
		if i < len(hl) {
			a, _ := rl[i].DecodeBody()
			b, _ := hl[i].DecodeBody()
			if !bytes.Equal(a, b) {
				add(fmt.Sprintf("body-changed/%s/%s", sname, vc), "leaf %d: body differs from the benign rendering (premature end of headers?): %q", i, clipb(b, 60))
			}
		}
	}
	if len(out) > 0 || k.Setter2 >= 0 || k.Late || k.Multi != 0 {
		return out
	}
	if k.Charset != "" && bytes.IndexFunc(k.Value, func(r rune) bool { return r >= 128 }) >= 0 {
		return out
	}
	// value round trip
	want := normWS(string(k.Value))
	chk := func(where, got string, err error, wantS string) {
		if err != nil && vc == "encoded-word-lookalike" {
			// the caller's text was emitted as is and is a (broken) encoded-word to a reader: the look-alike finding
			add(fmt.Sprintf("value-altered/%s/%s", sname, vc), "%s does not decode (%v), the caller set %q", where, err, wantS)
		} else if err != nil {
			add(fmt.Sprintf("undecodable/%s/%s", sname, vc), "%s: %v", where, err)
		} else if normWS(got) != wantS {
			add(fmt.Sprintf("value-altered/%s/%s", sname, vc), "%s decodes to %q, the caller set %q", where, normWS(got), wantS)
		}
	}
	dec := func(v string) (string, error) { return mimeread.DecodeWords(v) }
	findLeaf := func(pred func(e *mimeread.Entity) bool) *mimeread.Entity {
		for _, l := range hl {
			if pred(l) {
				return l
			}
		}
		return nil
	}
	// pick: of the leaves that satisfy pred, the one that carries the attribute (the first, or with Only=2 the last); with
	// Only set, the field must be ABSENT from the others
	pick := func(field string, pred func(e *mimeread.Entity) bool) *mimeread.Entity {
		var ls []*mimeread.Entity
		for _, l := range hl {
			if pred(l) {
				ls = append(ls, l)
			}
		}
		if len(ls) == 0 {
			return nil
		}
		if k.Only == 0 {
			return ls[0]
		}
		own := 0
		if k.Only == 2 {
			own = len(ls) - 1
		}
		for i, l := range ls {
			if i != own && field != "" && len(l.Get(field)) > 0 {
				add(fmt.Sprintf("field-on-another-part/%s", sname), "%s was given to one part only, but leaf %d of %d of that kind carries it as well: %q", field, i+1, len(ls), l.First(field))
			}
		}
		return ls[own]
	}
	isBody := func(e *mimeread.Entity) bool { return e.First("Content-Disposition") == "" }
	switch sname {
	case "subject":
		g, err := dec(he.First("Subject"))
		chk("Subject", g, err, want)
	case "gen-header":
		f := "X-Custom"
		if k.Field != "" {
			f = k.Field
		}
		g, err := dec(he.First(f))
		chk(f, g, err, want)
	case "set-header-alias":
		f := "X-Alias"
		if k.Field != "" {
			f = k.Field
		}
		g, err := dec(he.First(f))
		chk(f, g, err, want)
	case "organization":
		g, err := dec(he.First("Organization"))
		chk("Organization", g, err, want)
	case "user-agent":
		g, err := dec(he.First("User-Agent"))
		chk("User-Agent", g, err, want)
		g, err = dec(he.First("X-Mailer"))
		chk("X-Mailer", g, err, want)
	case "from-name":
		g, err := parseDisplayName(he.First("From"), "sender@snd.example")
		chk("From display name", g, err, want)
	case "to-name":
		g, err := parseDisplayName(he.First("To"), "second@rcp.example")
		chk("To display name", g, err, want)
	case "cc-name":
		g, err := parseDisplayName(he.First("Cc"), "cc@rcp.example")
		chk("Cc display name", g, err, want)
	case "replyto-name":
		g, err := parseDisplayName(he.First("Reply-To"), "reply@snd.example")
		chk("Reply-To display name", g, err, want)
	case "mdn-name", "mdn-add-name":
		g, err := parseDisplayName(he.First("Disposition-Notification-To"), "mdn@snd.example")
		chk("Disposition-Notification-To display name", g, err, want)
	case "message-id":
		if vc == "plain" || vc == "specials" && !strings.ContainsAny(string(k.Value), "<> ") {
			if g := he.First("Message-ID"); g != "<"+string(k.Value)+">" {
				add("value-altered/message-id/"+vc, "Message-ID is %q, the caller set <%s>", g, k.Value)
			}
		}
	case "attachment-name", "embed-name":
		disp := "attachment"
		if sname == "embed-name" {
			disp = "inline"
		}
		l := findLeaf(func(e *mimeread.Entity) bool {
			return strings.HasPrefix(strings.ToLower(e.First("Content-Disposition")), disp)
		})
		if l == nil {
			add("missing-leaf/"+sname+"/"+vc, "no %s leaf found", disp)
			break
		}
		wantN := normWS(sanitizeName(string(k.Value)))
		_, dp, derr := mimeread.ParseParamHeader(l.First("Content-Disposition"))
		if derr != nil {
			add(fmt.Sprintf("bad-parameter/%s/%s", sname, vc), "Content-Disposition %q: %v", l.First("Content-Disposition"), derr)
		}
		g, err := dec(dp["filename"])
		chk("filename parameter", g, err, wantN)
		g, err = dec(l.Params["name"])
		chk("name parameter", g, err, wantN)
	case "file-description":
		l := pick("Content-Description", func(e *mimeread.Entity) bool {
			return strings.HasPrefix(strings.ToLower(e.First("Content-Disposition")), "attachment")
		})
		if l != nil {
			g, err := dec(l.First("Content-Description"))
			chk("Content-Description of the attachment", g, err, want)
		}
		pick("Content-Description", func(e *mimeread.Entity) bool {
			return strings.HasPrefix(strings.ToLower(e.First("Content-Disposition")), "inline")
		})
	case "part-description":
		if k.Only != 0 {
			if l := pick("Content-Description", isBody); l != nil {
				g, err := dec(l.First("Content-Description"))
				chk("Content-Description of the part it was given to", g, err, want)
			}
		} else if len(hl) > 0 {
			g, err := dec(hl[0].First("Content-Description"))
			chk("Content-Description of the first part", g, err, want)
		}
	case "content-id":
		l := pick("", func(e *mimeread.Entity) bool { // (go-mail gives every embed a Content-ID of its own)
			return strings.HasPrefix(strings.ToLower(e.First("Content-Disposition")), "inline")
		})
		if l != nil && (vc == "plain") {
			if g := l.First("Content-ID"); normWS(g) != want {
				add("value-altered/content-id/"+vc, "Content-ID is %q, the caller set %q", g, want)
			}
		}
	}
	return out
}

func diffNames(ref, got []string) (extra, missing []string) {
	cnt := map[string]int{}
	for _, n := range ref {
		cnt[n]++
	}
	for _, n := range got {
		cnt[n]--
	}
	for n, c := range cnt {
		for ; c < 0; c++ {
			extra = append(extra, n)
		}
		for ; c > 0; c-- {
			missing = append(missing, n)
		}
	}
	sort.Strings(extra)
	sort.Strings(missing)
	return
}

var c02Symbols = []string{"\r", "\n", "\x00", "\t", " ", `"`, `\`, "<", ">", ":", ";", "=", "?", "\x80", "\xff", "ü"}

func c02Values(thorough bool) [][]byte {
	var vs [][]byte
	for b := 0; b < 256; b++ {
		vs = append(vs, []byte{byte(b), 'a', 'b', 'c', 'd'}, []byte{'a', 'b', byte(b), 'c', 'd'}, []byte{'a', 'b', 'c', 'd', byte(b)})
	}
	for _, x := range c02Symbols {
		for _, y := range c02Symbols {
			vs = append(vs, []byte("a"+x+y+"b"), []byte(x+y))
			if thorough {
				for _, z := range c02Symbols {
					vs = append(vs, []byte("a"+x+y+z+"b"))
				}
			}
		}
	}
	for _, n := range []int{0, 1, 74, 75, 76, 77, 78, 79, 200, 1000} {
		vs = append(vs, []byte(repeatTo("x", n)), []byte(repeatTo("word ", n)), []byte(repeatTo("ü", n)))
	}
	// values that as a whole look like ONE encoded-word (so that a lenient decoder would call them "already
	// encoded") with the dangerous symbols inside the wrapper
	for _, x := range c02Symbols {
		for _, y := range c02Symbols {
			vs = append(vs, []byte("=?utf-8?q?a"+x+y+"b?="), []byte("=?us-ascii?B?a"+x+y+"b?="))
		}
	}
	vs = append(vs, []byte("=?utf-8?q?hello\r\nX-Injected: yes\r\nX-Rest: ?="), []byte("=?iso-8859-1?q?x\r\n\r\ninjected body?="), []byte("=?utf-8?b?eA==\r\nBcc: evil@example.com\r\nX: ?="))
	// runs of blanks: alone, and between words that fill a line (folding decisions around empty "words")
	for _, k := range []int{2, 3, 10, 60, 70, 71, 72, 73, 74, 75, 76, 77, 78, 79, 80, 150, 300} {
		sp := strings.Repeat(" ", k)
		vs = append(vs, []byte(sp), []byte("a"+sp+"b"), []byte(sp+"b"), []byte("a"+sp))
	}
	for _, a := range []int{1, 30, 60, 68, 69, 70, 71, 72, 73, 74, 75, 76, 80} {
		for _, b := range []int{1, 30, 70, 71, 72, 73, 74, 75, 76, 80} {
			for _, k := range []int{2, 3, 5} {
				vs = append(vs, []byte(repeatTo("a", a)+strings.Repeat(" ", k)+repeatTo("b", b)))
			}
			vs = append(vs, []byte(repeatTo("a", a)+" \t "+repeatTo("b", b)), []byte(repeatTo("a", a)+"  "+repeatTo("b", b)+"  "+repeatTo("c", a)))
		}
	}
	for a := 40; a <= 90; a++ {
		vs = append(vs, []byte(repeatTo("realistic words in a subject line ", a)+" "), []byte(" "+repeatTo("x", a)), []byte(repeatTo("w", a)+"\t"))
	}
	vs = append(vs, []byte("100% sure %s %d %v %%"), []byte("%!s(MISSING)"), []byte("%n%n%n"),
		[]byte("x\r\nX-Injected: yes"), []byte("x\r\n\r\ninjected body"), []byte("=?utf-8?q?already=20encoded?="), []byte("a\r\n b"), []byte("x\nBcc: evil@example.com"))
	return vs
}

func init() {
	vf.Register(&vf.Check{
		ID: "C02", Title: "no caller-supplied text can alter the header block",
		Run: func(r *vf.Run) {
			r.SetRule("17 text-accepting setters (subject, generic header (SetGenHeader and its deprecated alias SetHeader), From/To/Cc/Reply-To and Disposition-Notification-To display names, message-id, organisation, user-agent, attachment and embed file names, file and part descriptions, content-id) × values {every byte 0..255 at start/middle/end of a carrier; all 2-grams (thorough: 3-grams) over 16 dangerous symbols CR LF NUL TAB SP \" \\ < > : ; = ? 0x80 0xFF ü; lengths 0,1,74..79,200,1000; classic injection payloads; values that as a whole look like one RFC 2047 encoded-word with every 2-gram of the symbols inside the wrapper} × header encoder {Q, B, and whatever go-mail uses for 8bit / 7bit messages} × shape {single part, alternative, mixed+related; for the file attributes also a message that is nothing but one attachment / one embed} × message charset {UTF-8 (all), US-ASCII, ISO-8859-1, UTF-7}, alone, (2-grams) in pairs of setters, and — for the file and part attributes — applied to the existing File / Part objects after a first rendering (second rendering judged); oracle is differential: every header section must have exactly the field names of the same message built with a benign value, bodies unchanged, and the value must decode back (RFC 2047, WSP-normalised; file names after the documented '_' replacement) unless the setter returned an error; distinct by case tuple; the part / file attributes also given to the first or the last of three body parts / two files of a kind only (the others must not carry the field)")
			r.Assume("*Preformatted setters are raw by contract and excluded", "header names, content types and charsets are typed constants, not free text",
				"message-id / content-id values are only compared when they are printable ASCII without blanks and angle brackets")
			vals := c02Values(r.Thorough)
			var cases []c02Case
			for s := range c02Setters {
				for vi, v := range vals {
					for shape := 0; shape < 3; shape++ {
						for _, b := range []bool{false, true} {
							if !r.Thorough && (vi+shape)%3 != 0 && len(v) > 2 && vi >= 768 {
								// quick: n-gram values rotate over the shapes instead of the full product
								continue
							}
							cases = append(cases, c02Case{Setter: s, Value: v, Shape: shape, B: b, Setter2: -1})
						}
					}
				}
			}
			// other message charsets: every setter × every value (quick: the n-gram values rotate over the charsets)
			for ci, cs := range []string{"US-ASCII", "ISO-8859-1", "UTF-7"} {
				for s := range c02Setters {
					for vi, v := range vals {
						if !r.Thorough && vi >= 768 && len(v) > 2 && (vi+s)%3 != ci {
							continue
						}
						cases = append(cases, c02Case{Setter: s, Value: v, Shape: (vi + s) % 3, B: (vi/3+ci)%2 == 0, Setter2: -1, Charset: cs})
					}
				}
			}
			// the generic setters with go-mail's own field-name constants (and two names without constant): every value
			for fi, f := range c02GenFields {
				for _, s := range []int{1, 16} {
					for vi, v := range vals {
						if !r.Thorough && vi >= 768 && len(v) > 2 && (vi+s)%5 != fi%5 {
							continue
						}
						cases = append(cases, c02Case{Setter: s, Value: v, Shape: (vi + fi) % 3, B: (vi+fi)%2 == 0, Setter2: -1, Field: f})
					}
				}
			}
			// the generic setters with several values, empty ones among them
			for multi := 1; multi <= 4; multi++ {
				for _, s := range []int{1, 16} {
					for vi, v := range vals {
						if !r.Thorough && vi >= 768 && len(v) > 2 && (vi+s)%4 != multi-1 {
							continue
						}
						cases = append(cases, c02Case{Setter: s, Value: v, Shape: (vi + multi) % 3, B: vi%2 == 0, Setter2: -1, Multi: multi})
					}
				}
			}
			// the part / file attributes given to the first or to the last of three body parts / two files of a kind only
			for only := 1; only <= 2; only++ {
				for _, s := range []int{11, 12, 13} {
					for vi, v := range vals {
						if !r.Thorough && vi >= 768 && len(v) > 2 && (vi+s)%2 != only-1 {
							continue
						}
						cases = append(cases, c02Case{Setter: s, Value: v, Shape: 1 + (vi+s)%2, B: vi%2 == 0, Setter2: -1, Only: only})
					}
				}
			}
			// message encodings 8bit and 7bit (another header encoder): every setter × every value
			for mi, me := range []string{"8bit", "usascii"} {
				for s := range c02Setters {
					for vi, v := range vals {
						if !r.Thorough && vi >= 768 && len(v) > 2 && (vi+s)%2 != mi {
							continue
						}
						cases = append(cases, c02Case{Setter: s, Value: v, Shape: (vi + s) % 3, Setter2: -1, MEnc: me})
					}
				}
			}
			// a message that is nothing but one attachment / one embed: the file's headers are written at the top level
			for _, s := range []int{9, 10, 11, 13} {
				for vi, v := range vals {
					for shape := 3; shape <= 4; shape++ {
						if s == 9 && shape == 4 || s == 10 && shape == 3 {
							continue
						}
						if !r.Thorough && vi >= 768 && (vi+s+shape)%3 != 0 {
							continue
						}
						cases = append(cases, c02Case{Setter: s, Value: v, Shape: shape, B: vi%2 == 0, Setter2: -1})
					}
				}
			}
			// late application: file / part attributes changed on the existing objects after a first rendering
			for _, s := range []int{9, 10, 11, 12, 13} {
				for vi, v := range vals {
					if !r.Thorough && vi >= 768 && vi%4 != s%4 {
						continue
					}
					cases = append(cases, c02Case{Setter: s, Value: v, Shape: 2, B: vi%2 == 0, Setter2: -1, Late: true})
				}
			}
			// pairs of setters with the 2-symbol values
			var grams [][]byte
			for _, x := range c02Symbols {
				for _, y := range c02Symbols {
					grams = append(grams, []byte("p"+x+y+"q"))
				}
			}
			for s1 := range c02Setters {
				for s2 := s1 + 1; s2 < len(c02Setters); s2++ {
					for gi, g := range grams {
						if !r.Thorough && gi%8 != (s1+s2)%8 {
							continue
						}
						cases = append(cases, c02Case{Setter: s1, Value: g, Shape: 2, B: gi%2 == 0, Setter2: s2, Value2: grams[(gi*7+3)%len(grams)]})
					}
				}
			}
			r.Extra("values", len(vals))
			r.Parallel(len(cases), "C02 cases", func(i int) {
				k := cases[i]
				fs := c02Exec(r, k)
				b, _ := json.Marshal(k)
				r.Eval(vf.Hash(string(b)), valueClass(k.Value) != "plain")
				from := vf.Hash("setter", c02Setters[k.Setter], fmt.Sprint(k.Shape), fmt.Sprint(k.B))
				r.Transition(from, valueClass(k.Value), vf.Hash("out", c02Setters[k.Setter], fmt.Sprint(k.Shape), valueClass(k.Value), fmt.Sprint(len(fs) == 0)))
				r.TraceValidated()
				if i%30011 == 0 {
					r.Sample(map[string]interface{}{"setter": c02Setters[k.Setter], "value": string(k.Value), "shape": k.Shape, "encoder_b": k.B})
				}
				if len(fs) == 0 {
					r.Outcome("intact")
				}
				for _, f := range fs {
					f := f
					r.Outcome(strings.SplitN(f.key, "/", 2)[0])
					r.Violation(f.key, fmt.Sprintf("%s — setter %s value %q shape %d", f.what, c02Setters[k.Setter], k.Value, k.Shape), k, func() string {
						for _, x := range c02Exec(r, k) {
							if x.key == f.key {
								return f.key
							}
						}
						return ""
					})
				}
			})
		},
		Replay: func(r *vf.Run, kase json.RawMessage) {
			var k c02Case
			if err := json.Unmarshal(kase, &k); err != nil {
				r.HarnessError("bad case: %v", err)
				return
			}
			r.Eval(1, true)
			fmt.Printf("  setter=%s value=%q shape=%d B=%v\n", c02Setters[k.Setter], k.Value, k.Shape, k.B)
			for _, f := range c02Exec(r, k) {
				fmt.Printf("  -> %s: %s\n", f.key, f.what)
				r.Violation(f.key, f.what, k, nil)
			}
		},
	})
}
