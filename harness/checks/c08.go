package checks

import (
	"bytes"
	"crypto/ed25519"
	"crypto/rand"
	"crypto/tls"
	"encoding/json"
	"fmt"
	"io"
	"strings"

	mail "github.com/wneessen/go-mail"

	"verif/cmsverify"
	"verif/hx"
	"verif/mapseam"
	"verif/mb"
	"verif/mimeread"
	"verif/vf"
)

// C08 — S/MIME signatures verify for every message shape.

type c08Case struct {
	Spec    mb.Msg `json:"spec"`
	Renders int    `json:"renders"`
	Ks      []int  `json:"ks"` // map-iteration start per render
	Mod     string `json:"mod"`
	// Switch = {k1, n, k2}: during every render the first n map iterations start at k1, later ones at k2
	// (gives the signed pre-rendering and the emission different map orders inside one WriteTo)
	Switch []int `json:"switch,omitempty"`
	// Unsigned renders before signing is switched on (history: render, SignWith…, render)
	PreRenders int `json:"pre_renders,omitempty"`
	// Touch: change the subject between signed renders
	Touch bool `json:"touch,omitempty"`
	// FailAt > 0: before (and between) the judged renders, one WriteTo goes into a sink that fails after FailAt bytes
	FailAt int `json:"fail_at,omitempty"`
	// Hist: further histories before / between the judged renders —
	//  1: the message is first given a key the signer cannot use (Ed25519: accepted by SignWithKeypair, refused at
	//     render time), rendered (fails), then given the real key pair;
	//  2: WriteToSkipMiddleware is called once before every judged render;
	//  3: after the first judged render a text/html alternative is added (later renders must sign the larger message);
	//  5: signed through SignWithTLSCertificate with a *tls.Certificate (Leaf unset) that the caller renews IN PLACE after the
	//     first judged render (other key pair in the same object) and hands to SignWithTLSCertificate again;
	//  4: after the first judged render the message is re-keyed with the OTHER key type (later renders must carry
	//     and verify under the new certificate)
	Hist int `json:"hist,omitempty"`
}

func c08Exec(r *vf.Run, k c08Case) []finding {
	var out []finding
	add := func(key, f string, a ...interface{}) { out = append(out, finding{key, fmt.Sprintf(f, a...)}) }
	bspec := k.Spec
	k.Spec = k.Spec.Effective() // what the renderings are judged against
	var renewed *tls.Certificate
	if k.Hist == 5 {
		bspec.SMIME = 0
		k.Spec.Inter = false // the caller's certificate object carries the leaf only
	}
	if k.PreRenders > 0 {
		bspec.SMIME = 0
	}
	m, err := mb.Build(bspec, nil)
	if err != nil {
		r.HarnessError("C08 build: %v (%s)", err, k.Spec.Describe())
		return nil
	}
	for i := 0; i < k.PreRenders; i++ {
		var b bytes.Buffer
		if _, err := m.WriteTo(&b); err != nil {
			r.HarnessError("C08 unsigned pre-render: %v", err)
			return nil
		}
	}
	if k.PreRenders > 0 {
		mat := hx.Mat()
		kp := c08Key(k.Spec.SMIME)
		inter := mat.InterCert
		if !k.Spec.Inter {
			inter = nil
		}
		if err := m.SignWithKeypair(kp.PrivateKey, kp.Leaf, inter); err != nil {
			r.HarnessError("C08 SignWithKeypair: %v", err)
			return nil
		}
	}
	if k.Hist == 5 {
		// the caller keeps ONE *tls.Certificate (Leaf not set) and renews it in place later on
		kp := c08Key(k.Spec.SMIME)
		renewed = &tls.Certificate{Certificate: [][]byte{kp.Certificate[0]}, PrivateKey: kp.PrivateKey}
		if err := m.SignWithTLSCertificate(renewed); err != nil {
			r.HarnessError("C08 SignWithTLSCertificate: %v", err)
			return nil
		}
	}
	if k.Hist == 1 {
		_, edKey, _ := ed25519.GenerateKey(rand.Reader)
		if err := m.SignWithKeypair(edKey, hx.Mat().SignECDSA.Leaf, nil); err != nil {
			r.HarnessError("C08 SignWithKeypair(ed25519) refused at call time: %v", err)
			return nil
		}
		var ferr error
		if pan, pw := vf.Guard(func() { _, ferr = m.WriteTo(io.Discard) }); pan {
			add("panic/"+vf.PanicSite(pw), "render with an unusable key: %s", firstLine(pw))
			return out
		}
		if ferr == nil {
			r.HarnessError("C08: rendering with an Ed25519 key did not fail")
			return nil
		}
		mat := hx.Mat()
		kp := c08Key(k.Spec.SMIME)
		inter := mat.InterCert
		if !k.Spec.Inter {
			inter = nil
		}
		if err := m.SignWithKeypair(kp.PrivateKey, kp.Leaf, inter); err != nil {
			r.HarnessError("C08 SignWithKeypair: %v", err)
			return nil
		}
	}
	_, shape := expectedLeaves(k.Spec)
	cls := shapeClass(shape)
	if len(k.Spec.Parts)+len(k.Spec.Embeds)+len(k.Spec.Attach) == 0 {
		cls = "empty"
	}
	cls += "/mod=" + k.Mod
	for ri := 0; ri < k.Renders; ri++ {
		var buf bytes.Buffer
		var werr error
		ks := 0
		if ri < len(k.Ks) {
			ks = k.Ks[ri]
		}
		if k.FailAt > 0 {
			_, _ = vf.Guard(func() { _, _ = m.WriteTo(&faultSink{at: k.FailAt + ri*37}) })
		}
		if k.Touch && ri > 0 {
			m.Subject(fmt.Sprintf("subject changed before render %d", ri+1))
		}
		switch {
		case k.Hist == 2:
			_, _ = vf.Guard(func() { _, _ = m.WriteToSkipMiddleware(io.Discard, "verif-no-such-middleware") })
		case k.Hist == 3 && ri == 1:
			added := mb.Part{Type: "text/html", Content: []byte("<p>alternative added after the first signed render</p>\r\n"), Via: "string"}
			if len(k.Spec.Parts) == 0 {
				added.Type = "text/plain"
				m.SetBodyString(mail.TypeTextPlain, string(added.Content))
			} else {
				m.AddAlternativeString(mail.TypeTextHTML, string(added.Content))
			}
			k.Spec.Parts = append(append([]mb.Part{}, k.Spec.Parts...), added)
		case k.Hist == 5 && ri == 1:
			// the certificate was renewed: the same object now holds the other key pair, and the message is signed with it again
			mat := hx.Mat()
			kp := mat.SignECDSA
			if k.Spec.SMIME >= 2 {
				kp = mat.SignRSA
			}
			renewed.Certificate = [][]byte{kp.Certificate[0]}
			renewed.PrivateKey = kp.PrivateKey
			if err := m.SignWithTLSCertificate(renewed); err != nil {
				r.HarnessError("C08 SignWithTLSCertificate (renewed): %v", err)
				return nil
			}
			if k.Spec.SMIME >= 2 {
				k.Spec.SMIME = 1
			} else {
				k.Spec.SMIME = 2
			}
		case k.Hist == 4 && ri == 1:
			mat := hx.Mat()
			kp := mat.SignECDSA
			if k.Spec.SMIME >= 2 {
				kp = mat.SignRSA
			}
			inter := mat.InterCert
			if !k.Spec.Inter {
				inter = nil
			}
			if err := m.SignWithKeypair(kp.PrivateKey, kp.Leaf, inter); err != nil {
				r.HarnessError("C08 SignWithKeypair (re-key): %v", err)
				return nil
			}
			if k.Spec.SMIME >= 2 {
				k.Spec.SMIME = 1
			} else {
				k.Spec.SMIME = 2
			}
		}
		pan, pw := vf.Guard(func() {
			if len(k.Switch) == 3 && k.Switch[1] > 0 {
				mapseam.WithSwitch(k.Switch[0], k.Switch[1], k.Switch[2], func() { _, werr = m.WriteTo(&buf) })
			} else {
				mapseam.With(ks, func() { _, werr = m.WriteTo(&buf) })
			}
		})
		rn := fmt.Sprintf("render%d", ri+1)
		if ri > 0 {
			rn = "re-render"
		}
		if pan {
			add("panic/"+vf.PanicSite(pw), "%s: %s", rn, firstLine(pw))
			return out
		}
		if werr != nil {
			add(fmt.Sprintf("render-error/%s/%s", rn, cls), "%s failed: %v", rn, werr)
			continue
		}
		e := mimeread.Parse(buf.Bytes())
		if e.MediaType != "multipart/signed" {
			add(fmt.Sprintf("not-multipart-signed/%s/%s", rn, cls), "%s: top-level media type is %s", rn, e.MediaType)
			continue
		}
		for _, p := range e.Problems {
			if k.Mod == "preformatted-lf" && strings.Contains(p, "bare LF") {
				continue // the caller's own preformatted value
			}
			add(fmt.Sprintf("malformed-top-level/%s/%s", rn, cls), "%s: %s", rn, p)
		}
		if p := e.Params["protocol"]; p != "application/pkcs7-signature" {
			add("protocol-parameter/"+rn, "%s: protocol=%q", rn, p)
		}
		if p := strings.ToLower(e.Params["micalg"]); p != "sha-256" && p != "sha256" {
			add("micalg-parameter/"+rn, "%s: micalg=%q", rn, p)
		}
		if len(e.Children) != 2 {
			add(fmt.Sprintf("signed-children/%s/%s", rn, cls), "%s: multipart/signed has %d parts, want 2 (%s)", rn, len(e.Children), e.Shape())
			continue
		}
		sig := e.Children[1]
		if sig.MediaType != "application/pkcs7-signature" && sig.MediaType != "application/x-pkcs7-signature" {
			add("signature-part-type/"+rn, "%s: second part is %s", rn, sig.MediaType)
			continue
		}
		der, derr := sig.DecodeBody()
		if derr != nil {
			add("signature-part-undecodable/"+rn, "%s: %v", rn, derr)
			continue
		}
		res, verr := cmsverify.Verify(der, e.Children[0].Raw)
		if verr != nil {
			kind := "other"
			switch {
			case strings.Contains(verr.Error(), "messageDigest attribute") && strings.Contains(verr.Error(), "differs"):
				kind = "digest-mismatch"
			case strings.Contains(verr.Error(), "does not verify"):
				kind = "bad-signature"
			case strings.Contains(verr.Error(), "not among"):
				kind = "signer-cert-missing"
			}
			add(fmt.Sprintf("verify/%s/%s/%s", kind, rn, cls), "%s: %v — %s", rn, verr, k.Spec.Describe())
			continue
		}
		r.Outcome(fmt.Sprintf("reached/verified/hist=%d/signapi=%d", k.Hist, k.Spec.SignAPI))
		if k.PreRenders > 0 {
			r.Outcome("reached/verified/signed-after-unsigned-renders")
		}
		if k.FailAt > 0 {
			r.Outcome("reached/verified/after-failed-render")
		}
		if len(k.Switch) == 3 {
			r.Outcome("reached/verified/map-order-switch")
		}
		wantKey := "RSA"
		if k.Spec.SMIME >= 2 {
			wantKey = "ECDSA"
		}
		r.Outcome(fmt.Sprintf("reached/verified/key-kind=%d", k.Spec.SMIME))
		if k.Spec.MW != 0 {
			r.Outcome(fmt.Sprintf("reached/verified/middleware=%d", k.Spec.MW))
		}
		if k.Spec.Boundary != "" {
			r.Outcome("reached/verified/caller-fixed-boundary")
		}
		if res.KeyType != wantKey {
			add("key-type/"+rn, "%s: signed with %s, want %s", rn, res.KeyType, wantKey)
		}
		if !res.AttrsInDER {
			add("signed-attributes-not-DER-ordered/"+rn, "%s: signed attributes are not in DER SET OF order", rn)
		}
		if k.Spec.Inter {
			found := false
			for _, c := range res.Certs {
				if bytes.Equal(c.Raw, hx.Mat().InterCert.Raw) {
					found = true
				}
			}
			if !found && len(res.Certs) >= 2 {
				var cns []string
				for _, c := range res.Certs {
					cns = append(cns, c.Subject.CommonName)
				}
				add("intermediate-not-among-certificates/"+rn, "%s: the intermediate certificate that was given is not in the PKCS#7 structure, which carries %v — %s", rn, cns, k.Spec.Describe())
			}
		}
		if k.Spec.Inter && len(res.Certs) < 2 {
			add("intermediate-missing/"+rn, "%s: intermediate certificate was given but %d certificate(s) are embedded", rn, len(res.Certs))
		}
		if !k.Spec.Inter && len(res.Certs) != 1 && k.Spec.SignAPI == 0 {
			add("unexpected-certificates/"+rn, "%s: %d certificates embedded, want 1", rn, len(res.Certs))
		}
		// the signed entity must be the message that was built
		if k.Mod == "none" || k.Mod == "descriptions" {
			for _, f := range checkRendered(k.Spec, nil, e.Children[0]) {
				if strings.HasPrefix(f.key, "content/qp-bare-CR") {
					continue
				}
				add("signed-entity/"+f.key+"/"+rn, "%s: signed entity: %s — %s", rn, f.what, k.Spec.Describe())
			}
		}
	}
	return out
}

func c08Key(kind int) tls.Certificate {
	mat := hx.Mat()
	switch kind {
	case 2:
		return mat.SignECDSA
	case 3:
		return mat.SignP384
	case 4:
		return mat.SignP521
	case 5:
		return mat.SignSameSerial
	}
	return mat.SignRSA
}

// canonical CRLF content (the property's precondition for signing)
var (
	c08Texts = [][]byte{[]byte("Signed plain text.\r\nSecond line = with equals\r\n.dot line\r\n"), []byte("<html><body><p>signed html ünï</p></body></html>\r\n"), []byte("third alternative\r\n"),
		[]byte("no trailing newline"), []byte(""), []byte(repeatTo("long line of text ", 200) + "\r\n")}
	c08Bins = [][]byte{c12Bin, []byte("text attachment\r\nwith lines\r\n"), {}, c18Bin(1000)}
)

func c08Specs(thorough bool) []c08Case {
	var cs []c08Case
	encs := []string{"qp", "b64", "8bit"}
	fencs := []string{"", "8bit", "qp"}
	n := 0
	for np := 0; np <= 3; np++ {
		for ne := 0; ne <= 2; ne++ {
			for na := 0; na <= 2; na++ {
				for ei, menc := range encs {
					for fi, fenc := range fencs {
						if ne+na == 0 && fi > 0 {
							continue
						}
						if np+ne+na == 0 {
							continue // a message without any content has nothing to sign
						}
						n++
						base := mb.Msg{Enc: menc, SMIME: 2}
						for i := 0; i < np; i++ {
							p := mb.Part{Type: []string{"text/plain", "text/html", "text/plain"}[i], Content: c08Texts[(n+i)%len(c08Texts)]}
							if (n+i)%3 == 1 {
								p.Enc = encs[(ei+1+i)%3]
							}
							base.Parts = append(base.Parts, p)
						}
						for i := 0; i < ne; i++ {
							c := c08Bins[(n+i)%len(c08Bins)]
							if fenc != "" {
								c = c08Texts[(n+i)%3]
							}
							base.Embeds = append(base.Embeds, mb.File{Name: fmt.Sprintf("embed%d.png", i), Content: c, Enc: fenc})
						}
						for i := 0; i < na; i++ {
							c := c08Bins[(n+i+1)%len(c08Bins)]
							if fenc != "" {
								c = c08Texts[(n+i+1)%3]
							}
							base.Attach = append(base.Attach, mb.File{Name: fmt.Sprintf("attach%d.bin", i), Content: c, Enc: fenc})
						}
						mods := []string{"none"}
						if thorough || n%2 == 0 {
							mods = append(mods, "descriptions", "no-from", "empty-to", "empty-gen-header", "preformatted", "long-subject", "preformatted-lf")
						} else {
							mods = append(mods, []string{"descriptions", "no-from", "empty-to", "empty-gen-header", "preformatted", "long-subject", "preformatted-lf"}[n%7])
						}
						for _, mod := range mods {
							s := base
							s.Parts = append([]mb.Part{}, base.Parts...)
							s.Embeds = append([]mb.File{}, base.Embeds...)
							s.Attach = append([]mb.File{}, base.Attach...)
							switch mod {
							case "descriptions":
								for i := range s.Parts {
									s.Parts[i].Desc = "description of a part"
								}
								for i := range s.Embeds {
									s.Embeds[i].Desc = "description of an embed that is long enough to be folded when it is written as a header line"
								}
								for i := range s.Attach {
									s.Attach[i].Desc = "attachment description ünï"
								}
							case "no-from":
								s.From = "-"
							case "empty-to":
								s.ToIgnore = []string{"not an address"}
							case "empty-gen-header":
								s.GenEmpty = []string{"X-Empty"}
							case "preformatted":
								s.Preform = [][2]string{{"X-Pre-One", "value one"}, {"X-Pre-Two", "line one\r\n line two"}}
							case "preformatted-lf":
								// written verbatim by contract: the caller folded with a bare LF (and put a bare LF at the end of a line)
								s.Preform = [][2]string{{"X-Pre-LF", "line one\n line two"}, {"X-Pre-Mixed", "first\r\n second\n third"}}
							case "long-subject":
								sub := repeatTo("a fairly long subject that will be folded ", 160)
								s.Subject = &sub
							}
							variants := []mb.Msg{s}
							if thorough || n%5 == 0 {
								rsa := s
								rsa.SMIME = 1
								variants = append(variants, rsa)
							}
							if thorough || n%3 == 0 {
								in := s
								in.Inter = true
								variants = append(variants, in)
							}
							for _, v := range variants {
								kss := [][]int{{0, 0, 0}}
								mapMatters := mod == "preformatted" || (np == 0 && ne+na == 1) || len(v.Preform) > 0
								if mapMatters {
									for kk := 1; kk < 8; kk++ {
										kss = append(kss, []int{kk, 0, 0}, []int{0, kk, 0})
									}
								} else if thorough {
									kss = append(kss, []int{3, 5, 1})
								}
								for _, ks := range kss {
									cs = append(cs, c08Case{Spec: v, Renders: 3, Ks: ks, Mod: mod})
								}
								if mapMatters {
									for nsw := 1; nsw <= 14; nsw++ {
										for _, pr := range [][2]int{{0, 1}, {1, 0}, {2, 5}} {
											cs = append(cs, c08Case{Spec: v, Renders: 2, Ks: []int{0, 0}, Mod: mod, Switch: []int{pr[0], nsw, pr[1]}})
										}
									}
								}
								// histories: unsigned render(s) first, then sign; change the subject between signed renders
								if thorough || n%3 == 0 || mod == "none" {
									for _, fa := range []int{1, 200, 600, 1500} {
										cs = append(cs, c08Case{Spec: v, Renders: 2, Ks: []int{0, 0}, Mod: mod, FailAt: fa})
									}
								}
								if np+ne+na > 1 && (thorough || n%2 == 0 || mod == "none") {
									// a caller-fixed boundary on a message with inner multiparts
									w := v
									w.Boundary = "caller-fixed-boundary-smime-01"
									cs = append(cs, c08Case{Spec: w, Renders: 2, Ks: []int{0, 0}, Mod: mod})
								}
								if thorough || n%2 == 0 || mod == "none" {
									// a middleware that changes headers only / the first body part / the attachments on every rendering
									for mw := 1; mw <= 3; mw++ {
										w := v
										w.MW = mw
										cs = append(cs, c08Case{Spec: w, Renders: 3, Ks: []int{0, 0, 0}, Mod: mod})
									}
								}
								if thorough || n%4 == 0 || mod == "none" {
									// the larger ECDSA curves
									for _, kk := range []int{3, 4} {
										w := v
										w.SMIME = kk
										cs = append(cs, c08Case{Spec: w, Renders: 2, Ks: []int{0, 0}, Mod: mod})
									}
									// a signer certificate that shares its serial number with the intermediate (other issuer)
									for api := 0; api <= 3; api += 3 {
										w := v
										w.SMIME, w.Inter, w.SignAPI = 5, true, api
										cs = append(cs, c08Case{Spec: w, Renders: 2, Ks: []int{0, 0}, Mod: mod})
									}
								}
								if thorough || n%4 == 0 || mod == "none" {
									// the other signing entry point, with certificate chains of 1..3 entries
									for api := 1; api <= 4; api++ {
										w := v
										w.SignAPI = api
										w.Inter = api >= 2
										cs = append(cs, c08Case{Spec: w, Renders: 2, Ks: []int{0, 0}, Mod: mod})
									}
								}
								if thorough || n%4 == 0 || mod == "none" {
									for h := 1; h <= 5; h++ {
										cs = append(cs, c08Case{Spec: v, Renders: 3, Ks: []int{0, 0, 0}, Mod: mod, Hist: h})
									}
								}
								if thorough || n%4 == 0 || mod == "none" && n%2 == 0 {
									cs = append(cs, c08Case{Spec: v, Renders: 2, Ks: []int{0, 0}, Mod: mod, PreRenders: 1})
									cs = append(cs, c08Case{Spec: v, Renders: 2, Ks: []int{0, 0}, Mod: mod, PreRenders: 2, Touch: true})
									cs = append(cs, c08Case{Spec: v, Renders: 3, Ks: []int{0, 0, 0}, Mod: mod, Touch: true})
								}
							}
						}
					}
				}
			}
		}
	}
	// files that come from the library's own file sources (readers, read-seekers, also ones that stand behind a header
	// the caller has consumed): the rendering that is digested and the one that is emitted read them one after the other
	for _, src := range []string{"reader", "readseeker", "buffer", "reader@", "readseeker@", "readseeker+", "ttpl"} {
		for _, menc := range encs {
			for _, kind := range []int{1, 2} {
				sp := mb.Msg{Enc: menc, SMIME: kind, Parts: []mb.Part{{Type: "text/plain", Content: c08Texts[0]}},
					Attach: []mb.File{{Name: "a.bin", Content: c08Bins[3], Source: src}}, Embeds: []mb.File{{Name: "e.txt", Content: c08Texts[2], Source: src}}}
				cs = append(cs, c08Case{Spec: sp, Renders: 3, Ks: []int{0, 0, 0}, Mod: "file-source"})
				only := mb.Msg{Enc: menc, SMIME: kind, Attach: []mb.File{{Name: "only.bin", Content: c08Bins[1], Source: src}}}
				cs = append(cs, c08Case{Spec: only, Renders: 2, Ks: []int{0, 0}, Mod: "file-source"})
			}
		}
	}
	// body parts whose content type carries parameters, short and long enough for the Content-Type line to need folding
	for _, ct := range []string{"text/calendar; method=REQUEST", "text/calendar; method=REQUEST; name=\"quarterly-planning-invitation.ics\"",
		"text/plain; format=flowed; delsp=yes; reply-type=original; x-a-rather-long-parameter-name=with-a-long-value"} {
		for _, menc := range encs {
			for _, kind := range []int{1, 2} {
				one := mb.Msg{Enc: menc, SMIME: kind, Parts: []mb.Part{{Type: ct, Content: c08Texts[0]}}}
				two := mb.Msg{Enc: menc, SMIME: kind, Parts: []mb.Part{{Type: "text/plain", Content: c08Texts[0]}, {Type: ct, Content: c08Texts[2]}}}
				att := mb.Msg{Enc: menc, SMIME: kind, Parts: []mb.Part{{Type: ct, Content: c08Texts[0]}}, Attach: []mb.File{{Name: "a.bin", Content: c08Bins[0]}}}
				for _, sp := range []mb.Msg{one, two, att} {
					cs = append(cs, c08Case{Spec: sp, Renders: 2, Ks: []int{0, 0}, Mod: "typed-part"})
				}
			}
		}
	}
	return cs
}

func init() {
	vf.Register(&vf.Check{
		ID: "C08", Title: "S/MIME signatures verify for every message shape",
		Run: func(r *vf.Run) {
			r.SetRule("all 36 part/embed/attachment count combinations (0..3 × 0..2 × 0..2) × message encoding {QP, base64, 8bit} × file encoding {base64, 8bit, QP} with per-part encodings × modifier {none, part/file descriptions, no From, empty To list via ToIgnoreInvalid, generic header without values, two preformatted headers (one multi-line), preformatted headers folded with a bare LF, long folded subject, body parts whose content type carries (long) parameters, files from readers / read-seekers / templates (also positioned behind a consumed header)} × key {ECDSA P-256, RSA-2048, P-384, P-521, a P-256 signer whose serial number equals the intermediate's} × {with, without intermediate certificate} × three consecutive renders × histories {signed from the start; 1–2 unsigned renders, then SignWithKeypair, then render; subject changed between signed renders; a WriteTo into a sink failing after 1/200/600/1500 bytes before each judged render} × middleware {none; one that sets a header / appends a footer to the first body part / adds an attachment on every rendering} × map-iteration start 0..7 on the renders where map order matters, incl. a different order for the signed pre-rendering and the emission inside one WriteTo (switch after n = 1..14 iterations); every output is split by the harness' MIME reader and the PKCS#7 structure is verified by the harness' own CMS verifier (digest of the first part as emitted, signature over the DER SET of signed attributes, embedded certificates, protocol/micalg); distinct by (program, map starts)")
			r.Assume("content is in canonical CRLF form", "cmsverify is validated at start-up against OpenSSL-produced CMS signatures (RSA and ECDSA)")
			if !mapseam.Enabled {
				r.Incomplete("runtime map-iteration seam not available: map order is sampled")
			}
			if r.Fork(r.Workers) {
				r.Reached("reached/verified/hist=0/signapi=0", "reached/verified/hist=1/signapi=0", "reached/verified/hist=2/signapi=0", "reached/verified/hist=3/signapi=0", "reached/verified/hist=4/signapi=0", "reached/verified/hist=5/signapi=0", "reached/verified/hist=0/signapi=1", "reached/verified/hist=0/signapi=2", "reached/verified/hist=0/signapi=3", "reached/verified/hist=0/signapi=4", "reached/verified/signed-after-unsigned-renders", "reached/verified/after-failed-render", "reached/verified/map-order-switch", "reached/verified/key-kind=1", "reached/verified/key-kind=2", "reached/verified/key-kind=3", "reached/verified/key-kind=4", "reached/verified/key-kind=5", "reached/verified/caller-fixed-boundary", "reached/verified/middleware=1", "reached/verified/middleware=2", "reached/verified/middleware=3")
				return
			}
			cases := c08Specs(r.Thorough)
			for i, k := range cases {
				if !r.Mine(i) {
					continue
				}
				if r.OverBudget() {
					r.Incomplete("time budget reached during C08 enumeration")
					return
				}
				k := k
				fs := c08Exec(r, k)
				b, _ := json.Marshal(k)
				r.Eval(vf.Hash(string(b)), true)
				_, shape := expectedLeaves(k.Spec)
				st := vf.Hash(shapeClass(shape), k.Mod, fmt.Sprint(k.Spec.SMIME), "built")
				for ri := 0; ri < k.Renders; ri++ {
					nx := vf.Hash(shapeClass(shape), k.Mod, fmt.Sprint(k.Spec.SMIME), fmt.Sprint(ri+1))
					r.Transition(st, fmt.Sprintf("render k=%d sw=%v pre=%d", k.Ks[ri], k.Switch, k.PreRenders), nx)
					st = nx
				}
				r.TraceValidated()
				if i%1201 == 0 {
					r.Sample(map[string]interface{}{"program": k.Spec.Describe(), "modifier": k.Mod, "map_starts": k.Ks})
				}
				if len(fs) == 0 {
					r.Outcome("verifies")
				}
				for _, f := range fs {
					f := f
					r.Outcome(strings.SplitN(f.key, "/", 3)[0])
					r.Violation(f.key, f.what, k, func() string {
						for _, x := range c08Exec(r, k) {
							if x.key == f.key {
								return f.key
							}
						}
						return ""
					})
				}
			}
		},
		Replay: func(r *vf.Run, kase json.RawMessage) {
			var k c08Case
			if err := json.Unmarshal(kase, &k); err != nil {
				r.HarnessError("bad case: %v", err)
				return
			}
			r.Eval(1, true)
			fmt.Printf("  program: %s mod=%s map-starts=%v\n", k.Spec.Describe(), k.Mod, k.Ks)
			for _, f := range c08Exec(r, k) {
				fmt.Printf("  -> %s: %s\n", f.key, f.what)
				r.Violation(f.key, f.what, k, nil)
			}
		},
	})
}
