package checks

import (
	"context"
	"crypto/ed25519"
	"crypto/rand"
	"encoding/json"
	"errors"
	"fmt"
	"io"
	"regexp"
	"strings"

	mail "github.com/wneessen/go-mail"

	"verif/hx"
	"verif/refsmtp"
	"verif/vf"
)

// C04 — the SMTP dialogue stays legal and in step under every reply script.

type c04Cfg struct {
	TLS    int  `json:"tls"`  // 0 NoTLS, 1 Opportunistic
	DSN    int  `json:"dsn"`  // 0 off, 1 WithDSN, 2 return type only, 3 notify only
	Enc8   bool `json:"enc8"` // message encoding 8bit instead of QP
	Auth   bool `json:"auth"` // PLAIN-NOENC
	Caps   int  `json:"caps"` // bit mask over c04CapNames
	M      int  `json:"m"`    // messages
	R      int  `json:"r"`    // recipients per message
	NoNoop bool `json:"nonoop"`
	Calls  int  `json:"calls,omitempty"`  // number of consecutive Send calls on the one connection (default 1)
	NilMsg bool `json:"nilmsg,omitempty"` // a nil *Msg sits in the middle of the batch
	// Redial: history — the same Client has already completed a fault-free dial / send / close against a server that
	// advertised the COMPLEMENTARY capability set; the judged session is the one of the second dial
	Redial bool `json:"redial,omitempty"`
	// BadMsg: a message that cannot be sent stands FIRST in every batch: 3 = its rendering fails before the first byte once
	// DATA was accepted (unusable signing key), 4 = its body writer fails after some output; 1 = no recipients,
	// 2 = no sender. Nothing of it may reach the wire in a way that disturbs the messages that follow.
	BadMsg int `json:"badmsg,omitempty"`
	// Codes: which concrete reply codes stand for the 4yz / 5yz alternatives of the alphabet at MAIL, RCPT, DATA and
	// end-of-data: 0 = 451 / 550 (554 at DATA), 1 = 452 / 552 (the "insufficient storage / too many recipients" pair of
	// RFC 5321 4.5.3.1.10), 2 = 450 / 553, 3 = 455 / 555 (the parameter pair of RFC 5321 4.1.1.11), 4 = 421 without a
	// disconnect / 521
	Codes int `json:"codes,omitempty"`
}

var c04CodeSets = [][2]int{{451, 550}, {452, 552}, {450, 553}, {455, 555}, {421, 521}}

type c04Case struct {
	Cfg    c04Cfg `json:"cfg"`
	Prefix []int  `json:"choices"`
}

var c04CapNames = []string{"8BITMIME", "SMTPUTF8", "DSN", "ENHANCEDSTATUSCODES", "STARTTLS", "AUTH PLAIN LOGIN"}

func capsFromMask(mask int) []string {
	var out []string
	for i, n := range c04CapNames {
		if mask&(1<<i) != 0 {
			out = append(out, n)
		}
	}
	return out
}

var replyAltNames = []string{"ok", "4yz", "5yz", "drop", "garbage-or-multiline", "ok-then-write-fails", "421-then-disconnect", "ok-but-late", "ok-then-peer-stops-reading"}

// stdScript answers every event through the chooser with the alphabet {default, 4yz, 5yz, drop}.
func stdScript(c *vf.Chooser) func(s *refsmtp.Session, ev *refsmtp.Event, def refsmtp.Action) refsmtp.Action {
	return stdScriptN(c, 4)
}

// stdScriptM is stdScript plus two alternatives: the success reply spread over several lines (RFC 5321 4.2.1) and
// a 421 reply followed by a disconnect (RFC 5321 3.8).
func stdScriptM(c *vf.Chooser) func(s *refsmtp.Session, ev *refsmtp.Event, def refsmtp.Action, preset ...int) refsmtp.Action {
	return func(s *refsmtp.Session, ev *refsmtp.Event, def refsmtp.Action, preset ...int) refsmtp.Action {
		if def.Kind != refsmtp.ActReply {
			return def
		}
		var pick int
		if len(preset) > 0 {
			pick = preset[0]
		} else {
			pick = c.Choose(ev.Pos(), 6)
		}
		switch pick {
		case 4:
			if ev.Verb == "EHLO" {
				return def // the EHLO reply is multi-line anyway
			}
			txt := s.DefaultText(ev.Verb, def.Code)
			if def.Text != nil {
				txt = def.Text
			}
			return refsmtp.Action{Kind: refsmtp.ActReply, Code: def.Code, Text: append(append([]string{}, txt...), "second line of the same reply", "third line")}
		case 5:
			return replyAction(6, ev, def, nil)
		}
		return replyAction(pick, ev, def, nil)
	}
}

// stdScriptL is stdScriptM plus a seventh alternative: the expected reply, but LATE — the server processes the
// command and answers only after the client's read has run into its deadline (not offered inside TLS and not for
// the reply that starts TLS: the late bytes would have to travel through the TLS layer).
func stdScriptL(c *vf.Chooser) func(s *refsmtp.Session, ev *refsmtp.Event, def refsmtp.Action) refsmtp.Action {
	m := stdScriptM(nil)
	return func(s *refsmtp.Session, ev *refsmtp.Event, def refsmtp.Action) refsmtp.Action {
		if def.Kind != refsmtp.ActReply {
			return def
		}
		n := 7
		if s.InTLS || ev.Verb == "STARTTLS" {
			n = 6
		}
		pick := c.Choose(ev.Pos(), n)
		if pick == 6 {
			a := def
			a.Late = true
			return a
		}
		return m(s, ev, def, pick)
	}
}

// stdScriptN: n=4 → {ok,4yz,5yz,drop}; n=5 adds a garbage (non-SMTP) reply.
func stdScriptN(c *vf.Chooser, n int) func(s *refsmtp.Session, ev *refsmtp.Event, def refsmtp.Action) refsmtp.Action {
	return stdScriptB(c, n, nil)
}

// stdScriptB: n=8 adds the late reply (outside TLS); n=6 adds "reply ok, then the client's next write fails" (breakWrites is called to arm the fault).
func stdScriptB(c *vf.Chooser, n int, breakWrites func(), stallWrites ...func()) func(s *refsmtp.Session, ev *refsmtp.Event, def refsmtp.Action) refsmtp.Action {
	return func(s *refsmtp.Session, ev *refsmtp.Event, def refsmtp.Action) refsmtp.Action {
		if def.Kind != refsmtp.ActReply {
			return def
		}
		if n >= 8 && (s.InTLS || ev.Verb == "STARTTLS") {
			return replyAction(c.Choose(ev.Pos(), 7), ev, def, breakWrites) // no late replies / write stalls inside or at the switch to TLS
		}
		pick := c.Choose(ev.Pos(), n)
		if pick == 8 {
			// the reply is fine, but the peer stops reading: the client's next write runs into its deadline
			if len(stallWrites) > 0 {
				stallWrites[0]()
			}
			return def
		}
		return replyAction(pick, ev, def, breakWrites)
	}
}

// replyAction is the server's answer for one alternative of the reply alphabet (index into replyAltNames, where
// 4 stands for the garbage reply).
func replyAction(pick int, ev *refsmtp.Event, def refsmtp.Action, breakWrites func()) refsmtp.Action {
	switch pick {
	case 7:
		// the expected reply, but it reaches the socket only after the client's read has run into its deadline
		a := def
		a.Late = true
		return a
	case 6:
		// RFC 5321 3.8: the server announces that it closes the channel, and does
		return refsmtp.Action{Kind: refsmtp.ActReplyThenDrop, Code: 421, Text: []string{"4.3.2 service shutting down, closing transmission channel"}}
	case 5:
		// the reply is fine, but the transport breaks for the client's next write
		if breakWrites != nil {
			breakWrites()
		}
		return def
	case 4:
		return refsmtp.Action{Kind: refsmtp.ActRaw, Raw: "garbage that is no SMTP reply\r\n"}
	case 1:
		code := 451
		if ev.Verb == "GREETING" || ev.Verb == "QUIT" {
			code = 421
		} else if ev.Verb == "STARTTLS" {
			code = 454
		} else if ev.Verb == "AUTH" || ev.Verb == "AUTHRESP" {
			code = 454
		}
		return refsmtp.Action{Kind: refsmtp.ActReply, Code: code}
	case 2:
		code := 550
		if ev.Verb == "GREETING" {
			code = 554
		} else if ev.Verb == "EHLO" || ev.Verb == "HELO" {
			code = 502
		} else if ev.Verb == "AUTH" || ev.Verb == "AUTHRESP" {
			code = 535
		} else if ev.Verb == "DATA" {
			code = 554
		}
		return refsmtp.Action{Kind: refsmtp.ActReply, Code: code}
	case 3:
		return refsmtp.Action{Kind: refsmtp.ActDrop}
	}
	return def
}

// describeReplyChoiceM names the alternatives of stdScriptM.
func describeReplyChoiceM(label string, pick int) string {
	switch pick {
	case 4:
		return label + "=ok(multi-line)"
	case 5:
		return label + "=421-then-disconnect"
	case 6:
		return label + "=ok-but-late(after the client's read timed out)"
	}
	return describeReplyChoice(label, pick)
}

func describeReplyChoice(label string, pick int) string {
	if pick < len(replyAltNames) {
		return label + "=" + replyAltNames[pick]
	}
	return fmt.Sprintf("%s=%d", label, pick)
}

type plainAuthSrv struct{ user, pass string }

func (p plainAuthSrv) Step(resp []byte) ([]byte, bool, bool) {
	if resp == nil {
		return []byte{}, false, false
	}
	return nil, true, string(resp) == "\x00"+p.user+"\x00"+p.pass
}

var tagRe = regexp.MustCompile(`r\d+z`)

// lastDeviation describes the most recent non-default exchange before transcript index idx.
func lastDeviation(tr []refsmtp.Exchange, idx int) string {
	for i := idx - 1; i >= 0; i-- {
		e := tr[i]
		if e.Reply == "<drop>" {
			return e.Verb + ":drop"
		}
		if e.Reply == "<stall>" {
			return e.Verb + ":stall"
		}
		if e.Code >= 400 {
			return fmt.Sprintf("%s:%dyz", e.Verb, e.Code/100)
		}
	}
	return "none"
}

func c04Exec(r *vf.Run, cfg c04Cfg, c *vf.Chooser) (keys []string, whats []string) {
	sess := &refsmtp.Session{Host: hx.Host, Caps: capsFromMask(cfg.Caps)}
	// after STARTTLS a *different* capability set is advertised: the three MAIL-parameter extensions are inverted
	sess.CapsTLS = append([]string{}, capsFromMask((cfg.Caps^0b000111)&^(1<<4))...) // non-nil: an EMPTY set after STARTTLS is a single-line 250
	sess.Script = stdScriptL(c)
	if cfg.Codes != 0 {
		inner := sess.Script
		sess.Script = func(s *refsmtp.Session, ev *refsmtp.Event, def refsmtp.Action) refsmtp.Action {
			a := inner(s, ev, def)
			if a.Kind == refsmtp.ActReply && (ev.Verb == "MAIL" || ev.Verb == "RCPT" || ev.Verb == "DATA" || ev.Verb == "EOD") {
				switch a.Code {
				case 451:
					a.Code = c04CodeSets[cfg.Codes][0]
				case 550, 554:
					a.Code = c04CodeSets[cfg.Codes][1]
				}
			}
			return a
		}
	}
	sess.NewAuth = func(s *refsmtp.Session, mech string) refsmtp.AuthExchange {
		if mech == "PLAIN" {
			return plainAuthSrv{"user", "secret-pass"}
		}
		return nil
	}
	conn := refsmtp.NewConn(sess)
	conn.TLSConfig = hx.ServerTLS(hx.Mat().Good)
	var pre *refsmtp.Conn
	if cfg.Redial {
		ps := &refsmtp.Session{Host: hx.Host, Caps: capsFromMask(cfg.Caps ^ 0b101111)}
		ps.CapsTLS = append([]string{}, capsFromMask((cfg.Caps^0b101000)&^(1<<4))...)
		ps.NewAuth = sess.NewAuth
		pre = refsmtp.NewConn(ps)
		pre.TLSConfig = hx.ServerTLS(hx.Mat().Good)
	}
	rig := &hx.Rig{Mk: func(n int) *refsmtp.Conn {
		if pre != nil {
			n--
			if n < 0 {
				return pre
			}
		}
		if n > 0 {
			return nil
		}
		return conn
	}}
	opts := []mail.Option{
		mail.WithDialContextFunc(rig.Dial), mail.WithHELO("client.example.test"),
		mail.WithTLSConfig(hx.ClientTLS(hx.Host)),
	}
	if cfg.TLS == 0 {
		opts = append(opts, mail.WithTLSPolicy(mail.NoTLS))
	} else {
		opts = append(opts, mail.WithTLSPolicy(mail.TLSOpportunistic))
	}
	switch cfg.DSN {
	case 1:
		opts = append(opts, mail.WithDSN())
	case 2:
		opts = append(opts, mail.WithDSNMailReturnType(mail.DSNMailReturnHeadersOnly))
	case 3:
		opts = append(opts, mail.WithDSNRcptNotifyType(mail.DSNRcptNotifyFailure, mail.DSNRcptNotifyDelay))
	}
	if cfg.Auth {
		opts = append(opts, mail.WithSMTPAuth(mail.SMTPAuthPlainNoEnc), mail.WithUsername("user"), mail.WithPassword("secret-pass"))
	}
	if cfg.NoNoop {
		opts = append(opts, mail.WithoutNoop())
	}
	cl, err := mail.NewClient(hx.Host, opts...)
	if err != nil {
		r.HarnessError("C04 NewClient: %v", err)
		return
	}
	enc := mail.EncodingQP
	if cfg.Enc8 {
		enc = mail.NoEncoding
	}
	calls := cfg.Calls
	if calls < 1 {
		calls = 1
	}
	msgs := make([]*mail.Msg, cfg.M*calls)
	for i := range msgs {
		msgs[i] = hx.StdMsg(i, cfg.R, enc)
	}
	var dialErr, sendErr error
	var callErrs []error
	pan, pwhat := vf.Guard(func() {
		if pre != nil {
			// the history connection: whatever happens there (the complementary capability set may make the send
			// fail locally) is not judged; it only has to be over before the judged dial
			if err := cl.DialWithContext(context.Background()); err == nil {
				_ = cl.Send(hx.StdMsg(900, cfg.R, enc), hx.StdMsg(901, cfg.R, mail.EncodingQP)) // (a message of the judged kind and a plain one)
				_ = cl.Close()
			}
		}
		dialErr = cl.DialWithContext(context.Background())
		if dialErr == nil {
			for k := 0; k < calls; k++ {
				batch := append([]*mail.Msg{}, msgs[k*cfg.M:(k+1)*cfg.M]...)
				if cfg.NilMsg {
					batch = append(batch[:1], append([]*mail.Msg{nil}, batch[1:]...)...)
				}
				switch cfg.BadMsg {
				case 1:
					bad := mail.NewMsg(mail.WithEncoding(enc))
					_ = bad.From("norcpt@snd.example")
					bad.SetBodyString(mail.TypeTextPlain, "a message without recipients")
					batch = append([]*mail.Msg{bad}, batch...)
				case 2:
					bad := mail.NewMsg(mail.WithEncoding(enc))
					_ = bad.To("nosender@rcp.example")
					bad.SetBodyString(mail.TypeTextPlain, "a message without sender")
					batch = append([]*mail.Msg{bad}, batch...)
				case 3, 4:
					// a message whose rendering fails once DATA has been accepted: 3 = before its first byte (the S/MIME
					// signer refuses the key at render time), 4 = after part of the body (failing body writer)
					bad := mail.NewMsg(mail.WithEncoding(enc))
					_ = bad.From("unrenderable@snd.example")
					_ = bad.To("unrenderable@rcp.example")
					if cfg.BadMsg == 3 {
						bad.SetBodyString(mail.TypeTextPlain, "a message that cannot be signed")
						_, edKey, _ := ed25519.GenerateKey(rand.Reader)
						_ = bad.SignWithKeypair(edKey, hx.Mat().SignECDSA.Leaf, nil)
					} else {
						bad.SetBodyWriter(mail.TypeTextPlain, func(w io.Writer) (int64, error) {
							n, _ := w.Write([]byte("first half of a body whose producer then fails\r\n"))
							return int64(n), errProducer
						})
					}
					batch = append([]*mail.Msg{bad}, batch...)
				}
				err := cl.Send(batch...)
				callErrs = append(callErrs, err)
				if err != nil && sendErr == nil {
					sendErr = err
				}
			}
			_ = cl.Close()
		}
	})
	add := func(k, w string) { keys = append(keys, k); whats = append(whats, w) }
	if pan {
		add("panic/"+vf.PanicSite(pwhat), "panic: "+pwhat)
		return
	}
	tr := sess.Transcript
	if conn.ServerTLS != nil && len(sess.CapsTLS) == 0 {
		r.Outcome("reached/single-line-ehlo-after-starttls")
	}
	if conn.ServerTLS != nil {
		r.Outcome("reached/starttls-handshake")
	}
	if pre != nil && len(tr) > 0 {
		r.Outcome("reached/second-connection-of-the-client")
	}
	if calls > 1 && len(sess.Commits) > cfg.M {
		r.Outcome("reached/second-send-call-committed")
	}
	if len(sess.Commits) == len(msgs) {
		r.Outcome("reached/all-committed")
	}
	// 1. protocol monitor
	if len(sess.Illegal) > 0 {
		// only the first illegal event is reported: once the dialogue left the rails, what follows is a consequence
		il := sess.Illegal[0]
		idx := len(tr)
		for i, e := range tr {
			if e.Pos == il.Pos {
				idx = i
				break
			}
		}
		verb := il.Pos
		if i := strings.IndexByte(verb, '#'); i >= 0 {
			verb = verb[:i]
		}
		add(fmt.Sprintf("illegal/%s/at=%s/after=%s", il.Key, verb, lastDeviation(tr, idx)), il.What+" at "+il.Pos)
	}
	// 2. refused RCPT ⇒ RSET, no DATA
	for i, e := range tr {
		if e.Verb == "RCPT" && e.Code >= 400 {
			// find what follows the RCPT block of this transaction
			j := i + 1
			for j < len(tr) && tr[j].Verb == "RCPT" && tr[j].Txn == e.Txn {
				j++
			}
			if j < len(tr) && tr[j-1].Reply != "<drop>" {
				nx := tr[j]
				if nx.Verb != "RSET" {
					add(fmt.Sprintf("no-rset-after-refused-rcpt/next=%s", nx.Verb), fmt.Sprintf("recipient refused at %s but the next command is %s, not RSET", e.Pos, nx.Verb))
				}
			} else if j >= len(tr) && !conn.ClientClosed() && !sess.Closed {
				add("no-rset-after-refused-rcpt/next=nothing", fmt.Sprintf("recipient refused at %s and the transaction was left open", e.Pos))
			}
			break
		}
	}
	// 3. 8bit refused locally
	txnOf := map[int]int{} // message index -> txn
	for _, e := range tr {
		if e.Verb == "MAIL" {
			for i := range msgs {
				if strings.Contains(e.Line, "<"+hx.Sender(i)+">") {
					if _, dup := txnOf[i]; dup {
						add("message-sent-twice", fmt.Sprintf("two MAIL commands for message %d", i))
					}
					txnOf[i] = e.Txn
				}
			}
		}
	}
	// which EHLO reply governs the send phase: the last EHLO/HELO before the first NOOP/MAIL
	if cfg.Enc8 && dialErr == nil {
		for i, m := range msgs {
			_, sent := txnOf[i]
			// was 8BITMIME in the latest EHLO reply when this message's turn came? use the session's view at MAIL time:
			has8 := c04ExtAtSend(tr, sess, "8BITMIME")
			if !has8 {
				if sent {
					add("8bit-sent-without-8bitmime", fmt.Sprintf("8bit message %d was transmitted although 8BITMIME was not advertised", i))
				}
				var se *mail.SendError
				if !m.HasSendError() || !errors.As(m.SendError(), &se) || se.Reason != mail.ErrNoUnencoded {
					if !sess.Closed || sent { // on a dead connection the conn check fails first
						ce := sendErr
						if k := i / cfg.M; k < len(callErrs) {
							ce = callErrs[k]
						}
						if ce == nil || !strings.Contains(ce.Error(), "checking SMTP connection") {
							add("8bit-not-refused-locally", fmt.Sprintf("8bit message %d without 8BITMIME: SendError=%v", i, m.SendError()))
						}
					}
				}
			}
		}
	}
	// 4. attribution of replies to commands
	byTag := map[string]refsmtp.Exchange{}
	for _, e := range tr {
		byTag[e.Tag] = e
	}
	for i, m := range msgs {
		if !m.HasSendError() {
			continue
		}
		var se *mail.SendError
		if !errors.As(m.SendError(), &se) {
			continue
		}
		allowed := map[string]bool{}
		switch se.Reason {
		case mail.ErrSMTPMailFrom:
			allowed["MAIL"], allowed["RSET"] = true, true
		case mail.ErrSMTPRcptTo:
			allowed["RCPT"], allowed["RSET"] = true, true
		case mail.ErrSMTPData:
			allowed["DATA"], allowed["RSET"] = true, true
		case mail.ErrSMTPDataClose:
			allowed["EOD"] = true
		case mail.ErrSMTPReset:
			allowed["RSET"], allowed["NOOP"] = true, true
		case mail.ErrConnCheck:
			allowed["NOOP"] = true
		}
		txt := se.Error()
		if k := strings.Index(txt, ", affected message ID"); k >= 0 {
			txt = txt[:k]
		}
		for _, tag := range tagRe.FindAllString(txt, -1) {
			e, ok := byTag[tag]
			if !ok {
				continue
			}
			if !allowed[e.Verb] {
				add(fmt.Sprintf("misattributed-reply/reason=%d/reply-of=%s", se.Reason, e.Verb),
					fmt.Sprintf("message %d reports %q but that reply (%s) answered %s %q", i, txt, tag, e.Pos, e.Line))
			} else if t, ok := txnOf[i]; ok && e.Txn != t && (e.Verb == "MAIL" || e.Verb == "RCPT" || e.Verb == "DATA" || e.Verb == "EOD") {
				add(fmt.Sprintf("misattributed-reply/other-message/reply-of=%s", e.Verb),
					fmt.Sprintf("message %d (transaction %d) reports a reply given in transaction %d: %q", i, t, e.Txn, txt))
			}
		}
	}
	// bookkeeping for evidence
	var sts, trs []uint64
	prev := vf.Hash("init")
	for _, e := range tr {
		cls := "ok"
		if e.Reply == "<drop>" {
			cls = "drop"
		} else if e.Code >= 400 {
			cls = fmt.Sprintf("%dyz", e.Code/100)
		}
		cur := vf.Hash(e.Verb, cls, fmt.Sprint(prev%64)) // bounded abstraction: verb × class × 64 predecessor buckets
		sts = append(sts, cur)
		trs = append(trs, vf.Hash(fmt.Sprint(prev), e.Verb, cls, fmt.Sprint(cur)))
		prev = cur
	}
	r.StatesBatch(sts, trs)
	_ = sendErr
	return
}

// c04ExtAtSend tells whether ext was in the EHLO reply that governs the send phase.
func c04ExtAtSend(tr []refsmtp.Exchange, s *refsmtp.Session, ext string) bool {
	last := ""
	for _, e := range tr {
		if (e.Verb == "EHLO" || e.Verb == "HELO") && e.Code/100 == 2 {
			last = e.Reply
			if e.Verb == "HELO" {
				last = ""
			}
		}
	}
	for _, ln := range strings.Split(last, "\r\n") {
		if len(ln) > 4 && strings.HasPrefix(strings.ToUpper(ln[4:]), ext) {
			return true
		}
	}
	return false
}

func c04RunCase(r *vf.Run, cfg c04Cfg, bound, workers int) {
	vf.ExploreN(r, workers, bound, fmt.Sprintf("C04 cfg %+v", cfg), func(c *vf.Chooser) {
		keys, whats := c04Exec(r, cfg, c)
		r.TraceValidated()
		fp := vf.Hash(fmt.Sprintf("%+v", cfg), fmt.Sprint(c.Picks))
		r.Eval(fp, true)
		kase := c04Case{Cfg: cfg, Prefix: append([]int{}, c.Picks...)}
		for i, k := range keys {
			k := k
			r.Violation(k, whats[i]+" — script: "+c.Describe(describeReplyChoiceM)+fmt.Sprintf(" cfg=%+v", cfg), kase, func() string {
				ks, _ := c04Exec(r, cfg, vf.NewChooser(kase.Prefix))
				for _, x := range ks {
					if x == k {
						return k
					}
				}
				return ""
			})
		}
		if len(keys) == 0 {
			r.Outcome("legal")
		} else {
			r.Outcome("illegal")
		}
		if r.NSamples() < 4 && c.Deviations() == 2 {
			r.Sample(map[string]interface{}{"cfg": cfg, "script": c.Describe(describeReplyChoiceM)})
		}
	})
}

func init() {
	vf.Register(&vf.Check{
		ID: "C04", Title: "SMTP dialogue stays legal and in step under every reply script",
		Run: func(r *vf.Run) {
			r.SetRule("every reply script with at most k deviations from the all-success script (alphabet ok / 4yz / 5yz / drop / multi-line success reply / 421 followed by a disconnect at every command position incl. greeting, EHLO, STARTTLS, AUTH, NOOP, RSET, QUIT) × client configuration × advertised capability subset (another one after STARTTLS; and, as a history, the complementary one on an earlier connection of the same Client) × batch shape (optionally led by a message without recipients / without sender, or holding a nil message) × number of Send calls; each execution runs the real Client against the reference SMTP automaton in lock-step; a case is distinct by (configuration, choice vector); 5 sets of concrete 4yz/5yz codes at MAIL, RCPT, DATA and end-of-data (451/550, 452/552, 450/553, 455/555, 421/521)")
			r.Assume("server never offers PIPELINING", "transport writes succeed after the peer closed (bytes discarded) and the next read reports EOF",
				"a reply is 'read' once its bytes left the connection (bufio may hold them)")
			type job struct {
				cfg   c04Cfg
				bound int
			}
			var jobs []job
			shapes := [][2]int{{1, 1}, {2, 2}}
			if r.Thorough {
				shapes = [][2]int{{1, 1}, {1, 3}, {2, 2}, {3, 1}, {3, 3}}
			}
			for caps := 0; caps < 64; caps++ {
				for tls := 0; tls < 2; tls++ {
					for dsn := 0; dsn < 4; dsn++ {
						for enc := 0; enc < 2; enc++ {
							for auth := 0; auth < 2; auth++ {
								for _, sh := range shapes {
									cfg := c04Cfg{TLS: tls, DSN: dsn, Enc8: enc == 1, Auth: auth == 1, Caps: caps, M: sh[0], R: sh[1]}
									usesTLS := tls == 1 && caps&(1<<4) != 0
									b := 1
									if r.Thorough && !(usesTLS && sh[0]*sh[1] > 4) {
										b = 2
									}
									if usesTLS && !r.Thorough && sh[0] > 1 && (dsn != 1 || auth == 0) {
										continue // quick: TLS configurations with the small batch only (handshakes dominate)
									}
									jobs = append(jobs, job{cfg, b})
								}
							}
						}
					}
				}
			}
			// a message that has to be refused locally stands first in the batch
			for _, caps := range []int{0b001111, 0b000000, 0b010111} {
				for bm := 1; bm <= 4; bm++ {
					for tls := 0; tls < 2; tls++ {
						jobs = append(jobs, job{c04Cfg{TLS: tls, DSN: 1, Caps: caps, M: 2, R: 1, BadMsg: bm}, 1}, job{c04Cfg{TLS: tls, DSN: 0, Enc8: true, Caps: caps, M: 1, R: 2, Calls: 2, BadMsg: bm}, 1})
					}
				}
			}
			// histories: the Client was connected before to a server with the complementary capability set
			for caps := 0; caps < 64; caps++ {
				for tls := 0; tls < 2; tls++ {
					for enc := 0; enc < 2; enc++ {
						jobs = append(jobs, job{c04Cfg{TLS: tls, DSN: 1, Enc8: enc == 1, Caps: caps, M: 1, R: 2, Redial: true}, 1})
					}
				}
			}
			// other concrete reply codes of the 4yz / 5yz classes
			for codes := 1; codes < len(c04CodeSets); codes++ {
				for _, caps := range []int{0b001111, 0b000000, 0b010111} {
					b := 1
					if r.Thorough {
						b = 2
					}
					jobs = append(jobs, job{c04Cfg{TLS: 0, DSN: 1, Caps: caps, M: 2, R: 2, Codes: codes}, b}, job{c04Cfg{TLS: 0, DSN: 0, Enc8: true, Caps: caps, M: 1, R: 3, Calls: 2, Codes: codes}, b},
						job{c04Cfg{TLS: 1, DSN: 3, Caps: caps, M: 2, R: 1, NoNoop: true, Codes: codes}, 1})
				}
			}
			// deeper bound on a few representative configurations with the full 3×3 batch
			for _, caps := range []int{0b001111, 0b000000, 0b101101} {
				jobs = append(jobs, job{c04Cfg{TLS: 0, DSN: 1, Caps: caps, M: 2, R: 2, Calls: 2}, 2}, job{c04Cfg{TLS: 0, DSN: 0, Enc8: true, Caps: caps, M: 2, R: 1, Calls: 2, NilMsg: true}, 2},
					job{c04Cfg{TLS: 0, DSN: 3, Caps: caps, M: 1, R: 3, Calls: 3, NoNoop: true}, 2})
			}
			deep := []c04Cfg{
				{TLS: 0, DSN: 1, Caps: 0b001111, M: 3, R: 3},
				{TLS: 0, DSN: 0, Caps: 0b000000, M: 3, R: 3},
				{TLS: 0, DSN: 1, Enc8: true, Caps: 0b101101, M: 3, R: 2, Auth: true},
				{TLS: 0, DSN: 3, Caps: 0b100100, M: 2, R: 3, Auth: true, NoNoop: true},
				{TLS: 1, DSN: 1, Caps: 0b111111, M: 2, R: 2, Auth: true},
				{TLS: 1, DSN: 0, Enc8: true, Caps: 0b010001, M: 2, R: 1},
				{TLS: 0, DSN: 2, Enc8: true, Caps: 0b000001, M: 3, R: 1, NoNoop: true},
				{TLS: 0, DSN: 0, Caps: 0b001000, M: 3, R: 3},
			}
			db := 2
			if r.Thorough {
				db = 3
			}
			for _, d := range deep {
				jobs = append(jobs, job{d, db})
			}
			r.Extra("configurations", len(jobs))
			r.Extra("deviation_bound_all_configs", jobs[0].bound)
			r.Extra("deviation_bound_deep_configs", db)
			// configurations are independent: run them in parallel, each explored sequentially
			r.Parallel(len(jobs), "C04 configurations", func(i int) {
				c04RunCase(r, jobs[i].cfg, jobs[i].bound, 1)
			})
			r.Reached("reached/single-line-ehlo-after-starttls", "reached/starttls-handshake", "reached/second-connection-of-the-client", "reached/second-send-call-committed", "reached/all-committed")
		},
		Replay: func(r *vf.Run, kase json.RawMessage) {
			var k c04Case
			if err := json.Unmarshal(kase, &k); err != nil {
				r.HarnessError("bad case: %v", err)
				return
			}
			c := vf.NewChooser(k.Prefix)
			keys, whats := c04Exec(r, k.Cfg, c)
			r.Eval(1, true)
			fmt.Printf("  cfg=%+v script=%s\n", k.Cfg, c.Describe(describeReplyChoiceM))
			for i, key := range keys {
				fmt.Printf("  -> %s: %s\n", key, whats[i])
				r.Violation(key, whats[i], k, nil)
			}
		},
	})
}
