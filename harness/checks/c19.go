package checks

import (
	"context"
	"crypto/tls"
	"encoding/json"
	"errors"
	"fmt"
	"github.com/wneessen/go-mail/smtp"
	"io"
	"net"
	"strings"
	"time"

	mail "github.com/wneessen/go-mail"

	"verif/hx"
	"verif/refsmtp"
	"verif/sasl"
	"verif/vf"
)

// C19 — no connection outlives a failed operation.

type c19Cfg struct {
	TLS   int  `json:"tls"`   // 0 mandatory, 1 opportunistic, 2 none, 3 implicit (dial func returns a TLS connection)
	Auth  int  `json:"auth"`  // index into c19Auths
	Send  bool `json:"send"`  // DialAndSend instead of DialWithContext
	HSBad int  `json:"hsbad"` // TLS handshake behaviour: 0 ok, 1 wrong-name cert, 2 garbage, 3 drop
	NoSTL bool `json:"nostarttls"`
	// Fallback: the client is configured with WithTLSPortPolicy (port 587 with fallback to 25) and the first dial
	// is refused, so the connection under test is the one of the fallback dial
	Fallback bool `json:"fallback,omitempty"`
	Msgs     int  `json:"msgs,omitempty"` // DialAndSend batch size (default 1)
	// Redial: history — the same Client has already dialled successfully (that earlier connection was not closed by
	// the caller); the judged call is the next DialWithContext / DialAndSend. Whatever the client does with the
	// earlier connection meets {ok, 5yz, drop} there.
	Redial bool `json:"redial,omitempty"`
	// Ctx: 1 the caller's context is cancelled while the dial is in flight and the dialer still hands out a live
	// connection; 2 the caller's context has a deadline that expires while the dial is in flight
	Ctx int `json:"ctx,omitempty"`
	// DLFail > 0: the transport stops supporting deadlines — Set*Deadline fails from its DLFail-th call on (1 = the
	// very first call, right after the dial)
	DLFail int `json:"dlfail,omitempty"`
	// API: 1 = the connection-per-caller variants: DialToSMTPClientWithContext instead of DialWithContext, and
	// DialToSMTPClientWithContext + SendWithSMTPClient + CloseWithSMTPClient instead of DialAndSend
	API    int `json:"api,omitempty"`
	BadMsg int `json:"badmsg,omitempty"` // DialAndSend: 1 = message without recipients, 2 = 8bit message (server has no... it has 8BITMIME) with failing body writer, 3 = nil message only
}

type c19Case struct {
	Cfg    c19Cfg `json:"cfg"`
	Prefix []int  `json:"choices"`
}

var c19Auths = []string{"none", "PLAIN", "LOGIN", "CRAM-MD5", "SCRAM-SHA-256", "XOAUTH2", "auto-discover", "unsupported-mechanism", "helo-with-CR", "SCRAM-SHA-256-PLUS"}
var c19TLSNames = []string{"mandatory", "opportunistic", "none", "implicit"}

const (
	c19User = "user%25@example.test"
	c19Pass = "pass-w0rd-Xq%v"
)

func saslFactory(conn *refsmtp.Conn, user, pass string, trace *sasl.Trace) func(s *refsmtp.Session, m string) refsmtp.AuthExchange {
	return func(s *refsmtp.Session, m string) refsmtp.AuthExchange {
		switch m {
		case "PLAIN":
			return &sasl.Plain{User: user, Pass: pass, T: trace}
		case "LOGIN":
			return &sasl.Login{User: user, Pass: pass, T: trace}
		case "CRAM-MD5":
			return &sasl.CramMD5{User: user, Pass: pass, Challenge: "<1896.697170952@mail.example.test>", T: trace}
		case "XOAUTH2":
			return &sasl.XOAuth2{User: user, Token: pass, T: trace}
		case "SCRAM-SHA-1", "SCRAM-SHA-256", "SCRAM-SHA-1-PLUS", "SCRAM-SHA-256-PLUS":
			sc := &sasl.Scram{User: user, Pass: pass, SHA256: strings.Contains(m, "256"), Plus: strings.HasSuffix(m, "-PLUS"), Salt: []byte("0123456789abcdef"), Iter: 16, SNonce: "srvnonce", T: trace}
			if sc.Plus && conn != nil && conn.ServerTLS != nil {
				st := conn.ServerTLS
				if st.Version >= tls.VersionTLS13 {
					sc.CBType = "tls-exporter"
					sc.CBData, _ = st.ExportKeyingMaterial("EXPORTER-Channel-Binding", []byte{}, 32)
				} else {
					sc.CBType, sc.CBData = "tls-unique", st.TLSUnique
				}
			}
			return sc
		}
		return nil
	}
}

func c19Exec(r *vf.Run, cfg c19Cfg, c *vf.Chooser) (keys, whats []string) {
	add := func(k, w string) { keys = append(keys, k); whats = append(whats, w) }
	auth := c19Auths[cfg.Auth]
	mechs := "PLAIN LOGIN CRAM-MD5 SCRAM-SHA-1 SCRAM-SHA-256 SCRAM-SHA-256-PLUS XOAUTH2"
	if auth == "unsupported-mechanism" {
		mechs = "GSSAPI NTLM"
	}
	caps := []string{"8BITMIME", "AUTH " + mechs}
	if !cfg.NoSTL {
		caps = append(caps, "STARTTLS")
	}
	sess := &refsmtp.Session{Host: hx.Host, Caps: caps}
	conn := refsmtp.NewConn(sess)
	switch cfg.HSBad {
	case 0:
		conn.TLSConfig = hx.ServerTLS(hx.Mat().Good)
	case 1:
		conn.TLSConfig = hx.ServerTLS(hx.Mat().WrongName)
	case 2:
		conn.TLSMode = refsmtp.TLSGarbage
	case 3:
		conn.TLSMode = refsmtp.TLSDrop
	}
	if cfg.DLFail > 0 {
		conn.DeadlineFailAfter = cfg.DLFail - 1
	}
	trace := &sasl.Trace{}
	sess.NewAuth = saslFactory(conn, c19User, c19Pass, trace)
	sess.Script = stdScriptB(c, 9, func() { conn.BreakWrites = true }, func() { conn.WriteStallAt = conn.Written })
	dials := 0
	var prev *refsmtp.Conn
	prevLive := false // once the first dial has succeeded the earlier connection answers by choice
	if cfg.Redial {
		ps := &refsmtp.Session{Host: hx.Host, Caps: caps}
		prev = refsmtp.NewConn(ps)
		prev.TLSConfig = hx.ServerTLS(hx.Mat().Good)
		prev.ImplicitTLS = cfg.TLS == 3
		ps.NewAuth = saslFactory(prev, c19User, c19Pass, &sasl.Trace{})
		ps.Script = func(s *refsmtp.Session, ev *refsmtp.Event, def refsmtp.Action) refsmtp.Action {
			if !prevLive || def.Kind != refsmtp.ActReply {
				return def
			}
			switch c.Choose("earlier-connection:"+ev.Pos(), 3) {
			case 1:
				return refsmtp.Action{Kind: refsmtp.ActReply, Code: 554, Text: []string{"5.0.0 no"}}
			case 2:
				return refsmtp.Action{Kind: refsmtp.ActDrop}
			}
			return def
		}
	}
	handed := false
	rig := &hx.Rig{Mk: func(n int) *refsmtp.Conn {
		if prev != nil && n == 0 {
			return prev
		}
		handed = true
		dials++
		if cfg.Fallback && dials == 1 {
			return nil // primary port refused
		}
		if dials > 2 || (!cfg.Fallback && dials > 1) {
			return nil
		}
		return conn
	}}
	ctx := context.Background()
	switch cfg.Ctx {
	case 1:
		var cancel context.CancelFunc
		ctx, cancel = context.WithCancel(ctx)
		defer cancel()
		rig.OnDial = func(int) { cancel() }
	case 2:
		var cancel context.CancelFunc
		ctx, cancel = context.WithDeadline(ctx, time.Now().Add(time.Hour))
		defer cancel()
		rig.OnDial = func(int) {
			// replace the deadline by one that has passed: emulated by cancelling a child with DeadlineExceeded cause
			cancel()
		}
	}
	if cfg.TLS == 3 {
		conn.ImplicitTLS = true
		rig.Wrap = func(cn *refsmtp.Conn) net.Conn { return tls.Client(cn, hx.ClientTLS(hx.Host)) }
	}
	helo := "client.example.test"
	if auth == "helo-with-CR" {
		helo = "client.example.test\rX-injected"
	}
	opts := []mail.Option{mail.WithDialContextFunc(rig.Dial), mail.WithHELO(helo), mail.WithTLSConfig(hx.ClientTLS(hx.Host))}
	switch cfg.TLS {
	case 0:
		opts = append(opts, mail.WithTLSPolicy(mail.TLSMandatory))
	case 1:
		if cfg.Fallback {
			opts = append(opts, mail.WithTLSPortPolicy(mail.TLSOpportunistic))
		} else {
			opts = append(opts, mail.WithTLSPolicy(mail.TLSOpportunistic))
		}
	case 2:
		opts = append(opts, mail.WithTLSPolicy(mail.NoTLS))
	case 3:
		opts = append(opts, mail.WithSSL())
	}
	types := map[string]mail.SMTPAuthType{"PLAIN": mail.SMTPAuthPlainNoEnc, "LOGIN": mail.SMTPAuthLoginNoEnc, "CRAM-MD5": mail.SMTPAuthCramMD5,
		"XOAUTH2": mail.SMTPAuthXOAUTH2, "SCRAM-SHA-256": mail.SMTPAuthSCRAMSHA256, "SCRAM-SHA-256-PLUS": mail.SMTPAuthSCRAMSHA256PLUS,
		"auto-discover": mail.SMTPAuthAutoDiscover, "unsupported-mechanism": mail.SMTPAuthCramMD5}
	if t, ok := types[auth]; ok {
		opts = append(opts, mail.WithSMTPAuth(t), mail.WithUsername(c19User), mail.WithPassword(c19Pass))
	}
	cl, err := mail.NewClient(hx.Host, opts...)
	if err != nil {
		r.HarnessError("C19 NewClient: %v", err)
		return
	}
	if cfg.Redial {
		if err := cl.DialWithContext(context.Background()); err != nil {
			r.HarnessError("C19 %+v: the fault-free first dial failed: %v", cfg, err)
			return
		}
		prevLive = true
	}
	var opErr error
	var ownConn *smtp.Client
	pan, pw := vf.Guard(func() {
		if cfg.Send {
			var ms []*mail.Msg
			for i := 0; i < maxInt(1, cfg.Msgs); i++ {
				ms = append(ms, hx.StdMsg(i, 1+i%2, mail.EncodingQP))
			}
			switch cfg.BadMsg {
			case 1:
				bad := mail.NewMsg()
				_ = bad.From("sender@snd.example")
				bad.SetBodyString(mail.TypeTextPlain, "no recipients")
				ms = append([]*mail.Msg{bad}, ms...)
			case 2:
				bad := hx.StdMsg(9, 1, mail.EncodingQP)
				bad.SetBodyWriter(mail.TypeTextPlain, func(w io.Writer) (int64, error) { return 0, errProducer })
				ms = append(ms, bad)
			case 3:
				ms = []*mail.Msg{nil}
			}
			if cfg.API == 1 {
				var sc *smtp.Client
				if sc, opErr = cl.DialToSMTPClientWithContext(ctx); opErr == nil {
					serr := cl.SendWithSMTPClient(sc, ms...)
					opErr = errors.Join(serr, cl.CloseWithSMTPClient(sc))
				}
			} else {
				opErr = cl.DialAndSendWithContext(ctx, ms...)
			}
		} else if cfg.API == 1 {
			ownConn, opErr = cl.DialToSMTPClientWithContext(ctx)
		} else {
			opErr = cl.DialWithContext(ctx)
		}
	})
	if pan {
		add("panic/"+vf.PanicSite(pw), pw)
		return
	}
	protoStates(r, sess.Transcript)
	opened := handed && dials > 0
	closed := conn.ClientClosed()
	// where did it fail? the last exchange that was not a plain success
	failAt := "local"
	tr := sess.Transcript
	if len(tr) > 0 {
		last := tr[len(tr)-1]
		failAt = last.Verb
		for i := len(tr) - 1; i >= 0; i-- {
			e := tr[i]
			if e.Reply == "<drop>" || e.Code >= 400 || (e.Code == 0 && e.Reply != "") {
				failAt = e.Verb
				if e.Reply == "<drop>" {
					failAt += ":drop"
				} else if e.Code >= 400 {
					failAt += fmt.Sprintf(":%dyz", e.Code/100)
				} else {
					failAt += ":garbage"
				}
				break
			}
		}
	}
	if sess.AwaitingTLS() || conn.TLSErr != nil || (cfg.HSBad >= 2 && (cfg.TLS == 3 || sess.Closed)) {
		if conn.TLSErr != nil || cfg.HSBad >= 2 {
			failAt = "TLS-handshake"
		}
	}
	op := "DialWithContext"
	if cfg.Send {
		op = "DialAndSend"
	}
	if cfg.API == 1 {
		op = map[bool]string{false: "DialToSMTPClientWithContext", true: "DialToSMTPClient+SendWithSMTPClient+CloseWithSMTPClient"}[cfg.Send]
		if handed {
			r.Outcome("reached/connection-per-caller-api")
		}
	}
	if opErr != nil && opened && !closed {
		add(fmt.Sprintf("connection-left-open/op=%s/failed-at=%s", op, failAt),
			fmt.Sprintf("%s returned %q but the connection it opened was not closed (tls=%s auth=%s); replies: %s", op, opErr, c19TLSNames[cfg.TLS], auth, c.Describe(describeReplyChoice)))
	}
	if opErr == nil && cfg.Send {
		if !sess.QuitSeen {
			add("successful-dialandsend-without-quit", fmt.Sprintf("DialAndSend returned nil but no QUIT was sent; replies: %s", c.Describe(describeReplyChoice)))
		}
		if !closed {
			add("successful-dialandsend-left-open", fmt.Sprintf("DialAndSend returned nil but the connection is still open; replies: %s", c.Describe(describeReplyChoice)))
		}
	}
	if cfg.Redial && handed {
		r.Outcome("reached/redial-judged")
	}
	if cfg.Ctx == 1 && handed {
		r.Outcome("reached/context-cancelled-during-dial")
	}
	if cfg.Fallback && handed {
		r.Outcome("reached/fallback-connection")
	}
	if cfg.DLFail > 0 && opErr != nil && opened {
		r.Outcome(fmt.Sprintf("reached/deadline-call-%d-failed", cfg.DLFail))
	}
	if opErr != nil && opened && closed {
		r.Outcome("reached/closed-after-failure/tls=" + c19TLSNames[cfg.TLS])
	}
	if opErr == nil && !cfg.Send {
		r.Outcome("dial-ok")
		if ownConn != nil {
			_ = cl.CloseWithSMTPClient(ownConn)
		}
		_ = cl.Close()
	} else if opErr == nil {
		r.Outcome("dialandsend-ok")
	} else {
		r.Outcome("error")
	}
	return
}

func init() {
	vf.Register(&vf.Check{
		ID: "C19", Title: "no connection outlives a failed operation",
		Run: func(r *vf.Run) {
			r.SetRule("reply ∈ {ok, 4yz, 5yz, drop, garbage, ok-but-the-next-client-write-fails, 421 followed by a disconnect, ok-but-late (the reply reaches the socket after the client's read timed out; outside TLS), ok-then-the-peer-stops-reading (the client's next write runs into its deadline; outside TLS)} at every step of dial and dial-and-send (greeting, EHLO, HELO fallback, STARTTLS, each AUTH step, NOOP, MAIL, RCPT, DATA, end-of-data, RSET, QUIT) up to the deviation bound × TLS policy {mandatory, opportunistic, none, implicit} × handshake {ok, wrong-name certificate, garbage, drop} × STARTTLS advertised or not × auth {none, PLAIN, LOGIN, CRAM-MD5, SCRAM-SHA-256, XOAUTH2, auto-discover, mechanism not offered, HELO name containing CR, SCRAM-SHA-256-PLUS}; plus a transport on which Set*Deadline fails from the 1st / 2nd / 3rd call on; plus the same calls with a caller context that is cancelled while the dial is in flight (the dialer still hands out a live connection), and through the connection-per-caller variants (DialToSMTPClientWithContext alone, and followed by SendWithSMTPClient + CloseWithSMTPClient), and on a Client that is already connected (whatever it then does with the earlier connection is answered {ok, 5yz, drop}); oracle: Close() was called on the fake connection by the time the failing call returns; distinct by (configuration, script)")
			r.Assume("'closed' means net.Conn.Close was called on the connection the dial function handed out (or on a TLS wrapper around it)")
			bound := 2
			if r.Thorough {
				bound = 3
			}
			r.Extra("deviation_bound", bound)
			var cfgs []c19Cfg
			for tlsm := 0; tlsm < 4; tlsm++ {
				for a := range c19Auths {
					for _, send := range []bool{false, true} {
						for hs := 0; hs < 4; hs++ {
							for _, nostl := range []bool{false, true} {
								usesHS := (tlsm == 0 || tlsm == 1) && !nostl || tlsm == 3
								if hs > 0 && !usesHS {
									continue
								}
								if nostl && tlsm >= 2 {
									continue
								}
								if c19Auths[a] == "SCRAM-SHA-256-PLUS" && !usesHS {
									continue
								}
								if hs > 0 && (send || (a != 0 && a != 1)) {
									continue // a failed handshake never reaches AUTH or the send phase
								}
								cfgs = append(cfgs, c19Cfg{TLS: tlsm, Auth: a, Send: send, HSBad: hs, NoSTL: nostl})
								if tlsm == 1 && hs == 0 && (a == 0 || a == 1) {
									cfgs = append(cfgs, c19Cfg{TLS: tlsm, Auth: a, Send: send, HSBad: hs, NoSTL: nostl, Fallback: true})
								}
								if hs == 0 && !nostl && a <= 1 && tlsm != 3 {
									// a transport whose deadline support fails at the 1st / 2nd / 3rd call
									for dl := 1; dl <= 3; dl++ {
										cfgs = append(cfgs, c19Cfg{TLS: tlsm, Auth: a, Send: send, DLFail: dl})
									}
								}
								if hs == 0 && !nostl && a <= 1 {
									// the caller's context ends while the dial is in flight, the connection is handed out anyway
									cfgs = append(cfgs, c19Cfg{TLS: tlsm, Auth: a, Send: send, Ctx: 1})
								}
								if hs == 0 && !nostl && a <= 2 {
									// history: the Client is already connected when the judged call starts
									cfgs = append(cfgs, c19Cfg{TLS: tlsm, Auth: a, Send: send, Redial: true})
								}
								if hs == 0 || !send {
									cfgs = append(cfgs, c19Cfg{TLS: tlsm, Auth: a, Send: send, HSBad: hs, NoSTL: nostl, API: 1})
								}
								if send && tlsm == 2 && a == 0 {
									cfgs = append(cfgs, c19Cfg{TLS: tlsm, Auth: a, Send: send, Msgs: 2, API: 1}, c19Cfg{TLS: tlsm, Auth: a, Send: send, BadMsg: 2, API: 1})
								}
								if send && tlsm == 2 && a == 0 {
									for bm := 1; bm <= 3; bm++ {
										cfgs = append(cfgs, c19Cfg{TLS: tlsm, Auth: a, Send: send, BadMsg: bm})
									}
								}
								if send && tlsm == 2 && (a == 0 || a == 2) {
									cfgs = append(cfgs, c19Cfg{TLS: tlsm, Auth: a, Send: send, Msgs: 2}, c19Cfg{TLS: tlsm, Auth: a, Send: send, Msgs: 3})
								}
							}
						}
					}
				}
			}
			r.Extra("configurations", len(cfgs))
			r.Parallel(len(cfgs), "C19 configurations", func(i int) {
				cfg := cfgs[i]
				b := bound
				if cfg.TLS != 2 && !r.Thorough && cfg.Send {
					b = 1 // quick: handshake-bearing send configurations at bound 1
				}
				vf.ExploreN(r, 1, b, fmt.Sprintf("C19 %+v", cfg), func(c *vf.Chooser) {
					keys, whats := c19Exec(r, cfg, c)
					r.TraceValidated()
					r.Eval(vf.Hash(fmt.Sprintf("%+v", cfg), fmt.Sprint(c.Picks)), true)
					if r.NSamples() < 5 && c.Deviations() == 2 {
						r.Sample(map[string]interface{}{"cfg": cfg, "tls": c19TLSNames[cfg.TLS], "auth": c19Auths[cfg.Auth], "script": c.Describe(describeReplyChoice)})
					}
					kase := c19Case{Cfg: cfg, Prefix: append([]int{}, c.Picks...)}
					for j, k := range keys {
						k := k
						r.Violation(k, whats[j], kase, func() string {
							ks, _ := c19Exec(r, cfg, vf.NewChooser(kase.Prefix))
							for _, x := range ks {
								if x == k {
									return k
								}
							}
							return ""
						})
					}
				})
			})
			r.Reached("reached/connection-per-caller-api", "reached/deadline-call-1-failed", "reached/redial-judged", "reached/context-cancelled-during-dial", "reached/fallback-connection", "reached/closed-after-failure/tls=mandatory", "reached/closed-after-failure/tls=opportunistic",
				"reached/closed-after-failure/tls=none", "reached/closed-after-failure/tls=implicit", "dial-ok", "dialandsend-ok")
		},
		Replay: func(r *vf.Run, kase json.RawMessage) {
			var k c19Case
			if err := json.Unmarshal(kase, &k); err != nil {
				r.HarnessError("bad case: %v", err)
				return
			}
			c := vf.NewChooser(k.Prefix)
			keys, whats := c19Exec(r, k.Cfg, c)
			r.Eval(1, true)
			fmt.Printf("  cfg=%+v tls=%s auth=%s replies=%s\n", k.Cfg, c19TLSNames[k.Cfg.TLS], c19Auths[k.Cfg.Auth], c.Describe(describeReplyChoice))
			for i, key := range keys {
				fmt.Printf("  -> %s: %s\n", key, whats[i])
				r.Violation(key, whats[i], k, nil)
			}
		},
	})
}
