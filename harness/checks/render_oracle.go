package checks

import (
	"bytes"
	"fmt"
	"mime"
	"path/filepath"
	"strings"

	"verif/mb"
	"verif/mimeread"
)

// finding is one oracle complaint with a stable key.
type finding struct{ key, what string }

// canonLB maps every line break (CRLF, bare LF, bare CR) to CRLF.
func canonLB(b []byte) []byte {
	var out []byte
	for i := 0; i < len(b); i++ {
		c := b[i]
		if c == '\r' {
			out = append(out, '\r', '\n')
			if i+1 < len(b) && b[i+1] == '\n' {
				i++
			}
			continue
		}
		if c == '\n' {
			out = append(out, '\r', '\n')
			continue
		}
		out = append(out, c)
	}
	return out
}

// canonLF maps CRLF and bare LF to CRLF but leaves a bare CR alone (the canonicalisation the property allows).
func canonLF(b []byte) []byte {
	var out []byte
	for i := 0; i < len(b); i++ {
		c := b[i]
		if c == '\r' && i+1 < len(b) && b[i+1] == '\n' {
			out = append(out, '\r', '\n')
			i++
			continue
		}
		if c == '\n' {
			out = append(out, '\r', '\n')
			continue
		}
		out = append(out, c)
	}
	return out
}

func hasBareCR(b []byte) bool {
	for i := 0; i < len(b); i++ {
		if b[i] == '\r' && (i+1 >= len(b) || b[i+1] != '\n') {
			return true
		}
	}
	return false
}

// sanitizeName is the documented replacement of control and path characters in file names by '_'.
func sanitizeName(s string) string {
	var b strings.Builder
	for i := 0; i < len(s); i++ {
		c := s[i]
		if c < 32 || c == 127 || strings.IndexByte(`"/:<>?\|`, c) >= 0 {
			b.WriteByte('_')
		} else {
			b.WriteByte(c)
		}
	}
	return b.String()
}

type leafExp struct {
	kind    string // "part", "embed", "attach"
	idx     int
	mtype   string
	content []byte
	enc     string // "qp", "b64", "8bit"
	name    string
	desc    string
	charset string // body parts: the declared charset ("" = UTF-8)
}

func encName(s string) string {
	switch s {
	case "b64":
		return "base64"
	case "8bit":
		return "8bit"
	case "usascii":
		return "7bit"
	}
	return "quoted-printable"
}

// expectedLeaves lists the leaves a spec must produce, in order, and the expected nesting.
func expectedLeaves(s mb.Msg) (leaves []leafExp, shape string) {
	menc := s.Enc
	if menc == "" {
		menc = "qp"
	}
	var ps, es, as []string
	for i, p := range s.Parts {
		if p.Deleted {
			continue
		}
		enc := p.Enc
		if enc == "" {
			enc = menc
		}
		t := p.Type
		if t == "" {
			t = "text/plain"
		}
		if i := strings.IndexByte(t, ';'); i > 0 {
			t = strings.TrimSpace(t[:i]) // a content type given with parameters: the media type is what precedes them
		}
		leaves = append(leaves, leafExp{kind: "part", idx: i, mtype: t, content: p.Content, enc: enc, desc: p.Desc, charset: p.Charset})
		ps = append(ps, t)
	}
	fileType := func(f mb.File) string {
		if f.CT != "" {
			return strings.ToLower(f.CT)
		}
		t := mime.TypeByExtension(filepath.Ext(f.Name))
		if t == "" {
			return "application/octet-stream"
		}
		if i := strings.IndexByte(t, ';'); i >= 0 {
			t = t[:i]
		}
		return strings.ToLower(strings.TrimSpace(t))
	}
	for i, f := range s.Embeds {
		enc := f.Enc
		if enc == "" {
			enc = "b64"
		}
		leaves = append(leaves, leafExp{kind: "embed", idx: i, mtype: fileType(f), content: f.Content, enc: enc, name: f.Name, desc: f.Desc})
		es = append(es, fileType(f))
	}
	for i, f := range s.Attach {
		enc := f.Enc
		if enc == "" {
			enc = "b64"
		}
		leaves = append(leaves, leafExp{kind: "attach", idx: i, mtype: fileType(f), content: f.Content, enc: enc, name: f.Name, desc: f.Desc})
		as = append(as, fileType(f))
	}
	if s.PGP > 0 {
		// PGP/MIME: one multipart/encrypted or multipart/signed around everything the caller supplied, in order
		all := append(append(append([]string{}, ps...), es...), as...)
		return leaves, []string{"", "encrypted", "signed"}[s.PGP] + "(" + strings.Join(all, ",") + ")"
	}
	// nesting: mixed > related > alternative, each level exactly when it has to hold more than one thing
	inner := strings.Join(ps, ",")
	n := len(ps)
	if len(ps) > 1 {
		inner = "alternative(" + inner + ")"
		n = 1
	}
	if len(es) > 0 {
		items := append([]string{}, es...)
		if n > 0 {
			items = append([]string{inner}, es...)
		}
		if len(items) > 1 {
			inner = "related(" + strings.Join(items, ",") + ")"
		} else {
			inner = items[0]
		}
		n = 1
	}
	if len(as) > 0 {
		items := append([]string{}, as...)
		if n > 0 {
			items = append([]string{inner}, as...)
		}
		if len(items) > 1 {
			inner = "mixed(" + strings.Join(items, ",") + ")"
		} else {
			inner = items[0]
		}
	}
	return leaves, inner
}

// checkRendered judges rendered bytes against the specification with the independent reader.
// root may be the entity to judge (e.g. the first part of multipart/signed); nil = parse raw.
func checkRendered(s mb.Msg, raw []byte, root *mimeread.Entity) []finding {
	var out []finding
	add := func(k, f string, a ...interface{}) { out = append(out, finding{k, fmt.Sprintf(f, a...)}) }
	if root == nil {
		root = mimeread.Parse(raw)
	}
	for _, p := range root.AllProblems() {
		cls := p
		if i := strings.IndexAny(cls, "\"%0123456789"); i > 0 {
			cls = strings.TrimSpace(cls[:i])
		}
		cls = strings.ReplaceAll(cls, " ", "-")
		add("malformed/"+cls, "independent reader: %s", p)
	}
	leaves, shape := expectedLeaves(s)
	got := root.Shape()
	if len(leaves) == 0 {
		return out // a message without any content has no structure to check
	}
	if got != shape {
		add(fmt.Sprintf("nesting/want=%s", shapeClass(shape)), "multipart nesting is %s, want %s", got, shape)
	}
	gl := root.Leaves()
	if len(gl) != len(leaves) {
		add(fmt.Sprintf("leaf-count/want=%d/got=%d/%s", len(leaves), len(gl), shapeClass(shape)), "the reader finds %d leaves, the caller supplied %d (structure %s)", len(gl), len(leaves), got)
		return out
	}
	// boundaries: distinct per multipart, each closed
	var walk func(e *mimeread.Entity, seen map[string]bool)
	walk = func(e *mimeread.Entity, seen map[string]bool) {
		if strings.HasPrefix(e.MediaType, "multipart/") {
			b := e.Params["boundary"]
			if seen[b] {
				add("boundary-reused", "boundary %q is used by more than one multipart", b)
			}
			seen[b] = true
			if !e.Closed {
				add("multipart-not-closed/"+strings.TrimPrefix(e.MediaType, "multipart/"), "%s is not terminated by its close-delimiter", e.MediaType)
			}
			for _, c := range e.Children {
				walk(c, seen)
			}
		}
	}
	walk(root, map[string]bool{})
	for i, exp := range leaves {
		e := gl[i]
		id := fmt.Sprintf("%s%d", exp.kind, exp.idx)
		cls := fmt.Sprintf("%s/enc=%s", exp.kind, exp.enc)
		if e.MediaType != exp.mtype {
			add("media-type/"+exp.kind, "%s: media type %q, want %q", id, e.MediaType, exp.mtype)
		}
		if e.CTE != encName(exp.enc) {
			add("cte/"+cls, "%s: Content-Transfer-Encoding %q, want %q", id, e.CTE, encName(exp.enc))
		}
		dec, err := e.DecodeBody()
		if err != nil {
			add("undecodable/"+cls, "%s: body does not decode as %s: %v", id, e.CTE, err)
			continue
		}
		// the multipart writer separates parts by CRLF; a single-part message body is taken as is
		switch {
		case bytes.Equal(dec, exp.content):
		case exp.enc == "qp" && bytes.Equal(canonLF(dec), canonLF(exp.content)):
		case exp.enc == "qp" && bytes.Equal(canonLB(dec), canonLB(exp.content)) && hasBareCR(exp.content):
			add("content/qp-bare-CR-becomes-CRLF", "%s: quoted-printable turned a bare CR of the content into CRLF", id)
		default:
			k := 0
			for k < len(dec) && k < len(exp.content) && dec[k] == exp.content[k] {
				k++
			}
			add("content/"+cls, "%s: decoded content differs from what was supplied at byte %d (got %d bytes %q…, want %d bytes %q…)", id, k, len(dec), clipb(dec[minInt(k, len(dec)):], 24), len(exp.content), clipb(exp.content[minInt(k, len(exp.content)):], 24))
		}
		if exp.kind == "part" {
			wantCS := "UTF-8"
			if exp.charset != "" {
				wantCS = exp.charset
			}
			if cs := e.Params["charset"]; !strings.EqualFold(cs, wantCS) {
				add("charset/part", "%s: charset parameter %q, want %s", id, cs, wantCS)
			}
			if d := e.First("Content-Disposition"); d != "" {
				add("disposition/part", "%s: unexpected Content-Disposition %q", id, d)
			}
		} else {
			disp, dparams, derr := mimeread.ParseParamHeader(e.First("Content-Disposition"))
			wantDisp := "inline"
			if exp.kind == "attach" {
				wantDisp = "attachment"
			}
			if derr != nil || !strings.EqualFold(disp, wantDisp) {
				add("disposition/"+exp.kind, "%s: Content-Disposition %q (err %v), want %s", id, e.First("Content-Disposition"), derr, wantDisp)
			}
			wantName := sanitizeName(exp.name)
			for where, v := range map[string]string{"filename": dparams["filename"], "name": e.Params["name"]} {
				dn, err := mimeread.DecodeWords(v)
				if err != nil || dn != wantName {
					add("filename/"+where+"/"+exp.kind, "%s: %s parameter decodes to %q (err %v), want %q", id, where, dn, err, wantName)
				}
			}
			if exp.kind == "embed" {
				if cid := e.First("Content-ID"); cid != "<"+wantName+">" {
					add("content-id/embed", "%s: Content-ID %q, want <%s>", id, cid, wantName)
				}
			}
		}
	}
	return out
}

func minInt(a, b int) int {
	if a < b {
		return a
	}
	return b
}

// shapeClass abstracts an expected nesting string to its multipart skeleton, e.g. "mixed(related(alternative))".
func shapeClass(shape string) string {
	var b strings.Builder
	depth := 0
	for _, w := range []string{"mixed(", "related(", "alternative("} {
		if strings.Contains(shape, w) {
			b.WriteString(w)
			depth++
		}
	}
	if depth == 0 {
		n := strings.Count(shape, ",") + 1
		return fmt.Sprintf("flat-%d", n)
	}
	b.WriteString(strings.Repeat(")", depth))
	return b.String()
}
