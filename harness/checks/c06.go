package checks

import (
	"bytes"
	"context"
	"encoding/json"
	"fmt"
	netmail "net/mail"
	"strings"

	mail "github.com/wneessen/go-mail"

	"verif/hx"
	"verif/mimeread"
	"verif/refsmtp"
	"verif/vf"
)

// C06 — recipients are exactly To+Cc+Bcc, and Bcc stays hidden.

type c06Case struct {
	Ops []int `json:"ops"`
	// Reuse: the caller keeps the slices the getters returned and appends to them later (after further calls on the
	// Msg) — ordinary Go usage that must not reach into the message
	Reuse bool `json:"reuse,omitempty"`
	// Base: the message already has a sender and a Cc recipient before the sequence starts, so that every sequence ends
	// in a delivery
	Base bool `json:"base,omitempty"`
}

type na struct{ Name, Addr string }

type c06Op struct {
	name string
	// apply performs the call on the real Msg and returns its error
	apply func(m *mail.Msg) error
	// model applies the documented semantics to the reference; returns false when the outcome has to be
	// resynchronised from the getters (error returned or *IgnoreInvalid)
	model func(ref map[string][]na) bool
}

var (
	c06A0  = na{"", "a0@x.example"}
	c06A1  = na{"Doe, John", "a1@x.example"}
	c06A2  = na{"Jürgen Müller", "a2@x.example"}
	c06A3  = na{"", "b3@hidden.example"}
	c06Bad = "not an address"
)

func (a na) str() string {
	if a.Name == "" {
		return a.Addr
	}
	return fmt.Sprintf(`"%s" <%s>`, a.Name, a.Addr)
}

func c06Ops() []c06Op {
	var ops []c06Op
	set := func(h string, list ...na) func(ref map[string][]na) bool {
		return func(ref map[string][]na) bool { ref[h] = append([]na{}, list...); return true }
	}
	appendTo := func(h string, a na) func(ref map[string][]na) bool {
		return func(ref map[string][]na) bool { ref[h] = append(ref[h], a); return true }
	}
	resync := func(ref map[string][]na) bool { return false }
	ops = append(ops,
		c06Op{"From(plain)", func(m *mail.Msg) error { return m.From(c06A0.str()) }, set("From", c06A0)},
		c06Op{"From(quoted name)", func(m *mail.Msg) error { return m.From(c06A1.str()) }, set("From", c06A1)},
		c06Op{"FromFormat(non-ASCII, comma)", func(m *mail.Msg) error { return m.FromFormat("Ünï, Name", "a2@x.example") }, set("From", na{"Ünï, Name", "a2@x.example"})},
		c06Op{"From(invalid)", func(m *mail.Msg) error { return m.From(c06Bad) }, resync},
		c06Op{"EnvelopeFrom", func(m *mail.Msg) error { return m.EnvelopeFrom("bounce@env.example") }, set("EnvelopeFrom", na{"", "bounce@env.example"})},
		c06Op{"EnvelopeFrom(VERP with %)", func(m *mail.Msg) error { return m.EnvelopeFrom("bounces+alice%25x=example.org%s@lists.example") }, set("EnvelopeFrom", na{"", "bounces+alice%25x=example.org%s@lists.example"})},
		c06Op{"From(plus, percent)", func(m *mail.Msg) error { return m.From("o'brien+tag%d@x.example") }, set("From", na{"", "o'brien+tag%d@x.example"})},
		c06Op{"ReplyTo(quoted name)", func(m *mail.Msg) error { return m.ReplyTo(c06A1.str()) }, set("Reply-To", c06A1)},
		c06Op{"ReplyToFormat(non-ASCII)", func(m *mail.Msg) error { return m.ReplyToFormat("Jürgen Müller", "a2@x.example") }, set("Reply-To", c06A2)},
	)
	ops = append(ops,
		c06Op{"EnvelopeFromFormat(name)", func(m *mail.Msg) error { return m.EnvelopeFromFormat("Bounce, Handler", "vbounce@env.example") }, set("EnvelopeFrom", na{"Bounce, Handler", "vbounce@env.example"})},
		c06Op{"SetAddrHeader(To, two)", func(m *mail.Msg) error { return m.SetAddrHeader(mail.HeaderTo, c06A1.str(), c06A0.str()) }, set("To", c06A1, c06A0)},
		c06Op{"SetAddrHeader(Bcc, own)", func(m *mail.Msg) error { return m.SetAddrHeader(mail.HeaderBcc, c06A3.str()) }, set("Bcc", c06A3)},
		c06Op{"SetAddrHeaderIgnoreInvalid(Cc, valid+invalid)", func(m *mail.Msg) error { m.SetAddrHeaderIgnoreInvalid(mail.HeaderCc, c06A2.str(), c06Bad); return nil }, resync},
		c06Op{"SetAddrHeader(From, two: first wins)", func(m *mail.Msg) error { return m.SetAddrHeader(mail.HeaderFrom, c06A1.str(), c06A0.str()) }, set("From", c06A1)},
	)
	// local parts that are only legal as quoted-string (parentheses, brackets): the envelope must name exactly them
	ops = append(ops,
		c06Op{"AddTo(quoted local part with parentheses)", func(m *mail.Msg) error { return m.AddTo(`"ops(oncall)"@x.example`) }, appendTo("To", na{"", "ops(oncall)@x.example"})},
		c06Op{"From(quoted local part with brackets)", func(m *mail.Msg) error { return m.From(`"list[eu]"@x.example`) }, set("From", na{"", "list[eu]@x.example"})},
	)
	// display names with runs of blanks and a TAB: white space inside a quoted display name is part of the name
	ops = append(ops,
		c06Op{"FromFormat(name with two blanks)", func(m *mail.Msg) error { return m.FromFormat("Doe,  John", "a4@x.example") }, set("From", na{"Doe,  John", "a4@x.example"})},
		c06Op{"ReplyToFormat(name with TAB)", func(m *mail.Msg) error { return m.ReplyToFormat("Support\tDesk", "a5@x.example") }, set("Reply-To", na{"Support\tDesk", "a5@x.example"})},
	)
	// Reset() in the middle of a sequence (a Msg re-used for the next mail): every address list starts empty again
	ops = append(ops,
		c06Op{"Reset()", func(m *mail.Msg) error { m.Reset(); return nil }, func(ref map[string][]na) bool {
			for h := range ref {
				delete(ref, h)
			}
			return true
		}},
	)
	// renderings and a send in the middle of the sequence: they must not change what later calls mean
	ops = append(ops,
		c06Op{"(render)", func(m *mail.Msg) error { var b bytes.Buffer; _, err := m.WriteTo(&b); return err }, func(ref map[string][]na) bool { return true }},
		c06Op{"(NewReader)", func(m *mail.Msg) error { _ = m.NewReader(); return nil }, func(ref map[string][]na) bool { return true }},
		c06Op{"(GetRecipients, GetSender)", func(m *mail.Msg) error {
			_, _ = m.GetRecipients()
			_, _ = m.GetSender(true)
			_, _ = m.GetSender(false)
			return nil
		}, func(ref map[string][]na) bool { return true }},
	)
	type hdr struct {
		name    string
		set     func(m *mail.Msg, l ...string) error
		add     func(m *mail.Msg, a string) error
		addFmt  func(m *mail.Msg, n, a string) error
		ignore  func(m *mail.Msg, l ...string)
		fromStr func(m *mail.Msg, s string) error
	}
	hs := []hdr{
		{"To", (*mail.Msg).To, (*mail.Msg).AddTo, (*mail.Msg).AddToFormat, (*mail.Msg).ToIgnoreInvalid, (*mail.Msg).ToFromString},
		{"Cc", (*mail.Msg).Cc, (*mail.Msg).AddCc, (*mail.Msg).AddCcFormat, (*mail.Msg).CcIgnoreInvalid, (*mail.Msg).CcFromString},
		{"Bcc", (*mail.Msg).Bcc, (*mail.Msg).AddBcc, (*mail.Msg).AddBccFormat, (*mail.Msg).BccIgnoreInvalid, (*mail.Msg).BccFromString},
	}
	for _, h := range hs {
		h := h
		own := na{"", strings.ToLower(h.name) + "only@x.example"}
		if h.name == "Bcc" {
			own = c06A3
		}
		ops = append(ops,
			c06Op{h.name + "(own, quoted)", func(m *mail.Msg) error { return h.set(m, own.str(), c06A1.str()) }, set(h.name, own, c06A1)},
			c06Op{h.name + "(plain, invalid)", func(m *mail.Msg) error { return h.set(m, c06A0.str(), c06Bad) }, resync},
			c06Op{"Add" + h.name + "(non-ASCII)", func(m *mail.Msg) error { return h.add(m, c06A2.str()) }, appendTo(h.name, c06A2)},
			c06Op{"Add" + h.name + "(percent, plus)", func(m *mail.Msg) error { return h.add(m, "user%25+x%v@x.example") }, appendTo(h.name, na{"", "user%25+x%v@x.example"})},
			c06Op{"Add" + h.name + "(duplicate plain)", func(m *mail.Msg) error { return h.add(m, c06A0.str()) }, appendTo(h.name, c06A0)},
			// local parts that are only the same mailbox as long as they stay quoted (leading / trailing blank, blank inside, a comma)
			c06Op{"Add" + h.name + "(quoted local part with leading blank)", func(m *mail.Msg) error { return h.add(m, `" lead"@x.example`) }, appendTo(h.name, na{"", " lead@x.example"})},
			c06Op{"Add" + h.name + "(quoted local part with trailing blank and comma)", func(m *mail.Msg) error { return h.add(m, `"trail, "@x.example`) }, appendTo(h.name, na{"", "trail, @x.example"})},
			c06Op{"Add" + h.name + "(invalid)", func(m *mail.Msg) error { return h.add(m, c06Bad) }, resync},
			c06Op{"Add" + h.name + "Format(comma name)", func(m *mail.Msg) error { return h.addFmt(m, "Roe, Jane", "jane@x.example") }, appendTo(h.name, na{"Roe, Jane", "jane@x.example"})},
			c06Op{"Add" + h.name + "Format(name with blank runs)", func(m *mail.Msg) error { return h.addFmt(m, "Ann   Smith  (R&D)", "ann@x.example") }, appendTo(h.name, na{"Ann   Smith  (R&D)", "ann@x.example"})},
			c06Op{h.name + "IgnoreInvalid(valid, invalid, own)", func(m *mail.Msg) error { h.ignore(m, c06A2.str(), c06Bad, own.str()); return nil }, resync},
			c06Op{h.name + "FromString(two)", func(m *mail.Msg) error { return h.fromStr(m, "a0@x.example, <a2@x.example>") }, set(h.name, c06A0, na{"", "a2@x.example"})},
			// setting an empty list clears the header (documented: "replaces any existing addresses")
			c06Op{h.name + "() empty", func(m *mail.Msg) error { return h.set(m) }, set(h.name)},
			c06Op{h.name + "FromString(blank)", func(m *mail.Msg) error { return h.fromStr(m, " , ") }, set(h.name)},
		)
	}
	return ops
}

// parseAddrList is the harness' own parser for the address-list values go-mail generates.
func parseAddrList(v string) ([]na, error) {
	var out []na
	var items []string
	inq, ina := false, false
	start := 0
	for i := 0; i < len(v); i++ {
		c := v[i]
		switch {
		case c == '\\' && inq:
			i++
		case c == '"':
			inq = !inq
		case c == '<' && !inq:
			ina = true
		case c == '>' && !inq:
			ina = false
		case c == ',' && !inq && !ina:
			items = append(items, v[start:i])
			start = i + 1
		}
	}
	items = append(items, v[start:])
	for _, it := range items {
		it = strings.TrimSpace(it)
		if it == "" {
			continue
		}
		lt := strings.LastIndexByte(it, '<')
		if lt < 0 {
			out = append(out, na{"", unquoteLocal(it)})
			continue
		}
		if !strings.HasSuffix(it, ">") {
			return nil, fmt.Errorf("address %q not terminated by '>'", it)
		}
		addr := it[lt+1 : len(it)-1]
		name, err := parseDisplayName(it, addr)
		if err != nil {
			return nil, err
		}
		out = append(out, na{name, unquoteLocal(addr)})
	}
	return out, nil
}

// unquoteLocal turns "local part"@domain (RFC 5322 quoted-string local part) into the plain form the Msg getters use.
func unquoteLocal(addr string) string {
	if !strings.HasPrefix(addr, `"`) {
		return addr
	}
	var b strings.Builder
	i := 1
	for i < len(addr) {
		switch {
		case addr[i] == '\\' && i+1 < len(addr):
			b.WriteByte(addr[i+1])
			i += 2
		case addr[i] == '"':
			return b.String() + addr[i+1:]
		default:
			b.WriteByte(addr[i])
			i++
		}
	}
	return addr
}

func sameList(a, b []na) bool {
	if len(a) != len(b) {
		return false
	}
	for i := range a {
		if a[i] != b[i] {
			return false
		}
	}
	return true
}

func c06Exec(r *vf.Run, k c06Case) []finding {
	var out []finding
	add := func(key, f string, a ...interface{}) { out = append(out, finding{key, fmt.Sprintf(f, a...)}) }
	ops := c06Ops()
	m := mail.NewMsg()
	m.SetDateWithValue(hx.T0)
	m.SetMessageIDWithValue("fixed.id@harness.example")
	m.Subject("recipients")
	m.SetBodyString(mail.TypeTextPlain, "body\r\n")
	ref := map[string][]na{}
	getters := map[string]mail.AddrHeader{"From": mail.HeaderFrom, "To": mail.HeaderTo, "Cc": mail.HeaderCc, "Bcc": mail.HeaderBcc, "Reply-To": mail.HeaderReplyTo, "EnvelopeFrom": mail.HeaderEnvelopeFrom}
	var names []string
	if k.Base {
		_ = m.From("base-sender@x.example")
		_ = m.Cc("base-cc@x.example")
		ref["From"], ref["Cc"] = []na{{"", "base-sender@x.example"}}, []na{{"", "base-cc@x.example"}}
		names = append(names, "(message with sender and a Cc recipient)")
	}
	var kept [][]*netmail.Address // getter results the caller holds on to
	for _, oi := range k.Ops {
		if k.Reuse {
			for _, sl := range kept {
				_ = append(sl, &netmail.Address{Name: "Intruder", Address: "intruder@hidden.example"})
			}
			kept = append(kept, m.GetTo(), m.GetCc(), m.GetBcc(), m.GetFrom(), m.GetAddrHeader(mail.HeaderReplyTo))
		}
		op := ops[oi]
		names = append(names, op.name)
		before := map[string][]na{}
		for h, l := range ref {
			before[h] = append([]na{}, l...)
		}
		var err error
		pan, pw := vf.Guard(func() { err = op.apply(m) })
		if pan {
			return []finding{{"panic/" + vf.PanicSite(pw), firstLine(pw)}}
		}
		ok := false
		if err == nil {
			ok = op.model(ref)
		}
		if !ok {
			// resynchronise from the getters; the result must be an order-preserving selection of plausible entries
			for h, ah := range getters {
				var l []na
				for _, a := range m.GetAddrHeader(ah) {
					l = append(l, na{a.Name, a.Address})
				}
				ref[h] = l
			}
			if err != nil {
				// a call that returned an error must not have changed anything
				for h := range getters {
					if !sameList(before[h], ref[h]) {
						add("error-but-modified/"+op.name, "%s returned %v but changed %s from %v to %v", op.name, err, h, before[h], ref[h])
					}
				}
			}
		} else {
			// the documented semantics must be what the getters show
			for h, ah := range getters {
				var l []na
				for _, a := range m.GetAddrHeader(ah) {
					l = append(l, na{a.Name, a.Address})
				}
				if !sameList(l, ref[h]) {
					add("getter-mismatch/"+op.name, "after %v the %s list is %v, the documented semantics give %v", names, h, l, ref[h])
					ref[h] = l
				}
			}
		}
	}
	if k.Reuse {
		for _, sl := range kept {
			_ = append(sl, &netmail.Address{Name: "Intruder", Address: "intruder@hidden.example"})
		}
		names = append(names, "(the caller appended to every slice an earlier getter call returned)")
		for h, ah := range getters {
			var l []na
			for _, a := range m.GetAddrHeader(ah) {
				l = append(l, na{a.Name, a.Address})
			}
			if !sameList(l, ref[h]) {
				add("getter-result-aliases-message/"+h, "after %v the %s list is %v, it was %v before the caller appended to a slice a getter had returned earlier", names, h, l, ref[h])
			}
		}
	}
	// render
	var buf bytes.Buffer
	if _, err := m.WriteTo(&buf); err != nil {
		add("render-error", "%v", err)
		return out
	}
	e := mimeread.Parse(buf.Bytes())
	for _, p := range e.AllProblems() {
		add("malformed", "%s", p)
	}
	if len(e.Get("Bcc")) > 0 {
		add("bcc-field-rendered", "the rendered message contains a Bcc field: %q", e.Get("Bcc"))
	}
	visible := map[string]bool{}
	for _, h := range []string{"From", "To", "Cc", "Reply-To", "EnvelopeFrom"} {
		for _, a := range ref[h] {
			visible[strings.ToLower(a.Addr)] = true
		}
	}
	for _, a := range ref["Bcc"] {
		if !visible[strings.ToLower(a.Addr)] && bytes.Contains(bytes.ToLower(buf.Bytes()), []byte(strings.ToLower(a.Addr))) {
			add("bcc-address-leaked", "Bcc-only address %s occurs in the rendered message", a.Addr)
		}
	}
	wantFrom := ref["From"]
	if len(wantFrom) == 0 {
		wantFrom = ref["EnvelopeFrom"]
	}
	for h, want := range map[string][]na{"From": wantFrom, "To": ref["To"], "Cc": ref["Cc"], "Reply-To": ref["Reply-To"]} {
		vals := e.Get(h)
		if len(want) == 0 {
			if len(vals) > 0 && strings.TrimSpace(vals[0]) != "" {
				add("unexpected-field/"+h, "%s rendered as %q although no address is set", h, vals)
			}
			continue
		}
		if len(vals) != 1 {
			add(fmt.Sprintf("field-count/%s/%d", h, len(vals)), "%s occurs %d times in the header", h, len(vals))
			continue
		}
		got, err := parseAddrList(vals[0])
		if err != nil {
			add("unparsable-field/"+h, "%s: %q: %v", h, vals[0], err)
			continue
		}
		if !sameList(got, want) {
			add("field-value/"+h, "%s parses back to %v, want %v (raw %q)", h, got, want, vals[0])
		}
	}
	// send
	sess := &refsmtp.Session{Host: hx.Host, Caps: []string{"8BITMIME", "SMTPUTF8"}}
	conn := refsmtp.NewConn(sess)
	rig := &hx.Rig{Mk: func(n int) *refsmtp.Conn { return conn }}
	cl, cerr := mail.NewClient(hx.Host, mail.WithDialContextFunc(rig.Dial), mail.WithHELO("client.example.test"), mail.WithTLSPolicy(mail.NoTLS))
	if cerr != nil {
		r.HarnessError("C06 NewClient: %v", cerr)
		return out
	}
	serr := cl.DialAndSendWithContext(context.Background(), m)
	wantSender := ""
	if l := ref["EnvelopeFrom"]; len(l) > 0 {
		wantSender = l[0].Addr
	} else if l := ref["From"]; len(l) > 0 {
		wantSender = l[0].Addr
	}
	var wantRcpts []string
	for _, h := range []string{"To", "Cc", "Bcc"} {
		for _, a := range ref[h] {
			wantRcpts = append(wantRcpts, a.Addr)
		}
	}
	if wantSender == "" || len(wantRcpts) == 0 {
		if serr == nil {
			add("sent-without-sender-or-recipient", "DialAndSend succeeded although sender=%q recipients=%v", wantSender, wantRcpts)
		}
		return out
	}
	if serr != nil {
		add("send-error", "DialAndSend failed: %v (ops %v)", serr, names)
		return out
	}
	if len(sess.Commits) != 1 {
		add("commit-count", "server committed %d messages", len(sess.Commits))
		return out
	}
	c := sess.Commits[0]
	if c.From.String() != wantSender {
		add("envelope-sender", "MAIL FROM:<%s>, want %s", c.From, wantSender)
	}
	var got []string
	for _, rc := range c.Rcpts {
		got = append(got, rc.String())
	}
	if strings.Join(got, " ") != strings.Join(wantRcpts, " ") {
		add("envelope-recipients", "RCPT sequence %v, want %v (To, Cc, Bcc in order, one per occurrence)", got, wantRcpts)
	}
	for _, a := range ref["Bcc"] {
		if !visible[strings.ToLower(a.Addr)] && bytes.Contains(bytes.ToLower(c.Data), []byte(strings.ToLower(a.Addr))) {
			add("bcc-address-leaked/sent", "Bcc-only address %s occurs in the transmitted message", a.Addr)
		}
	}
	return out
}

func init() {
	vf.Register(&vf.Check{
		ID: "C06", Title: "recipients are exactly To+Cc+Bcc, and Bcc stays hidden",
		Run: func(r *vf.Run) {
			nops := len(c06Ops())
			r.SetRule(fmt.Sprintf("ALL sequences of length 0..L over %d concrete address-setting operations (From/FromFormat/EnvelopeFrom/ReplyTo/ReplyToFormat and, for each of To/Cc/Bcc: set(list), set(list with an invalid entry), Add (non-ASCII name / duplicate / invalid), AddFormat (name with comma; name with runs of blanks), IgnoreInvalid(valid, invalid, own), FromString) (renderings, NewReader and the envelope getters GetRecipients / GetSender may stand anywhere in the sequence) followed by render and send; a boring reference (header → ordered list of (name, address)) is updated by the documented semantics and resynchronised from the getters after errors and *IgnoreInvalid; oracle: envelope sender/recipients in the reference server's commit, rendered address fields parsed back by the harness' own parser, Bcc-only addresses absent from every rendered byte; every sequence is also run on a message that already has a sender and a Cc recipient (so that it ends in a delivery), and a second time with a caller that keeps the slices returned by GetTo/GetCc/GetBcc/GetFrom/GetAddrHeader before each operation and appends to them afterwards (the message must not change); distinct by operation sequence", nops))
			r.Assume("after a call that returned an error, or an *IgnoreInvalid call, the reference is re-read from the getters (the property is silent about which entries survive)")
			L := 3
			if r.Thorough {
				L = 4
			}
			r.Extra("max_sequence_length", L)
			r.Extra("operations", nops)
			total := 0
			pow := 1
			var offs []int
			for l := 0; l <= L; l++ {
				offs = append(offs, total)
				total += pow
				pow *= nops
			}
			chunk := 256
			r.Parallel((total+chunk-1)/chunk, "C06 sequences", func(ci int) {
				for idx := ci * chunk; idx < (ci+1)*chunk && idx < total; idx++ {
					l := 0
					for l+1 < len(offs) && offs[l+1] <= idx {
						l++
					}
					code := idx - offs[l]
					ops := make([]int, l)
					for j := 0; j < l; j++ {
						ops[j] = code % nops
						code /= nops
					}
					k := c06Case{Ops: ops}
					fs := c06Exec(r, k)
					r.Eval(vf.Hash(fmt.Sprint(ops)), l > 0)
					r.TraceValidated()
					if l > 0 {
						// the same sequence with a caller that re-uses the slices the getters returned
						k2 := c06Case{Ops: ops, Reuse: true}
						fs2 := c06Exec(r, k2)
						r.Eval(vf.Hash(fmt.Sprint(ops), "reuse"), true)
						r.TraceValidated()
						for _, f := range fs2 {
							f := f
							r.Violation(f.key+"/caller-reuses-getter-results", f.what, k2, func() string {
								for _, x := range c06Exec(r, k2) {
									if x.key == f.key {
										return f.key + "/caller-reuses-getter-results"
									}
								}
								return ""
							})
						}
					}
					if l > 0 {
						// the same sequence on a message that already has a sender and a recipient
						k3 := c06Case{Ops: ops, Base: true}
						r.Eval(vf.Hash(fmt.Sprint(ops), "base"), true)
						r.TraceValidated()
						for _, f := range c06Exec(r, k3) {
							f := f
							r.Violation(f.key+"/on-a-message-with-sender-and-recipient", f.what, k3, func() string {
								for _, x := range c06Exec(r, k3) {
									if x.key == f.key {
										return f.key + "/on-a-message-with-sender-and-recipient"
									}
								}
								return ""
							})
						}
					}
					// state space: prefix → prefix+op (bounded by hashing the last two operations)
					st := vf.Hash("empty")
					for j := 0; j < l; j++ {
						nx := vf.Hash(fmt.Sprint(ops[maxInt(0, j-1) : j+1]))
						r.Transition(st, fmt.Sprint(ops[j]), nx)
						st = nx
					}
					if idx%9001 == 0 && l > 1 {
						var ns []string
						for _, o := range ops {
							ns = append(ns, c06Ops()[o].name)
						}
						r.Sample(ns)
					}
					if len(fs) == 0 {
						r.Outcome("correct")
					}
					for _, f := range fs {
						f := f
						r.Outcome(strings.SplitN(f.key, "/", 2)[0])
						r.Violation(f.key, f.what, k, func() string {
							for _, x := range c06Exec(r, k) {
								if x.key == f.key {
									return f.key
								}
							}
							return ""
						})
					}
				}
			})
		},
		Replay: func(r *vf.Run, kase json.RawMessage) {
			var k c06Case
			if err := json.Unmarshal(kase, &k); err != nil {
				r.HarnessError("bad case: %v", err)
				return
			}
			r.Eval(1, true)
			var ns []string
			for _, o := range k.Ops {
				ns = append(ns, c06Ops()[o].name)
			}
			fmt.Printf("  operations: %v\n", ns)
			for _, f := range c06Exec(r, k) {
				fmt.Printf("  -> %s: %s\n", f.key, f.what)
				r.Violation(f.key, f.what, k, nil)
			}
		},
	})
}

func maxInt(a, b int) int {
	if a > b {
		return a
	}
	return b
}
