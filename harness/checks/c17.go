package checks

import (
	"context"
	"crypto/tls"
	"encoding/json"
	"fmt"
	"net"
	"sync"
	"time"

	mail "github.com/wneessen/go-mail"

	"verif/hx"
	"verif/refsmtp"
	"verif/sasl"
	"verif/vf"
)

// C17 — every network operation is bounded by the configured timeout (logical oracle, no waiting).

type c17Cfg struct {
	TLS   int  `json:"tls"`            // 0 none, 1 STARTTLS (mandatory), 2 implicit
	Auth  int  `json:"auth"`           // 0 none, 1 PLAIN (one step), 2 LOGIN (multi step), 3 SCRAM-SHA-256 (multi step)
	Entry int  `json:"entry"`          // 0 DialWithContext, 1 DialAndSend, 2 Send on a dialled client, 3 Reset on a dialled client, 4 Send after the connection sat idle for an hour
	HS    int  `json:"hs"`             // 1: the server goes silent inside the TLS handshake
	WS    int  `json:"ws"`             // write-side stall: server stops reading after this many content bytes (0 = off)
	CtxDL bool `json:"ctxdl"`          // caller passes a context with its own (longer) deadline
	Msgs  int  `json:"msgs,omitempty"` // messages per send (default 1)
	// Follow: history — after the stalled call has returned, the same Client is used once more while the server
	// stays silent: 1 Reset, 2 Send, 3 Close, 4 DialWithContext again (the new connection is answered at once). That call
	// must be bounded as well.
	Follow int `json:"follow,omitempty"`
	// Fallback (TLS=starttls only): the Client uses WithTLSPortPolicy(opportunistic), the dial to the primary port is
	// refused and the stalls hit the connection to the fallback port
	Fallback bool `json:"fallback,omitempty"`
	// NoNoop: the Client is created with WithoutNoop() (no NOOP probe before an operation)
	NoNoop bool `json:"nonoop,omitempty"`
	// Real: the server is a real loopback TCP listener that accepts the connection and then stays silent for good, and
	// the Client uses its OWN dialer (for implicit TLS its own TLS dialer: the handshake is part of the dial). The
	// configured timeout is 400 ms of real time; the only verdict is whether the call returns at all within the
	// harness' call bound (20 s) — no judgement is derived from how long it took.
	Real bool `json:"real,omitempty"`
}

type c17Case struct {
	Cfg    c17Cfg `json:"cfg"`
	Prefix []int  `json:"choices"`
}

var (
	c17TLS    = []string{"none", "starttls", "implicit"}
	c17Auth   = []string{"none", "PLAIN", "LOGIN", "SCRAM-SHA-256"}
	c17Entry  = []string{"DialWithContext", "DialAndSend", "Send", "Reset", "Send(after idle hour)"}
	c17Follow = []string{"", "Reset", "Send", "Close", "DialWithContext(again)"}
	c17Tmo    = 7 * time.Second
	c17Slack  = 1500 * time.Millisecond
)

func c17Msgs(cfg c17Cfg) []*mail.Msg {
	var ms []*mail.Msg
	for i := 0; i < maxInt(1, cfg.Msgs); i++ {
		ms = append(ms, hx.StdMsg(i, 2, mail.EncodingQP))
	}
	return ms
}

func c17Exec(r *vf.Run, cfg c17Cfg, c *vf.Chooser) (keys, whats []string) {
	add := func(k, w string) { keys = append(keys, k); whats = append(whats, w) }
	if cfg.Real {
		ln, err := net.Listen("tcp", "127.0.0.1:0")
		if err != nil {
			r.HarnessError("C17 listen: %v", err)
			return
		}
		defer ln.Close()
		var held []net.Conn
		var hmu sync.Mutex
		go func() {
			for {
				cn, aerr := ln.Accept()
				if aerr != nil {
					return
				}
				hmu.Lock()
				held = append(held, cn) // kept open, never answered
				hmu.Unlock()
			}
		}()
		defer func() {
			hmu.Lock()
			for _, cn := range held {
				_ = cn.Close()
			}
			hmu.Unlock()
		}()
		opts := []mail.Option{mail.WithPort(ln.Addr().(*net.TCPAddr).Port), mail.WithHELO("client.example.test"), mail.WithTLSConfig(hx.ClientTLS("127.0.0.1")), mail.WithTimeout(400 * time.Millisecond)}
		if cfg.TLS == 2 {
			opts = append(opts, mail.WithSSL())
		} else {
			opts = append(opts, mail.WithTLSPolicy(mail.NoTLS))
		}
		cl, err := mail.NewClient("127.0.0.1", opts...)
		if err != nil {
			r.HarnessError("C17 NewClient: %v", err)
			return
		}
		ctx := context.Background()
		if cfg.CtxDL {
			var cancel context.CancelFunc
			ctx, cancel = context.WithTimeout(ctx, time.Hour)
			defer cancel()
		}
		var opErr error
		pan, pw, hung := vf.GuardTimeout(vf.CallTimeout, func() {
			if cfg.Entry == 1 {
				opErr = cl.DialAndSendWithContext(ctx, c17Msgs(cfg)...)
			} else {
				opErr = cl.DialWithContext(ctx)
			}
		})
		switch {
		case pan:
			add("panic/"+vf.PanicSite(pw), pw)
		case hung:
			add(fmt.Sprintf("call-never-returns/op=%s/real-socket/tls=%s", c17Entry[cfg.Entry], c17TLS[cfg.TLS]),
				fmt.Sprintf("%s against a real loopback server that accepts the connection and stays silent did not return within %v (configured timeout 400ms, tls=%s, the Client's own dialer)", c17Entry[cfg.Entry], vf.CallTimeout, c17TLS[cfg.TLS]))
		case opErr == nil:
			r.HarnessError("C17 real-socket case: the call succeeded against a silent server")
		default:
			r.Outcome("reached/real-socket-silent-server/tls=" + c17TLS[cfg.TLS])
		}
		return
	}
	caps := []string{"8BITMIME", "AUTH PLAIN LOGIN SCRAM-SHA-256"}
	if cfg.TLS == 1 {
		caps = append(caps, "STARTTLS")
	}
	sess := &refsmtp.Session{Host: hx.Host, Caps: caps}
	conn := refsmtp.NewConn(sess)
	conn.TLSConfig = hx.ServerTLS(hx.Mat().Good)
	if cfg.HS == 1 {
		conn.TLSMode = refsmtp.TLSStall
	}
	trace := &sasl.Trace{}
	sess.NewAuth = saslFactory(conn, c19User, c19Pass, trace)
	phase := "dial" // stalls are only offered in the phase under test
	sess.Script = func(s *refsmtp.Session, ev *refsmtp.Event, def refsmtp.Action) refsmtp.Action {
		if def.Kind != refsmtp.ActReply {
			return def
		}
		inScope := (cfg.Entry <= 1) || phase == "op"
		if !inScope {
			return def
		}
		if cfg.WS > 0 && ev.Verb == "DATA" {
			conn.WriteStallAt = conn.Written + cfg.WS
			return def
		}
		n := 2
		if cfg.TLS == 0 && cfg.WS == 0 {
			n = 3 // outside TLS also: the reply is fine, but from now on the peer does not read any more
		}
		switch c.Choose(ev.Pos(), n) {
		case 1:
			return refsmtp.Action{Kind: refsmtp.ActStall}
		case 2:
			conn.WriteStallAt = conn.Written
		}
		return def
	}
	dialNo := 0
	rig := &hx.Rig{Mk: func(int) *refsmtp.Conn {
		n := dialNo
		dialNo++
		if cfg.Fallback {
			n-- // primary port refused
		}
		if n == 1 && cfg.Follow == 4 {
			// the re-dial of the follow-up call meets a server that answers at once
			fresh := refsmtp.NewConn(&refsmtp.Session{Host: hx.Host, Caps: caps})
			fresh.TLSConfig = hx.ServerTLS(hx.Mat().Good)
			fresh.S.NewAuth = saslFactory(fresh, c19User, c19Pass, &sasl.Trace{})
			if cfg.TLS == 2 {
				fresh.ImplicitTLS = true
			}
			return fresh
		}
		if n != 0 {
			return nil
		}
		return conn
	}}
	if cfg.TLS == 2 {
		conn.ImplicitTLS = true
		rig.Wrap = func(cn *refsmtp.Conn) net.Conn { return tls.Client(cn, hx.ClientTLS(hx.Host)) }
	}
	opts := []mail.Option{mail.WithDialContextFunc(rig.Dial), mail.WithHELO("client.example.test"), mail.WithTLSConfig(hx.ClientTLS(hx.Host)), mail.WithTimeout(c17Tmo)}
	switch cfg.TLS {
	case 0:
		opts = append(opts, mail.WithTLSPolicy(mail.NoTLS))
	case 1:
		if cfg.Fallback {
			opts = append(opts, mail.WithTLSPortPolicy(mail.TLSOpportunistic))
		} else {
			opts = append(opts, mail.WithTLSPolicy(mail.TLSMandatory))
		}
	case 2:
		opts = append(opts, mail.WithSSL())
	}
	if cfg.NoNoop {
		opts = append(opts, mail.WithoutNoop())
	}
	switch cfg.Auth {
	case 1:
		opts = append(opts, mail.WithSMTPAuth(mail.SMTPAuthPlainNoEnc), mail.WithUsername(c19User), mail.WithPassword(c19Pass))
	case 2:
		opts = append(opts, mail.WithSMTPAuth(mail.SMTPAuthLoginNoEnc), mail.WithUsername(c19User), mail.WithPassword(c19Pass))
	case 3:
		opts = append(opts, mail.WithSMTPAuth(mail.SMTPAuthSCRAMSHA256), mail.WithUsername(c19User), mail.WithPassword(c19Pass))
	}
	cl, err := mail.NewClient(hx.Host, opts...)
	if err != nil {
		r.HarnessError("C17 NewClient: %v", err)
		return
	}
	ctx := context.Background()
	if cfg.CtxDL {
		var cancel context.CancelFunc
		ctx, cancel = context.WithTimeout(ctx, time.Hour)
		defer cancel()
	}
	var opErr error
	var callStart time.Time
	blocksBefore := 0
	pan, pw, hung := vf.GuardTimeout(vf.CallTimeout, func() {
		switch cfg.Entry {
		case 0:
			callStart = conn.VNow()
			opErr = cl.DialWithContext(ctx)
		case 1:
			callStart = conn.VNow()
			opErr = cl.DialAndSendWithContext(ctx, c17Msgs(cfg)...)
		default:
			if err := cl.DialWithContext(ctx); err != nil {
				r.HarnessError("C17 %+v: fault-free dial failed: %v", cfg, err)
				return
			}
			phase = "op"
			blocksBefore = len(conn.Blocks)
			if cfg.Entry == 4 {
				conn.Skew = time.Hour
			}
			callStart = conn.VNow()
			if cfg.Entry == 3 {
				opErr = cl.Reset()
			} else {
				opErr = cl.Send(c17Msgs(cfg)...)
			}
		}
	})
	if pan {
		add("panic/"+vf.PanicSite(pw), pw)
		return
	}
	if hung {
		last := "connect"
		if n := len(sess.Transcript); n > 0 {
			last = sess.Transcript[n-1].Verb
		}
		if len(conn.Blocks) > 0 && conn.Blocks[len(conn.Blocks)-1].Op == "write" {
			last = "DATA-content(write)"
		}
		add(fmt.Sprintf("call-never-returns/op=%s/after=%s", c17Entry[cfg.Entry], last),
			fmt.Sprintf("%s did not return within %v although the fake server answers instantly and every block event was resolved at once: the call waits on something no connection deadline covers (tls=%s auth=%s)", c17Entry[cfg.Entry], vf.CallTimeout, c17TLS[cfg.TLS], c17Auth[cfg.Auth]))
		return
	}
	protoStates(r, sess.Transcript)
	blocks := conn.Blocks[blocksBefore:]
	entry := c17Entry[cfg.Entry]
	if len(blocks) == 0 {
		r.Outcome("no-stall-reached")
		return
	}
	if cfg.Follow > 0 {
		nb := len(conn.Blocks)
		var fStart time.Time
		var fErr error
		fpan, fpw, fhung := vf.GuardTimeout(vf.CallTimeout, func() {
			fStart = conn.VNow()
			switch cfg.Follow {
			case 1:
				fErr = cl.Reset()
			case 2:
				fErr = cl.Send(c17Msgs(cfg)...)
			case 3:
				fErr = cl.Close()
			case 4:
				fErr = cl.DialWithContext(context.Background())
			}
		})
		fname := fmt.Sprintf("%s-after-timed-out-%s", c17Follow[cfg.Follow], entry)
		switch {
		case fpan:
			add("panic/"+vf.PanicSite(fpw), fpw)
			return
		case fhung:
			add(fmt.Sprintf("call-never-returns/op=%s", fname),
				fmt.Sprintf("%s: after %s had timed out (server silent after %s) the next call on the same Client did not return within %v: it waits on something no connection deadline covers (tls=%s auth=%s)", fname, entry, blocks[0].After, vf.CallTimeout, c17TLS[cfg.TLS], c17Auth[cfg.Auth]))
			return
		}
		_ = fErr
		for _, fb := range conn.Blocks[nb:] {
			switch {
			case fb.Deadline.IsZero():
				add(fmt.Sprintf("unbounded-block/op=%s", fname),
					fmt.Sprintf("%s: the client %ss on the still silent server with no deadline armed on the connection (tls=%s auth=%s)", fname, fb.Op, c17TLS[cfg.TLS], c17Auth[cfg.Auth]))
			case fb.Deadline.After(fStart.Add(c17Tmo + c17Slack)):
				add(fmt.Sprintf("deadline-too-late/op=%s", fname),
					fmt.Sprintf("%s: blocked with a deadline %.1fs after the call started; configured timeout is %v", fname, fb.Deadline.Sub(fStart).Seconds(), c17Tmo))
			}
		}
		r.Outcome("follow/" + c17Follow[cfg.Follow] + fmt.Sprintf("/blocks=%d", minInt(1, len(conn.Blocks[nb:]))))
	}
	b := blocks[0]
	after := b.After
	for i := 0; i < len(after); i++ {
		if after[i] == '#' {
			after = after[:i]
			break
		}
	}
	if cfg.HS == 1 {
		after = "TLS-handshake"
	}
	if b.Op == "write" {
		if cfg.WS > 0 {
			after = "DATA-content(write)"
		} else {
			after = after + "(write)"
		}
	}
	// every time the client blocks during the call a deadline must be armed, and on the connection's virtual clock
	// (which every resolved wait advances) none may lie later than call start + timeout + slack: a client that
	// re-arms the deadline after a timeout and waits again exceeds the bound although each single wait is bounded
	verdict := "bounded"
	for bi, bb := range blocks {
		aft := after
		if bi > 0 {
			aft = bb.After
			for i := 0; i < len(aft); i++ {
				if aft[i] == '#' {
					aft = aft[:i]
					break
				}
			}
			aft = after + "/then-again-after=" + aft
		}
		switch {
		case bb.Deadline.IsZero():
			verdict = "unbounded"
			add(fmt.Sprintf("unbounded-block/op=%s/stalled-after=%s", entry, aft),
				fmt.Sprintf("%s: the server went silent after %s and the client %ss with no deadline armed on the connection: the call would block forever (tls=%s auth=%s)", entry, bb.After, bb.Op, c17TLS[cfg.TLS], c17Auth[cfg.Auth]))
		case bb.Deadline.After(callStart.Add(c17Tmo + c17Slack)):
			verdict = "late-deadline"
			add(fmt.Sprintf("deadline-too-late/op=%s/stalled-after=%s", entry, aft),
				fmt.Sprintf("%s: wait no. %d of the call (after %s) ends %.1fs after the call started; configured timeout is %v", entry, bi+1, bb.After, bb.Deadline.Sub(callStart).Seconds(), c17Tmo))
		}
	}
	r.Outcome(verdict)
	r.Outcome(fmt.Sprintf("reached/stall/entry=%s/tls=%s", entry, c17TLS[cfg.TLS]))
	if cfg.HS == 1 {
		r.Outcome("reached/stall-inside-handshake")
	}
	if blocks[0].Op == "write" {
		r.Outcome("reached/write-side-stall")
	}
	if cfg.CtxDL {
		r.Outcome("reached/caller-context-with-deadline")
	}
	if cfg.Entry == 4 {
		r.Outcome("reached/after-idle-hour")
	}
	if cfg.Fallback {
		r.Outcome("reached/stall-on-the-fallback-connection")
	}
	if verdict == "bounded" && opErr == nil {
		add(fmt.Sprintf("stall-reported-as-success/op=%s/stalled-after=%s", entry, after),
			fmt.Sprintf("%s returned nil although the server stopped responding after %s", entry, b.After))
	}
	return
}

func init() {
	vf.Register(&vf.Check{
		ID: "C17", Title: "every network operation is bounded by the configured timeout",
		Run: func(r *vf.Run) {
			r.SetRule("one stall (server silent, connection open) at every command position of the dialogue — greeting, EHLO, STARTTLS, inside the TLS handshake, every AUTH step, NOOP, MAIL, each RCPT, DATA, mid-content (server stops reading), end-of-data, RSET, QUIT — × TLS mode {none, STARTTLS, implicit} × auth {none, PLAIN, LOGIN, SCRAM-SHA-256} × entry point {DialWithContext, DialAndSend, Send, Reset, Send after an idle hour} × caller context with/without own deadline × Client with/without WithoutNoop() × (STARTTLS) the connection to the fallback port after the primary port refused × (real loopback sockets, the Client's own dialer — for implicit TLS its own TLS dialer) a server that accepts the connection and stays silent, judged only by whether the call returns at all × history {none, then Reset / Send / Close / a new DialWithContext on the same Client while the server stays silent}; oracle is logical: whenever the client blocks on the silent peer a deadline must be armed on the connection and, on the connection's virtual clock (advanced by every wait the client sat through), end <= call start + timeout + 1.5 s — for EVERY wait of the call, so re-arming after a timeout and waiting again is seen; distinct by (configuration, stall position)")
			r.Assume("net.Conn deadline semantics as documented (a blocked Read/Write returns at the armed deadline; with none armed it never returns)",
				"the caller's context is not a bound: the property promises the configured timeout",
				"idle time is simulated by skewing the connection's clock by one hour")
			var cfgs []c17Cfg
			for tlsm := 0; tlsm < 3; tlsm++ {
				for a := 0; a < 4; a++ {
					for e := 0; e < 5; e++ {
						for _, cd := range []bool{false, true} {
							if cd && e > 1 {
								continue
							}
							cfgs = append(cfgs, c17Cfg{TLS: tlsm, Auth: a, Entry: e, CtxDL: cd})
							if (e == 1 || e == 2 || e == 4) && a <= 1 && !cd {
								cfgs = append(cfgs, c17Cfg{TLS: tlsm, Auth: a, Entry: e, Msgs: 3})
							}
							if tlsm == 1 && e <= 1 && !cd {
								cfgs = append(cfgs, c17Cfg{TLS: tlsm, Auth: a, Entry: e, Fallback: true})
							}
							if !cd && (a <= 1 || r.Thorough) {
								for f := 1; f <= 4; f++ {
									cfgs = append(cfgs, c17Cfg{TLS: tlsm, Auth: a, Entry: e, Follow: f})
								}
							}
							if !cd && a <= 1 {
								cfgs = append(cfgs, c17Cfg{TLS: tlsm, Auth: a, Entry: e, NoNoop: true})
								if e >= 1 && e != 3 && a == 0 {
									cfgs = append(cfgs, c17Cfg{TLS: tlsm, Auth: a, Entry: e, NoNoop: true, Follow: 2}, c17Cfg{TLS: tlsm, Auth: a, Entry: e, NoNoop: true, WS: 200}, c17Cfg{TLS: tlsm, Auth: a, Entry: e, NoNoop: true, Msgs: 3})
								}
							}
							if tlsm > 0 && e <= 1 && a == 0 {
								cfgs = append(cfgs, c17Cfg{TLS: tlsm, Auth: a, Entry: e, HS: 1, CtxDL: cd})
							}
							if (e == 1 || e == 2) && a == 0 && !cd {
								for _, ws := range []int{1, 200} {
									cfgs = append(cfgs, c17Cfg{TLS: tlsm, Auth: a, Entry: e, WS: ws})
								}
							}
						}
					}
				}
			}
			for _, tlsm := range []int{0, 2} {
				for e := 0; e <= 1; e++ {
					for _, cd := range []bool{false, true} {
						cfgs = append(cfgs, c17Cfg{TLS: tlsm, Entry: e, CtxDL: cd, Real: true})
					}
				}
			}
			r.Extra("configurations", len(cfgs))
			r.Parallel(len(cfgs), "C17 configurations", func(i int) {
				cfg := cfgs[i]
				vf.ExploreN(r, 1, 1, fmt.Sprintf("C17 %+v", cfg), func(c *vf.Chooser) {
					keys, whats := c17Exec(r, cfg, c)
					r.TraceValidated()
					r.Eval(vf.Hash(fmt.Sprintf("%+v", cfg), fmt.Sprint(c.Picks)), c.Deviations() > 0 || cfg.HS > 0 || cfg.WS > 0)
					if r.NSamples() < 5 && c.Deviations() == 1 && len(c.Picks) > 4 {
						r.Sample(map[string]interface{}{"cfg": cfg, "entry": c17Entry[cfg.Entry], "tls": c17TLS[cfg.TLS], "auth": c17Auth[cfg.Auth],
							"stall": c.Describe(func(l string, p int) string {
								if p == 2 {
									return "peer stops reading after its reply to " + l
								}
								return "stall at " + l
							})})
					}
					kase := c17Case{Cfg: cfg, Prefix: append([]int{}, c.Picks...)}
					for j, k := range keys {
						k := k
						r.Violation(k, whats[j], kase, func() string {
							ks, _ := c17Exec(r, cfg, vf.NewChooser(kase.Prefix))
							for _, x := range ks {
								if x == k {
									return k
								}
							}
							return ""
						})
					}
				})
			})
			for _, e := range c17Entry {
				for _, t := range c17TLS {
					r.Reached(fmt.Sprintf("reached/stall/entry=%s/tls=%s", e, t))
				}
			}
			r.Reached("reached/real-socket-silent-server/tls=none", "reached/real-socket-silent-server/tls=implicit", "reached/stall-inside-handshake", "reached/write-side-stall", "reached/caller-context-with-deadline", "reached/after-idle-hour", "reached/stall-on-the-fallback-connection", "follow/Reset/blocks=0", "follow/Send/blocks=0", "follow/Close/blocks=0", "follow/DialWithContext(again)/blocks=0")
		},
		Replay: func(r *vf.Run, kase json.RawMessage) {
			var k c17Case
			if err := json.Unmarshal(kase, &k); err != nil {
				r.HarnessError("bad case: %v", err)
				return
			}
			keys, whats := c17Exec(r, k.Cfg, vf.NewChooser(k.Prefix))
			r.Eval(1, true)
			for i, key := range keys {
				fmt.Printf("  -> %s: %s\n", key, whats[i])
				r.Violation(key, whats[i], k, nil)
			}
		},
	})
}
