package checks

import (
	"bytes"
	"context"
	"crypto/tls"
	"encoding/base64"
	"encoding/json"
	"fmt"
	"os"
	"strings"
	"sync"
	"time"

	mail "github.com/wneessen/go-mail"
	"github.com/wneessen/go-mail/smtp"

	"verif/hx"
	"verif/refsmtp"
	"verif/sasl"
	"verif/vf"
)

// C07 — TLS policy and credential confidentiality hold against any server.

type c07Cfg struct {
	Policy   int  `json:"policy"`    // 0 mandatory, 1 opportunistic, 2 none, 3 implicit
	Auth     int  `json:"auth"`      // index into c07Auths
	Local    bool `json:"localhost"` // configured host is a localhost name
	HostIdx  int  `json:"host"`      // which name of the class (remote: mail.example.test or a localhost look-alike; local: localhost / 127.0.0.1)
	Adv      bool `json:"adv"`       // STARTTLS advertised
	STReply  int  `json:"streply"`   // 0 220, 1 454, 2 501, 3 garbage, 4 220 + injected plaintext
	HS       int  `json:"hs"`        // 0 ok, 1 wrong-name cert, 2 untrusted cert, 3 garbage
	AuthList int  `json:"authlist"`  // index into c07AuthLists
	// Prev > 0: the same Client first completed a dial against a well-behaved TLS server (STARTTLS advertised,
	// good certificate) that advertised AUTH list Prev-1 inside TLS, and closed it; the configuration above
	// describes the server met by the SECOND dial, which is the one judged
	Prev int `json:"prev,omitempty"`
	// FB > 0 (implicit TLS only): the Client is configured with WithSSLPort(true) (fallback enabled), the dial to
	// the primary port is refused, and the fallback port (25) is served by 1 a plain-text SMTP server, 2 an
	// implicit-TLS server. Whatever answers there, an implicit-TLS client never speaks in clear.
	// FB == 4 (implicit TLS): history — the Client first dials WITHOUT TLS (plain-text server on the same port) and
	// closes; the caller then switches to implicit TLS with SetSSL(true) and dials again: that second connection is
	// the one judged.
	// FB == 5 (implicit TLS): the connection comes from the caller's own dial function (WithDialContextFunc) and is
	// a plain one to a plain-text server. The transport is then the caller's business (the "nothing in clear" clause is
	// not judged), but the password clauses still are: implicit TLS being configured does not make that connection
	// an encrypted one.
	// FB == 3 (mandatory / opportunistic): WithTLSPortPolicy, the dial to the primary port is refused and the
	// connection to the fallback port is the one judged.
	FB int `json:"fb,omitempty"`
	// Setters: the Client is constructed with the OPPOSITE settings (no TLS where TLS is wanted and vice versa, another
	// auth type, other credentials) and then configured through SetTLSPolicy / SetSMTPAuth / SetUsername / SetPassword
	Setters bool `json:"setters,omitempty"`
	// Unix: the server is reached over a UNIX domain socket ("unix://path" as host) with go-mail's own dialer
	Unix bool `json:"unix,omitempty"`
	// Quick: the entry point is mail.QuickSend (opportunistic TLS, auto-discovered authentication, its own Client and
	// dialer) against a server on a loopback TCP port. QuickSend trusts the system roots only, so the handshake with the
	// harness server can only fail: what is judged is that nothing follows a failed handshake and that the password
	// never travels over the unencrypted connection.
	Quick bool `json:"quick,omitempty"`
	// PortPol: the policy is given through the *Port* variants on a Client that already has a custom port and the
	// OPPOSITE policy: 1 = options WithTLSPolicy(opposite), WithPort(2525), WithTLSPortPolicy(policy); 2 = constructed
	// with WithTLSPolicy(opposite), WithPort(2525) and then SetTLSPortPolicy(policy)
	PortPol int `json:"portpol,omitempty"`
	// SharedTLS: the caller's *tls.Config (trusted roots, no ServerName) is shared with ANOTHER Client for another host
	// (other.example.test), which dialled a server presenting a certificate for that name before the judged dial
	SharedTLS bool `json:"sharedtls,omitempty"`
}

// c07FBMu serialises the fallback-port cases of one process (they listen on the fixed port 25 of a
// loopback address derived from the process id).
var c07FBMu sync.Mutex

var (
	c07Policies  = []string{"mandatory", "opportunistic", "none", "implicit"}
	c07Auths     = []string{"none", "PLAIN", "PLAIN-NOENC", "LOGIN", "LOGIN-NOENC", "CRAM-MD5", "XOAUTH2", "SCRAM-SHA-1", "SCRAM-SHA-1-PLUS", "SCRAM-SHA-256", "SCRAM-SHA-256-PLUS", "AUTODISCOVER", "CUSTOM(plain,enc-required)"}
	c07AuthLists = []string{"", "PLAIN", "LOGIN", "PLAIN LOGIN", "CRAM-MD5", "SCRAM-SHA-256", "PLAIN LOGIN CRAM-MD5 XOAUTH2 SCRAM-SHA-1 SCRAM-SHA-256 SCRAM-SHA-1-PLUS SCRAM-SHA-256-PLUS"}
)

const (
	c07User = "conf-user"
	c07Pass = "S3cr3t-Passw0rd-Qz7%s"
)

func c07Exec(r *vf.Run, cfg c07Cfg) []finding {
	var out []finding
	add := func(key, f string, a ...interface{}) { out = append(out, finding{key, fmt.Sprintf(f, a...)}) }
	remote := append([]string{hx.Host}, hx.LookalikeHosts...)
	host := remote[cfg.HostIdx%len(remote)]
	if cfg.Local {
		host = []string{"localhost", "127.0.0.1"}[cfg.HostIdx%2]
	}
	var caps []string
	if cfg.Adv {
		caps = append(caps, "STARTTLS")
	}
	if l := c07AuthLists[cfg.AuthList]; l != "" {
		caps = append(caps, "AUTH "+l)
	}
	caps = append(caps, "8BITMIME")
	sess := &refsmtp.Session{Host: host, Caps: caps}
	if cfg.STReply == 4 {
		// after TLS the real server offers no AUTH; the injected plaintext claims it does
		sess.CapsTLS = []string{"8BITMIME"}
	}
	conn := refsmtp.NewConn(sess)
	mat := hx.Mat()
	switch cfg.HS {
	case 0:
		conn.TLSConfig = hx.ServerTLS(mat.Good)
	case 1:
		conn.TLSConfig = hx.ServerTLS(mat.WrongName)
	case 2:
		conn.TLSConfig = hx.ServerTLS(mat.Untrusted)
	case 3:
		conn.TLSMode = refsmtp.TLSGarbage
	}
	trace := &sasl.Trace{}
	sess.NewAuth = saslFactory(conn, c07User, c07Pass, trace)
	sess.Script = func(s *refsmtp.Session, ev *refsmtp.Event, def refsmtp.Action) refsmtp.Action {
		if ev.Verb == "STARTTLS" {
			switch cfg.STReply {
			case 1:
				return refsmtp.Action{Kind: refsmtp.ActReply, Code: 454, Text: []string{"TLS not available"}}
			case 2:
				return refsmtp.Action{Kind: refsmtp.ActReply, Code: 501, Text: []string{"syntax error"}}
			case 3:
				return refsmtp.Action{Kind: refsmtp.ActRaw, Raw: "\x15\x03\x01garbage instead of a reply\r\n"}
			}
		}
		return def
	}
	if cfg.STReply == 4 {
		conn.InjectAfterStartTLS = "250-" + host + " injected\r\n250 AUTH PLAIN LOGIN\r\n"
	}
	if cfg.Quick {
		qb, err := hx.ServeTCP(conn)
		if err != nil {
			r.HarnessError("C07 listen: %v", err)
			return nil
		}
		defer qb.Stop()
		var qerr error
		pan, pw := vf.Guard(func() {
			_, qerr = mail.QuickSend(fmt.Sprintf("127.0.0.1:%d", qb.Port), mail.NewAuthData(c07User, c07Pass), "sender@snd.example", []string{"rcpt@rcp.example"}, "quick", []byte("quick body\r\n"))
		})
		if pan {
			return []finding{{"panic/" + vf.PanicSite(pw), firstLine(pw)}}
		}
		qb.Stop()
		clear := conn.ClientBytes
		if conn.TLSStartAt >= 0 {
			clear = conn.ClientBytes[:conn.TLSStartAt]
		}
		b64 := base64.StdEncoding.EncodeToString
		for name, nd := range map[string]string{"the raw password": c07Pass, "base64(password)": b64([]byte(c07Pass)), "the PLAIN response": b64([]byte("\x00" + c07User + "\x00" + c07Pass))} {
			if bytes.Contains(clear, []byte(nd)) {
				add("password-in-cleartext/auth=AUTODISCOVER/entry=QuickSend", "%s travelled in clear (QuickSend, STARTTLS advertised=%v, advertised AUTH: %s)", name, cfg.Adv, c07AuthLists[cfg.AuthList])
			}
		}
		for _, ln := range strings.Split(string(clear), "\r\n") {
			u := strings.ToUpper(ln)
			if strings.HasPrefix(u, "AUTH PLAIN") || strings.HasPrefix(u, "AUTH LOGIN") {
				add("autodiscover-picked-password-mechanism-in-clear/entry=QuickSend", "QuickSend sent %q on an unencrypted connection (advertised: %s)", clipS(ln, 30), c07AuthLists[cfg.AuthList])
			}
			if cfg.Adv && conn.TLSStartAt >= 0 && conn.ServerTLS == nil && (strings.HasPrefix(u, "MAIL ") || strings.HasPrefix(u, "AUTH ")) {
				add("command-after-failed-handshake/entry=QuickSend", "QuickSend went on with %q in clear after the TLS handshake had failed", clipS(ln, 30))
			}
		}
		if len(conn.PostTLSPlain) > 0 {
			add("plaintext-after-tls-start/entry=QuickSend", "after the switch to TLS the client wrote non-TLS bytes %q", clipS(string(conn.PostTLSPlain[0]), 60))
		}
		if qerr == nil && cfg.Adv {
			add("quicksend-succeeded-with-untrusted-certificate", "QuickSend returned nil although the server's certificate is not trusted by the system roots")
		}
		if len(conn.ClientBytes) > 0 {
			r.Outcome("quicksend-dialogue")
		}
		if sess.Authed {
			r.Outcome("quicksend-authenticated")
		}
		return out
	}
	opts := []mail.Option{mail.WithHELO("client.example.test"), mail.WithTLSConfig(hx.ClientTLS(host))}
	var post []func(*mail.Client)
	var pre func(cl *mail.Client) bool // history to run on the Client before the judged dial (false: give up)
	var bridge *hx.Bridge
	if cfg.Policy == 3 && (cfg.FB == 1 || cfg.FB == 2) && !cfg.Unix {
		conn.ImplicitTLS = cfg.FB == 2
		c07FBMu.Lock()
		defer c07FBMu.Unlock()
		var err error
		pid := os.Getpid()
		for try := 0; try < 50; try++ {
			host = fmt.Sprintf("127.%d.%d.%d", 1+pid%250, (pid/250)%250, 2+try)
			if bridge, err = hx.ServeTCPAt(conn, host+":25"); err == nil {
				break
			}
		}
		if err != nil {
			// an environment that does not let this process listen on port 25 of a loopback address cannot host the
			// fallback cases: they are skipped and the run is reported as not exhaustive (never as a violation)
			r.Incomplete(fmt.Sprintf("implicit-TLS fallback-port cases skipped: cannot listen on port 25 of a loopback address (%v)", err))
			return nil
		}
		defer bridge.Stop()
		// port 1 (tcpmux) of the loopback address is closed: the primary dial is refused, the fallback port is 25
		opts = append(opts, mail.WithSSLPort(true), mail.WithPort(1))
		opts[1] = mail.WithTLSConfig(hx.ClientTLS("127.0.0.1"))
	} else if cfg.Policy == 3 && cfg.FB == 4 {
		// phase 1: a plain-text server; the Client is configured without TLS and dials it with its default dialer
		s0 := &refsmtp.Session{Host: host, Caps: caps}
		s0.NewAuth = saslFactory(nil, c07User, c07Pass, &sasl.Trace{})
		b0, err := hx.ServeTCP(refsmtp.NewConn(s0))
		if err != nil {
			r.HarnessError("C07 listen: %v", err)
			return nil
		}
		port := b0.Port
		host = "127.0.0.1"
		opts = append(opts, mail.WithTLSPolicy(mail.NoTLS), mail.WithPort(port))
		opts[1] = mail.WithTLSConfig(hx.ClientTLS("127.0.0.1"))
		// the second server is a plain-text one as well: it greets first, so a client that (wrongly) connects without
		// TLS goes on talking, while an implicit-TLS client sends nothing but its ClientHello
		conn.ImplicitTLS = false
		pre = func(cl *mail.Client) bool {
			if err := cl.DialWithContext(context.Background()); err == nil {
				_ = cl.Close()
			}
			b0.Stop()
			// phase 2: a new server on the same port, and the caller switches the Client over to implicit TLS
			var lerr error
			for try := 0; try < 20; try++ {
				if bridge, lerr = hx.ServeTCPAt(conn, fmt.Sprintf("127.0.0.1:%d", port)); lerr == nil {
					break
				}
				time.Sleep(10 * time.Millisecond)
			}
			if lerr != nil {
				r.Incomplete(fmt.Sprintf("SetSSL-between-dials case skipped: cannot listen on the port again (%v)", lerr))
				return false
			}
			cl.SetSSL(true)
			return true
		}
	} else if cfg.Policy == 3 && cfg.FB == 5 {
		conn.ImplicitTLS = false
		rig := &hx.Rig{Mk: func(n int) *refsmtp.Conn {
			if n != 0 {
				return nil
			}
			return conn
		}}
		opts = append(opts, mail.WithSSL(), mail.WithDialContextFunc(rig.Dial))
	} else if cfg.Unix {
		// (FB == 1: the socket is served by a plain-text server, which greets first — a client that wrongly connects
		// without TLS goes on talking there, an implicit-TLS client sends nothing but its ClientHello)
		conn.ImplicitTLS = cfg.Policy == 3 && cfg.FB != 1
		var err error
		bridge, err = hx.ServeUnix(conn)
		if err != nil {
			r.HarnessError("C07 listen (unix): %v", err)
			return nil
		}
		defer bridge.Stop()
		host = "unix://" + bridge.Addr
		opts[1] = mail.WithTLSConfig(hx.ClientTLS(hx.Host))
		switch cfg.Policy {
		case 0:
			opts = append(opts, mail.WithTLSPolicy(mail.TLSMandatory))
		case 1:
			opts = append(opts, mail.WithTLSPolicy(mail.TLSOpportunistic))
		case 2:
			opts = append(opts, mail.WithTLSPolicy(mail.NoTLS))
		case 3:
			opts = append(opts, mail.WithSSL())
		}
	} else if cfg.Policy == 3 {
		conn.ImplicitTLS = true
		var err error
		bridge, err = hx.ServeTCP(conn)
		if err != nil {
			r.HarnessError("C07 listen: %v", err)
			return nil
		}
		defer bridge.Stop()
		opts = append(opts, mail.WithSSL(), mail.WithPort(bridge.Port))
		host = "127.0.0.1"
		opts[1] = mail.WithTLSConfig(hx.ClientTLS("127.0.0.1"))
	} else {
		dialNo := 0
		rig := &hx.Rig{Mk: func(int) *refsmtp.Conn {
			n := dialNo
			dialNo++
			if cfg.FB == 3 {
				n-- // the dial to the primary port is refused; the judged connection is the one to the fallback port
			}
			if n != 0 {
				return nil
			}
			return conn
		}}
		opts = append(opts, mail.WithDialContextFunc(rig.Dial))
		switch {
		case cfg.PortPol > 0:
			pol := []mail.TLSPolicy{mail.TLSMandatory, mail.TLSOpportunistic, mail.NoTLS}[cfg.Policy]
			opp := mail.NoTLS
			if cfg.Policy == 2 {
				opp = mail.TLSMandatory
			}
			opts = append(opts, mail.WithTLSPolicy(opp), mail.WithPort(2525))
			if cfg.PortPol == 1 {
				opts = append(opts, mail.WithTLSPortPolicy(pol))
			} else {
				post = append(post, func(c *mail.Client) { c.SetTLSPortPolicy(pol) })
			}
		case cfg.Setters && cfg.FB == 3:
			// a fallback port left behind by an earlier port policy: constructed with WithTLSPortPolicy(opportunistic)
			// (port 587, fallback 25), then the policy is changed through SetTLSPolicy — the fallback port stays
			pol := []mail.TLSPolicy{mail.TLSMandatory, mail.TLSOpportunistic, mail.NoTLS}[cfg.Policy]
			opts = append(opts, mail.WithTLSPortPolicy(mail.TLSOpportunistic))
			post = append(post, func(c *mail.Client) { c.SetTLSPolicy(pol) })
		case cfg.Setters:
			pol := []mail.TLSPolicy{mail.TLSMandatory, mail.TLSOpportunistic, mail.NoTLS}[cfg.Policy]
			opp := mail.NoTLS
			if cfg.Policy == 2 {
				opp = mail.TLSMandatory
			}
			opts = append(opts, mail.WithTLSPolicy(opp))
			post = append(post, func(c *mail.Client) { c.SetTLSPolicy(pol) })
		case cfg.Policy == 0 && cfg.FB == 3:
			opts = append(opts, mail.WithTLSPortPolicy(mail.TLSMandatory))
		case cfg.Policy == 1 && cfg.FB == 3:
			opts = append(opts, mail.WithTLSPortPolicy(mail.TLSOpportunistic))
		case cfg.Policy == 0:
			opts = append(opts, mail.WithTLSPolicy(mail.TLSMandatory))
		case cfg.Policy == 1:
			opts = append(opts, mail.WithTLSPolicy(mail.TLSOpportunistic))
		case cfg.Policy == 2:
			opts = append(opts, mail.WithTLSPolicy(mail.NoTLS))
		}
	}
	types := map[string]mail.SMTPAuthType{"PLAIN": mail.SMTPAuthPlain, "PLAIN-NOENC": mail.SMTPAuthPlainNoEnc, "LOGIN": mail.SMTPAuthLogin, "LOGIN-NOENC": mail.SMTPAuthLoginNoEnc,
		"CRAM-MD5": mail.SMTPAuthCramMD5, "XOAUTH2": mail.SMTPAuthXOAUTH2, "SCRAM-SHA-1": mail.SMTPAuthSCRAMSHA1, "SCRAM-SHA-1-PLUS": mail.SMTPAuthSCRAMSHA1PLUS,
		"SCRAM-SHA-256": mail.SMTPAuthSCRAMSHA256, "SCRAM-SHA-256-PLUS": mail.SMTPAuthSCRAMSHA256PLUS, "AUTODISCOVER": mail.SMTPAuthAutoDiscover}
	an := c07Auths[cfg.Auth]
	if t, ok := types[an]; ok && cfg.Setters {
		other := mail.SMTPAuthPlainNoEnc
		if t == other {
			other = mail.SMTPAuthLoginNoEnc
		}
		opts = append(opts, mail.WithSMTPAuth(other), mail.WithUsername("someone-else"), mail.WithPassword("another-Passw0rd"))
		post = append(post, func(c *mail.Client) { c.SetSMTPAuth(t); c.SetUsername(c07User); c.SetPassword(c07Pass) })
	} else if ok {
		opts = append(opts, mail.WithSMTPAuth(t), mail.WithUsername(c07User), mail.WithPassword(c07Pass))
	} else if strings.HasPrefix(an, "CUSTOM") {
		opts = append(opts, mail.WithSMTPAuthCustom(smtp.PlainAuth("", c07User, c07Pass, host, false)))
	}
	if cfg.SharedTLS {
		shared := &tls.Config{RootCAs: mat.Pool, MinVersion: tls.VersionTLS12}
		opts = append(opts, mail.WithTLSConfig(shared))
		os2 := &refsmtp.Session{Host: "other.example.test", Caps: []string{"STARTTLS", "8BITMIME"}}
		oc := refsmtp.NewConn(os2)
		oc.TLSConfig = hx.ServerTLS(mat.WrongName)
		orig := &hx.Rig{Mk: func(n int) *refsmtp.Conn {
			if n > 0 {
				return nil
			}
			return oc
		}}
		if ocl, oerr := mail.NewClient("other.example.test", mail.WithDialContextFunc(orig.Dial), mail.WithHELO("client.example.test"), mail.WithTLSConfig(shared), mail.WithTLSPolicy(mail.TLSMandatory)); oerr == nil {
			if ocl.DialWithContext(context.Background()) == nil {
				_ = ocl.Close()
			}
		}
		r.Outcome("reached/tls-config-shared-with-another-client")
	}
	cl, err := mail.NewClient(host, opts...)
	if err != nil {
		r.HarnessError("C07 NewClient: %v", err)
		return nil
	}
	for _, f := range post {
		f(cl)
	}
	if pre != nil {
		ok := pre(cl)
		if bridge != nil {
			defer bridge.Stop()
		}
		if !ok {
			return nil
		}
	}
	if cfg.Prev > 0 && cfg.Policy != 3 {
		// history: an earlier, successful connection of the same Client
		prevCaps := []string{"STARTTLS", "8BITMIME"}
		if l := c07AuthLists[cfg.Prev-1]; l != "" {
			prevCaps = append(prevCaps, "AUTH "+l)
		}
		ps := &refsmtp.Session{Host: host, Caps: prevCaps}
		pc := refsmtp.NewConn(ps)
		pc.TLSConfig = hx.ServerTLS(mat.Good)
		ptrace := &sasl.Trace{}
		ps.NewAuth = saslFactory(pc, c07User, c07Pass, ptrace)
		first := true
		prevRig := &hx.Rig{Mk: func(n int) *refsmtp.Conn {
			if first {
				first = false
				return pc
			}
			return conn
		}}
		// rebuild the client on a rig that hands out the history connection first (a later option wins)
		opts = append(opts, mail.WithDialContextFunc(prevRig.Dial))
		cl, err = mail.NewClient(host, opts...)
		if err != nil {
			r.HarnessError("C07 NewClient (history): %v", err)
			return nil
		}
		if perr := cl.DialWithContext(context.Background()); perr == nil {
			_ = cl.Close()
		}
	}
	var dialErr error
	pan, pw := vf.Guard(func() {
		dialErr = cl.DialWithContext(context.Background())
		if dialErr == nil {
			_ = cl.Send(hx.StdMsg(0, 1, mail.EncodingQP))
			_ = cl.Close()
		}
	})
	if pan {
		return []finding{{"panic/" + vf.PanicSite(pw), firstLine(pw)}}
	}
	if bridge != nil {
		bridge.Stop()
	}
	pol := c07Policies[cfg.Policy]
	clear := conn.ClientBytes
	if conn.TLSStartAt >= 0 {
		clear = conn.ClientBytes[:conn.TLSStartAt]
	}
	handshakeDone := conn.ServerTLS != nil
	// 1. what may travel in clear
	var lines []string
	for _, ln := range strings.Split(string(clear), "\r\n") {
		if ln != "" {
			lines = append(lines, ln)
		}
	}
	switch cfg.Policy {
	case 0:
		for _, ln := range lines {
			u := strings.ToUpper(ln)
			if !(strings.HasPrefix(u, "EHLO ") || strings.HasPrefix(u, "HELO ") || u == "STARTTLS" || u == "QUIT") {
				verb := strings.SplitN(u, " ", 2)[0]
				add(fmt.Sprintf("mandatory-tls/cleartext-command/%s", verb), "TLS is mandatory but the client sent %q in clear (server: STARTTLS advertised=%v, reply kind %d, handshake kind %d)", clipS(ln, 60), cfg.Adv, cfg.STReply, cfg.HS)
				break
			}
		}
		if dialErr == nil && !handshakeDone {
			add("mandatory-tls/dial-succeeded-without-handshake", "TLS is mandatory, no handshake completed, yet DialWithContext returned nil")
		}
		if dialErr == nil && cfg.HS != 0 {
			add(fmt.Sprintf("mandatory-tls/bad-certificate-accepted/hs=%d", cfg.HS), "DialWithContext succeeded although the server's certificate/handshake is not valid for the host")
		}
	case 3:
		if cfg.FB == 5 {
			break
		}
		if len(clear) > 0 && clear[0] != 0x16 { // (a ClientHello sent to a plain-text server is not clear text)
			add("implicit-tls/cleartext-bytes", "implicit TLS: the client sent %q in clear", clipS(string(clear), 60))
		}
		if len(conn.ClientBytes) > 0 && conn.ClientBytes[0] != 0x16 {
			add("implicit-tls/first-byte-not-tls", "implicit TLS: first client byte is %#x", conn.ClientBytes[0])
		}
		if dialErr == nil && cfg.HS != 0 {
			add(fmt.Sprintf("implicit-tls/bad-certificate-accepted/hs=%d", cfg.HS), "DialWithContext succeeded although the handshake is not valid for the host")
		}
	case 1:
		if dialErr == nil && cfg.Adv && cfg.STReply == 0 && cfg.HS != 0 {
			add(fmt.Sprintf("opportunistic-tls/bad-certificate-accepted/hs=%d", cfg.HS), "STARTTLS was accepted, the handshake is not valid for the host, yet the dial succeeded")
		}
	}
	if len(conn.PostTLSPlain) > 0 {
		add("plaintext-after-tls-start/"+pol, "after the switch to TLS the client wrote non-TLS bytes %q", clipS(string(conn.PostTLSPlain[0]), 60))
	}
	// 2. password confidentiality
	revealing := an == "PLAIN" || an == "LOGIN" || an == "AUTODISCOVER" || strings.HasPrefix(an, "CUSTOM")
	if revealing && !cfg.Local && (cfg.Policy != 3 || cfg.FB == 5) {
		b64 := base64.StdEncoding.EncodeToString
		for name, nd := range map[string]string{"the raw password": c07Pass, "base64(password)": b64([]byte(c07Pass)), "the PLAIN response": b64([]byte("\x00" + c07User + "\x00" + c07Pass))} {
			if bytes.Contains(clear, []byte(nd)) {
				add(fmt.Sprintf("password-in-cleartext/auth=%s/policy=%s", an, pol), "%s travelled in clear to a non-localhost server (auth type %s, policy %s)", name, an, pol)
			}
		}
	}
	// 3. auto-discovery never picks PLAIN/LOGIN in clear
	if an == "AUTODISCOVER" {
		for _, ln := range lines {
			u := strings.ToUpper(ln)
			if strings.HasPrefix(u, "AUTH PLAIN") || strings.HasPrefix(u, "AUTH LOGIN") {
				add("autodiscover-picked-password-mechanism-in-clear/"+pol, "auto-discovery sent %q on an unencrypted connection (advertised: %s)", clipS(ln, 30), c07AuthLists[cfg.AuthList])
			}
		}
	}
	// 4. injected plaintext must not be interpreted after the handshake
	custom := strings.HasPrefix(an, "CUSTOM") // a custom Auth is used without looking at the advertised mechanisms (documented)
	if cfg.STReply == 4 && handshakeDone && !custom {
		for _, e := range sess.Transcript {
			if e.Verb == "AUTH" {
				add("injected-plaintext-interpreted/"+pol, "the client sent AUTH inside TLS although only the plaintext injected before the handshake advertised it")
				break
			}
		}
	}
	// 5. protocol monitor (commands not advertised etc.)
	for _, il := range sess.Illegal {
		if il.Key == "unknown-command" && strings.Contains(il.What, `"*"`) {
			continue
		}
		if (cfg.FB == 1 || cfg.FB == 4) && len(conn.ClientBytes) > 0 && conn.ClientBytes[0] == 0x16 {
			break // the plain-text server on the fallback port was sent a TLS ClientHello: no SMTP dialogue to monitor
		}
		if custom && il.Key == "not-advertised" {
			continue
		}
		add("illegal/"+il.Key+"/"+pol, "%s", il.What)
		break
	}
	if handshakeDone {
		r.Outcome("tls-established/" + pol)
	}
	if cfg.FB > 0 && len(conn.ClientBytes) > 0 {
		r.Outcome(fmt.Sprintf("fallback-connection-used/fb=%d", cfg.FB))
	}
	if cfg.Unix && len(conn.ClientBytes) > 0 {
		r.Outcome("unix-socket-used/" + pol)
	}
	if cfg.PortPol > 0 && len(sess.Transcript) > 0 {
		r.Outcome(fmt.Sprintf("port-policy-variant/%d", cfg.PortPol))
	}
	if cfg.Setters && (len(sess.Transcript) > 1 || handshakeDone) {
		r.Outcome("configured-through-setters")
	}
	if cfg.Prev > 0 {
		r.Outcome("second-dial-judged")
	}
	if sess.Authed {
		r.Outcome("authenticated/" + an)
	}
	return out
}

func init() {
	vf.Register(&vf.Check{
		ID: "C07", Title: "TLS policy and credential confidentiality hold against any server",
		Run: func(r *vf.Run) {
			r.SetRule("the full product TLS policy {mandatory, opportunistic, none, implicit (go-mail's own TLS dialer over a loopback bridge)} × 13 auth types × (mandatory/opportunistic) WithTLSPortPolicy with the primary port refusing (also with the policy changed afterwards through SetTLSPolicy, which leaves the fallback port in place) × (implicit TLS) a Client that first dialled without TLS and was then switched over with SetSSL(true) × the QuickSend entry point (own Client, opportunistic TLS, auto-discovery) against plain and STARTTLS servers × every policy with the server behind a UNIX domain socket (unix:// host, go-mail's own dialer) × (implicit TLS) a plain connection supplied by the caller's own dial function (password clauses only) × (implicit TLS) fallback enabled with the primary port refusing and the fallback port 25 served by a plain-text or an implicit-TLS server × the policy given through WithTLSPortPolicy / SetTLSPortPolicy on a Client that already has a custom port and the opposite policy × a caller's tls.Config without ServerName that is shared with another Client for another host × configuration through options or through the Client's setters (after construction with the opposite settings) × host name {mail.example.test, five remote names that resemble loopback names (localhost.example.test, 127.0.0.1.example.test, …), localhost, 127.0.0.1} × server behaviour {STARTTLS advertised or not; reply 220 / 454 / 501 / garbage / 220 followed by injected plaintext; handshake ok / wrong-name certificate / untrusted certificate / garbage; 7 advertised AUTH lists}, each executed with real crypto/tls handshakes where reached; oracle on the byte tap of everything the client wrote before/after the switch to TLS; distinct by configuration")
			r.Assume("a completed server-side handshake implies the client accepted the certificate (TLS 1.2/1.3 semantics)", "implicit TLS is only exercised against loopback addresses (go-mail's dialer needs a real socket; the fallback cases listen on port 25 of 127.x.y.z)")
			var cfgs []c07Cfg
			for pol := 0; pol < 4; pol++ {
				for a := range c07Auths {
					for hostN := 0; hostN < 8; hostN++ {
						local := hostN >= 6
						hostIdx := hostN
						if local {
							hostIdx = hostN - 6
						}
						if !local && hostIdx == 0 {
							// the server behind a UNIX domain socket, reached with go-mail's own dialer
							for al := range c07AuthLists {
								for hs := 0; hs < 2; hs++ {
									if pol == 2 && hs > 0 {
										continue
									}
									cfgs = append(cfgs, c07Cfg{Policy: pol, Auth: a, AuthList: al, Adv: true, HS: hs, Unix: true})
								}
								if pol == 3 {
									cfgs = append(cfgs, c07Cfg{Policy: pol, Auth: a, AuthList: al, Adv: true, Unix: true, FB: 1})
								}
							}
						}
						if pol == 3 {
							// implicit TLS configured, the connection supplied by the caller's own dial function
							for al := range c07AuthLists {
								cfgs = append(cfgs, c07Cfg{Policy: pol, Auth: a, Local: local, HostIdx: hostIdx, AuthList: al, FB: 5})
							}
						}
						if pol == 3 && !local {
							continue
						}
						// look-alike names only matter where a password could travel in clear
						if !local && hostIdx > 0 && !(c07Auths[a] == "PLAIN" || c07Auths[a] == "LOGIN" || c07Auths[a] == "AUTODISCOVER" || strings.HasPrefix(c07Auths[a], "CUSTOM")) {
							continue
						}
						for al := range c07AuthLists {
							for hs := 0; hs < 4; hs++ {
								if pol == 3 {
									if !r.Thorough && (a+al+hs)%2 != 0 {
										continue // quick: half of the (real-socket) implicit-TLS configurations
									}
									cfgs = append(cfgs, c07Cfg{Policy: pol, Auth: a, Local: local, HostIdx: hostIdx, HS: hs, AuthList: al})
									if hostIdx == 1 && hs == 0 {
										cfgs = append(cfgs, c07Cfg{Policy: pol, Auth: a, Local: local, HostIdx: hostIdx, HS: hs, AuthList: al, FB: 4})
									}
									if hostIdx == 1 && (hs == 0 || hs == 1) {
										cfgs = append(cfgs, c07Cfg{Policy: pol, Auth: a, Local: local, HostIdx: hostIdx, HS: hs, AuthList: al, FB: 2})
										if hs == 0 {
											cfgs = append(cfgs, c07Cfg{Policy: pol, Auth: a, Local: local, HostIdx: hostIdx, HS: hs, AuthList: al, FB: 1})
										}
									}
									continue
								}
								for _, adv := range []bool{true, false} {
									for st := 0; st < 5; st++ {
										if pol == 2 && (hs > 0 || st > 0) {
											continue // without TLS neither the STARTTLS reply nor the handshake is reached
										}
										if (!adv && pol == 1 || st != 0 && st != 4) && hs > 0 {
											continue // the handshake is not reached
										}
										if !adv && pol != 0 && st > 0 {
											continue
										}
										cfgs = append(cfgs, c07Cfg{Policy: pol, Auth: a, Local: local, HostIdx: hostIdx, Adv: adv, STReply: st, HS: hs, AuthList: al})
										if hostIdx == 0 && c07Auths[a] != "none" && !strings.HasPrefix(c07Auths[a], "CUSTOM") {
											cfgs = append(cfgs, c07Cfg{Policy: pol, Auth: a, Local: local, HostIdx: hostIdx, Adv: adv, STReply: st, HS: hs, AuthList: al, Setters: true})
										}
										if hostIdx == 0 && st == 0 && adv && pol <= 1 && hs <= 1 {
											cfgs = append(cfgs, c07Cfg{Policy: pol, Auth: a, Local: local, HostIdx: hostIdx, Adv: adv, STReply: st, HS: hs, AuthList: al, SharedTLS: true})
										}
										if hostIdx == 0 && (st == 0 || st == 1) && hs == 0 {
											for pp := 1; pp <= 2; pp++ {
												cfgs = append(cfgs, c07Cfg{Policy: pol, Auth: a, Local: local, HostIdx: hostIdx, Adv: adv, STReply: st, HS: hs, AuthList: al, PortPol: pp})
											}
										}
										if hostIdx == 0 && pol <= 1 && (st == 0 || st == 1) {
											// WithTLSPortPolicy: the first dial is refused, the fallback connection is judged
											cfgs = append(cfgs, c07Cfg{Policy: pol, Auth: a, Local: local, HostIdx: hostIdx, Adv: adv, STReply: st, HS: hs, AuthList: al, FB: 3})
											cfgs = append(cfgs, c07Cfg{Policy: pol, Auth: a, Local: local, HostIdx: hostIdx, Adv: adv, STReply: st, HS: hs, AuthList: al, FB: 3, Setters: true})
										}
										if hostIdx == 0 && hs == 0 && st == 0 && pol <= 1 {
											for _, prev := range []int{2, 4, 7} { // earlier connection advertised PLAIN / PLAIN LOGIN / everything inside TLS
												cfgs = append(cfgs, c07Cfg{Policy: pol, Auth: a, Local: local, HostIdx: hostIdx, Adv: adv, STReply: st, HS: hs, AuthList: al, Prev: prev})
											}
										}
									}
								}
							}
						}
					}
				}
			}
			for al := range c07AuthLists {
				for _, adv := range []bool{false, true} {
					cfgs = append(cfgs, c07Cfg{Policy: 1, Auth: 11, Local: true, HostIdx: 1, Adv: adv, AuthList: al, Quick: true})
				}
			}
			r.Extra("configurations", len(cfgs))
			r.Parallel(len(cfgs), "C07 configurations", func(i int) {
				cfg := cfgs[i]
				fs := c07Exec(r, cfg)
				b, _ := json.Marshal(cfg)
				r.Eval(vf.Hash(string(b)), true)
				r.TraceValidated()
				r.Transition(vf.Hash(c07Policies[cfg.Policy], fmt.Sprint(cfg.Local)), string(b), vf.Hash(c07Policies[cfg.Policy], c07Auths[cfg.Auth], fmt.Sprint(cfg.HS), fmt.Sprint(cfg.STReply), fmt.Sprint(len(fs) == 0)))
				if i%1801 == 0 {
					r.Sample(map[string]interface{}{"cfg": cfg, "policy": c07Policies[cfg.Policy], "auth": c07Auths[cfg.Auth], "advertised_auth": c07AuthLists[cfg.AuthList]})
				}
				if len(fs) == 0 {
					r.Outcome("policy-held")
				}
				for _, f := range fs {
					f := f
					r.Outcome(strings.SplitN(f.key, "/", 2)[0])
					r.Violation(f.key, f.what+fmt.Sprintf(" cfg=%+v", cfg), cfg, func() string {
						for _, x := range c07Exec(r, cfg) {
							if x.key == f.key {
								return f.key
							}
						}
						return ""
					})
				}
			})
			r.Reached("fallback-connection-used/fb=1", "fallback-connection-used/fb=2", "fallback-connection-used/fb=3", "fallback-connection-used/fb=4", "fallback-connection-used/fb=5", "unix-socket-used/mandatory", "unix-socket-used/opportunistic", "unix-socket-used/none", "unix-socket-used/implicit", "quicksend-dialogue", "quicksend-authenticated", "port-policy-variant/1", "port-policy-variant/2", "reached/tls-config-shared-with-another-client", "configured-through-setters", "second-dial-judged",
				"tls-established/mandatory", "tls-established/opportunistic", "tls-established/implicit", "authenticated/PLAIN", "authenticated/SCRAM-SHA-256-PLUS")
		},
		Replay: func(r *vf.Run, kase json.RawMessage) {
			var k c07Cfg
			if err := json.Unmarshal(kase, &k); err != nil {
				r.HarnessError("bad case: %v", err)
				return
			}
			r.Eval(1, true)
			fmt.Printf("  cfg: %+v policy=%s auth=%s\n", k, c07Policies[k.Policy], c07Auths[k.Auth])
			for _, f := range c07Exec(r, k) {
				fmt.Printf("  -> %s: %s\n", f.key, f.what)
				r.Violation(f.key, f.what, k, nil)
			}
		},
	})
}
