package checks

import (
	"crypto/hmac"
	"crypto/sha1"
	"crypto/sha256"
	"crypto/tls"
	"encoding/base64"
	"encoding/json"
	"fmt"
	"hash"
	"strings"

	"github.com/wneessen/go-mail/smtp"

	"verif/hx"
	"verif/refsmtp"
	"verif/sasl"
	"verif/vf"
)

// C15 — SCRAM authenticates the server.

type c15Case struct {
	Hist    int   `json:"hist,omitempty"` // 0 fresh Auth object; 1 it already completed a conforming exchange on an earlier connection; 2 it went through an earlier exchange that is itself explored over the alphabet (and may have been aborted)
	Variant int   `json:"variant"`        // 0 SHA-1, 1 SHA-256, 2 SHA-1-PLUS, 3 SHA-256-PLUS
	MaxLen  int   `json:"maxlen"`
	Prefix  []int `json:"choices"`
}

var c15Variants = []string{"SCRAM-SHA-1", "SCRAM-SHA-256", "SCRAM-SHA-1-PLUS", "SCRAM-SHA-256-PLUS"}

// server symbols
const (
	symFirstValid = iota
	symFirstForeignNonce
	symFirstForeignLong
	symFirstPrefixNonce
	symFirstEmptyNonce
	symFirstMalformed
	symFirstIterZero
	symFirstIterNeg
	symFinalValid
	symFinalOtherKey
	symFinalTampered
	symFinalEmptyState
	symFinalNoVerifier
	symFinalPrefix
	symFinalZeroKey
	symEmpty
	symJunk
	sym235
	sym535
	nSyms
)

var c15SymNames = []string{"server-first(valid)", "server-first(foreign nonce)", "server-first(foreign nonce, longer than any nonce seen so far)", "server-first(nonce = proper prefix of the client nonce)", "server-first(empty nonce)", "server-first(malformed)", "server-first(iteration count 0)", "server-first(negative iteration count)", "server-final(valid)",
	"server-final(other exchange/key)", "server-final(valid prefix, tampered tail)", "server-final(over empty state)", "server-final(empty verifier \"v=\")", "server-final(proper prefix of the genuine signature)", "server-final(signed with an all-zero salted password)", "empty challenge", "junk", "235", "535"}

const (
	c15User = "scram,user=x%s"
	c15Pass = "correct horse %d battery"
)

// c15Server is the scripted SCRAM server plus the reference automaton that knows which successes are legitimate.
type c15Server struct {
	c       *vf.Chooser
	variant int
	maxLen  int
	cbData  []byte

	sent       []int // symbols sent
	clientMsgs []string
	// reference automaton for the running exchange
	haveClientFirst bool
	clientBare      string
	cnonce          string
	gs2             string
	serverFirstSent string // the server-first of this exchange that the client may answer (any variant)
	firstExtends    bool   // whether it extends the client nonce (only then is the exchange legitimate)
	firstAnswered   bool   // client-final received after it
	clientFinalNoPf string
	validSig        []byte // ServerSignature of this exchange (once client-final arrived)
	validSigShown   bool   // the valid server-final was presented after firstAnswered
	acked           []string
	lastWasFinal    int // symbol of the last server message if it was a server-final, else -1
	ackOfInvalid    string
	prevSig         []byte // genuine server signature of an earlier exchange with the same Auth object (replay material)
}

func (s *c15Server) h() func() hash.Hash {
	if s.variant%2 == 1 {
		return sha256.New
	}
	return sha1.New
}

func mac(h func() hash.Hash, key, msg []byte) []byte {
	m := hmac.New(h, key)
	m.Write(msg)
	return m.Sum(nil)
}

var c15Salt = []byte("salty-salt-0123")

const c15Iter = 64

func (s *c15Server) resetExchange() {
	if s.validSig != nil {
		s.prevSig = s.validSig
	}
	s.haveClientFirst, s.clientBare, s.cnonce, s.gs2 = false, "", "", ""
	s.serverFirstSent, s.firstAnswered, s.clientFinalNoPf, s.firstExtends = "", false, "", false
	s.validSig, s.validSigShown = nil, false
}

// conforming returns the symbol an honest server would send now.
func (s *c15Server) conforming() int {
	switch {
	case !s.haveClientFirst:
		return symEmpty
	case s.serverFirstSent == "":
		return symFirstValid
	case s.firstAnswered && !s.validSigShown:
		return symFinalValid
	case s.validSigShown:
		return sym235
	}
	return sym535
}

// observe digests one client message according to what the server last sent.
func (s *c15Server) observe(msg []byte) {
	m := string(msg)
	s.clientMsgs = append(s.clientMsgs, m)
	if s.lastWasFinal >= 0 {
		// reaction to a server-final: "" acknowledges it
		if m == "" {
			if !(s.lastWasFinal == symFinalValid && s.validSigShown) {
				s.ackOfInvalid = c15SymNames[s.lastWasFinal]
				if s.lastWasFinal == symFinalValid {
					s.ackOfInvalid = "server-final(valid key, no running exchange)"
					if s.firstAnswered && !s.firstExtends {
						s.ackOfInvalid = "server-final(genuine signature over an exchange whose server nonce did not extend the client nonce)"
					}
				}
			}
		}
		s.lastWasFinal = -1
		if m == "" {
			return
		}
	}
	if gs2, bare, _, cn, err := sasl.ParseClientFirst(m); err == nil && (strings.HasPrefix(m, "n,,") || strings.HasPrefix(m, "p=") || strings.HasPrefix(m, "y,,")) {
		// a new client-first starts a new exchange
		s.resetExchange()
		s.haveClientFirst, s.clientBare, s.cnonce, s.gs2 = true, bare, cn, gs2
		return
	}
	if strings.HasPrefix(m, "c=") && s.serverFirstSent != "" && !s.firstAnswered {
		k := strings.LastIndex(m, ",p=")
		if k > 0 {
			s.firstAnswered = true
			s.clientFinalNoPf = m[:k]
			h := s.h()
			salted := sasl.PBKDF2(h, []byte(c15Pass), c15Salt, c15Iter, h().Size())
			authMsg := s.clientBare + "," + s.serverFirstSent + "," + s.clientFinalNoPf
			s.validSig = mac(h, mac(h, salted, []byte("Server Key")), []byte(authMsg))
		}
	}
}

func (s *c15Server) emit(sym int) (challenge []byte, code int) {
	s.sent = append(s.sent, sym)
	s.lastWasFinal = -1
	h := s.h()
	b64 := base64.StdEncoding.EncodeToString
	switch sym {
	case symFirstValid:
		if !s.haveClientFirst {
			// no client nonce known: whatever is sent cannot extend it
			return []byte("r=serveronlynonce,s=" + b64(c15Salt) + ",i=64"), 334
		}
		sf := "r=" + s.cnonce + "SRVNONCE,s=" + b64(c15Salt) + fmt.Sprintf(",i=%d", c15Iter)
		if s.serverFirstSent == "" {
			s.serverFirstSent, s.firstExtends = sf, true
		} else {
			// a repeated, nonce-extending server-first restarts the proof: the server still has to sign the new exchange
			s.serverFirstSent, s.firstAnswered, s.validSig, s.firstExtends = sf, false, nil, true
		}
		return []byte(sf), 334
	case symFirstForeignNonce:
		n := "foreignnonce"
		if len(s.cnonce) > 4 {
			// truncated, then continued with a character that differs from the client's own (the client nonce
			// is random: a fixed continuation would extend it once in 64^3 executions)
			k := len(s.cnonce) - 3
			x := "A"
			if s.cnonce[k] == 'A' {
				x = "B"
			}
			n = s.cnonce[:k] + x
		}
		sf := "r=" + n + "YZ9,s=" + b64(c15Salt) + ",i=64"
		// a client that (wrongly) answers this is then offered the genuine signature over that exchange
		s.serverFirstSent, s.firstAnswered, s.validSig, s.firstExtends = sf, false, nil, false
		return []byte(sf), 334
	case symFirstForeignLong:
		// unrelated to the client nonce from the first character on, and longer than every nonce of this exchange
		n := strings.Repeat("Zq9", (len(s.cnonce)+len(s.serverFirstSent))/3+8)
		if len(s.cnonce) > 0 && s.cnonce[0] == 'Z' {
			n = "Y" + n
		}
		sf := "r=" + n + ",s=" + b64(c15Salt) + ",i=64"
		s.serverFirstSent, s.firstAnswered, s.validSig, s.firstExtends = sf, false, nil, false
		return []byte(sf), 334
	case symFirstPrefixNonce, symFirstEmptyNonce:
		// a nonce that does not EXTEND the client nonce but is contained in it
		n := ""
		if sym == symFirstPrefixNonce && len(s.cnonce) > 4 {
			n = s.cnonce[:len(s.cnonce)/2]
		}
		sf := "r=" + n + ",s=" + b64(c15Salt) + ",i=64"
		s.serverFirstSent, s.firstAnswered, s.validSig, s.firstExtends = sf, false, nil, false
		return []byte(sf), 334
	case symFirstMalformed:
		return []byte("r=" + s.cnonce + "SRV,i=64"), 334
	case symFirstIterZero, symFirstIterNeg:
		// well-formed and nonce-extending, but the iteration count is not a positive number: no genuine exchange can
		// follow (the reference treats it like a nonce that does not extend the client's)
		it := "0"
		if sym == symFirstIterNeg {
			it = "-1"
		}
		sf := "r=" + s.cnonce + "SRVNONCE,s=" + b64(c15Salt) + ",i=" + it
		s.serverFirstSent, s.firstAnswered, s.validSig, s.firstExtends = sf, false, nil, false
		return []byte(sf), 334
	case symFinalValid:
		s.lastWasFinal = symFinalValid
		if s.firstAnswered && s.validSig != nil {
			if s.firstExtends {
				s.validSigShown = true
			}
			return []byte("v=" + b64(s.validSig)), 334
		}
		// no running exchange to sign: the best an honest key holder could do is sign what it has
		salted := sasl.PBKDF2(h, []byte(c15Pass), c15Salt, c15Iter, h().Size())
		sig := mac(h, mac(h, salted, []byte("Server Key")), []byte(s.clientBare+","+s.serverFirstSent+","))
		return []byte("v=" + b64(sig)), 334
	case symFinalOtherKey:
		s.lastWasFinal = symFinalOtherKey
		if s.prevSig != nil {
			// replay: the genuine signature of the previous exchange of this very Auth object
			return []byte("v=" + b64(s.prevSig)), 334
		}
		salted := sasl.PBKDF2(h, []byte("some other password"), c15Salt, c15Iter, h().Size())
		sig := mac(h, mac(h, salted, []byte("Server Key")), []byte("n=other,r=abc,r=abcdef,s=c2FsdA==,i=64,c=biws,r=abcdef"))
		return []byte("v=" + b64(sig)), 334
	case symFinalTampered:
		s.lastWasFinal = symFinalTampered
		sig := []byte("0123456789abcdefghij")
		if s.validSig != nil {
			sig = append([]byte{}, s.validSig...)
		}
		e := []byte(b64(sig))
		// keep the first characters, change the tail
		for i := len(e) - 6; i < len(e)-1 && i >= 0; i++ {
			if e[i] == 'A' {
				e[i] = 'B'
			} else {
				e[i] = 'A'
			}
		}
		return append([]byte("v="), e...), 334
	case symFinalEmptyState:
		s.lastWasFinal = symFinalEmptyState
		sig := mac(h, mac(h, nil, []byte("Server Key")), nil)
		return []byte("v=" + b64(sig)), 334
	case symFinalNoVerifier:
		s.lastWasFinal = symFinalNoVerifier
		return []byte("v="), 334
	case symFinalPrefix:
		// the first half of the genuine signature of the running exchange (or of a constant when there is none),
		// re-padded so that it is well-formed base64
		s.lastWasFinal = symFinalPrefix
		sig := []byte("0123456789abcdefghij")
		if s.validSig != nil {
			sig = s.validSig
		}
		return []byte("v=" + b64(sig[:len(sig)/2])), 334
	case symFinalZeroKey:
		// what a server without the password can always compute: the signature under an all-zero salted password
		s.lastWasFinal = symFinalZeroKey
		zero := make([]byte, h().Size())
		sig := mac(h, mac(h, zero, []byte("Server Key")), []byte(s.clientBare+","+s.serverFirstSent+","+s.clientFinalNoPf))
		return []byte("v=" + b64(sig)), 334
	case symEmpty:
		return []byte{}, 334
	case symJunk:
		return []byte("junk-not-scram"), 334
	case sym235:
		return nil, 235
	default:
		return nil, 535
	}
}

func (s *c15Server) legit() bool {
	n := len(s.sent)
	return n > 0 && s.sent[n-1] == sym235 && s.validSigShown && n >= 2 && s.sent[n-2] == symFinalValid &&
		len(s.clientMsgs) > 0 && s.clientMsgs[len(s.clientMsgs)-1] == ""
}

func (s *c15Server) describe() string {
	var n []string
	for _, x := range s.sent {
		n = append(n, c15SymNames[x])
	}
	return strings.Join(n, " → ")
}

func c15Exec(r *vf.Run, variant, maxLen int, c *vf.Chooser) (keys, whats []string, desc string) {
	return c15ExecR(r, variant, maxLen, 0, c)
}

func c15ExecR(r *vf.Run, variant, maxLen int, hist int, c *vf.Chooser) (keys, whats []string, desc string) {
	add := func(k, w string) { keys = append(keys, k); whats = append(whats, w) }
	srv := &c15Server{c: c, variant: variant, maxLen: maxLen, lastWasFinal: -1, cbData: []byte("uniq-12bytes")}
	var shared smtp.Auth
	st0 := &tls.ConnectionState{Version: tls.VersionTLS12, TLSUnique: srv.cbData, HandshakeComplete: true}
	switch variant {
	case 0:
		shared = smtp.ScramSHA1Auth(c15User, c15Pass)
	case 1:
		shared = smtp.ScramSHA256Auth(c15User, c15Pass)
	case 2:
		shared = smtp.ScramSHA1PlusAuth(c15User, c15Pass, st0)
	default:
		shared = smtp.ScramSHA256PlusAuth(c15User, c15Pass, st0)
	}
	histDesc := ""
	if hist == 2 {
		// connection 1: an exchange explored over the same alphabet (it may fail or be aborted at any point);
		// whatever genuine server signature it produced is replay material for connection 2
		pre := &c15Server{c: c, variant: variant, maxLen: maxLen - 1, lastWasFinal: -1, cbData: srv.cbData}
		var preErr error
		if p, w := vf.Guard(func() { preErr = c15Drive(r, pre, shared, maxLen-1) }); p {
			add("panic/"+vf.PanicSite(w), w)
			return
		}
		histDesc = fmt.Sprintf("[earlier exchange with the same Auth object: %s ⇒ %v] ", pre.describe(), preErr != nil)
		srv.prevSig = pre.validSig
		if srv.prevSig == nil {
			srv.prevSig = pre.prevSig
		}
	}
	if hist == 1 {
		// connection 1: a conforming exchange (all default choices) with the same Auth object; its genuine
		// server signature becomes replay material for connection 2
		pre := &c15Server{c: vf.NewChooser(nil), variant: variant, maxLen: 8, lastWasFinal: -1, cbData: srv.cbData}
		if err := c15Drive(r, pre, shared, 8); err != nil {
			r.HarnessError("C15 reuse: the conforming first exchange failed: %v", err)
			return
		}
		srv.prevSig = pre.validSig
	}
	var authErr error
	var pan bool
	var pw string
	var transcript []refsmtp.Exchange
	pan, pw = vf.Guard(func() { authErr, transcript = c15DriveT(r, srv, shared, maxLen) })
	desc = histDesc + srv.describe()
	if pan {
		add("panic/"+vf.PanicSite(pw), pw)
		return
	}
	protoStates(r, transcript)
	ok := authErr == nil
	legit := srv.legit()
	if ok && legit {
		r.Outcome(fmt.Sprintf("reached/legitimate-success/hist=%d", hist))
	}
	for _, x := range srv.sent {
		r.Outcome("reached/symbol/" + c15SymNames[x])
	}
	if hist == 2 && strings.Contains(histDesc, "true]") {
		r.Outcome("reached/earlier-exchange-ended-in-error")
	}
	if ok && !legit {
		// classify why it is not legitimate
		why := "no-server-signature"
		hasFirst := false
		for _, x := range srv.sent {
			if x == symFirstValid {
				hasFirst = true
			}
		}
		for _, x := range srv.sent {
			switch x {
			case symFinalOtherKey:
				why = "forged-signature(other exchange/key)"
			case symFinalTampered:
				why = "forged-signature(tampered tail)"
			case symFinalEmptyState:
				why = "forged-signature(over empty state)"
			case symFinalNoVerifier:
				why = "forged-signature(empty verifier)"
			case symFinalPrefix:
				why = "forged-signature(prefix of the genuine one)"
			case symFinalZeroKey:
				why = "forged-signature(all-zero salted password)"
			case symFinalValid:
				if !srv.validSigShown {
					why = "signature-outside-exchange"
				}
			}
		}
		if srv.validSigShown {
			why = "valid-signature-then-extra-steps"
		}
		if srv.firstAnswered && !srv.firstExtends {
			why = "server-nonce-did-not-extend-client-nonce"
			if strings.HasSuffix(srv.serverFirstSent, ",i=0") || strings.HasSuffix(srv.serverFirstSent, ",i=-1") {
				why = "server-first-with-non-positive-iteration-count"
			}
		}
		if len(srv.sent) == 1 {
			why = "bare-235-as-first-server-message"
		}
		add(fmt.Sprintf("accepted-unauthenticated-server/%s/server-first-answered=%v", why, hasFirst && srv.firstAnswered),
			fmt.Sprintf("%s: Auth returned nil although the server never proved knowledge of the password in this exchange; server messages: %s", c15Variants[variant], desc))
	}
	if !ok && legit {
		add("rejected-conforming-server", fmt.Sprintf("%s: Auth failed (%v) although the server followed the protocol: %s", c15Variants[variant], authErr, desc))
	}
	if srv.ackOfInvalid != "" {
		add("acknowledged-invalid-server-final/"+srv.ackOfInvalid, fmt.Sprintf("%s: the client acknowledged (empty response) a %s; server messages: %s", c15Variants[variant], srv.ackOfInvalid, desc))
	}
	return
}

// c15DriveT runs one AUTH exchange of auth against the scripted server srv on a fresh connection.
func c15DriveT(r *vf.Run, srv *c15Server, auth smtp.Auth, maxLen int) (error, []refsmtp.Exchange) {
	c := srv.c
	sess := &refsmtp.Session{Host: hx.Host, Caps: []string{"AUTH " + strings.Join(c15Variants, " ")}}
	sess.NewAuth = func(*refsmtp.Session, string) refsmtp.AuthExchange { return junkExchange{} }
	sess.Script = func(s *refsmtp.Session, ev *refsmtp.Event, def refsmtp.Action) refsmtp.Action {
		if ev.Verb != "AUTH" && ev.Verb != "AUTHRESP" {
			return def
		}
		if ev.Verb == "AUTHRESP" {
			if ev.Line == "*" {
				return def
			}
			raw, err := base64.StdEncoding.DecodeString(ev.Line)
			if err != nil {
				return def
			}
			srv.observe(raw)
		} else if f := strings.Fields(ev.Line); len(f) == 3 {
			raw, _ := base64.StdEncoding.DecodeString(f[2])
			srv.observe(raw)
		}
		if len(srv.sent) >= maxLen {
			_, code := srv.emit(sym535)
			return refsmtp.Action{Kind: refsmtp.ActReply, Code: code, Text: []string{"authentication failed"}}
		}
		conf := srv.conforming()
		pick := c.Choose(fmt.Sprintf("srvmsg#%d", len(srv.sent)+1), nSyms)
		sym := conf
		if pick > 0 {
			k := 0
			for x := 0; x < nSyms; x++ {
				if x == conf {
					continue
				}
				k++
				if k == pick {
					sym = x
				}
			}
		}
		ch, code := srv.emit(sym)
		switch code {
		case 334:
			return refsmtp.Action{Kind: refsmtp.ActReply, Code: 334, Text: []string{base64.StdEncoding.EncodeToString(ch)}}
		case 235:
			return refsmtp.Action{Kind: refsmtp.ActReply, Code: 235, Text: []string{"2.7.0 authentication successful"}}
		}
		return refsmtp.Action{Kind: refsmtp.ActReply, Code: 535, Text: []string{"5.7.8 authentication failed"}}
	}
	conn := refsmtp.NewConn(sess)
	cl, err := smtp.NewClient(conn, hx.Host)
	if err != nil {
		r.HarnessError("C15 NewClient: %v", err)
		return err, nil
	}
	authErr := cl.Auth(auth)
	if authErr == nil {
		_ = cl.Quit()
	}
	_ = cl.Close()
	return authErr, sess.Transcript
}

func c15Drive(r *vf.Run, srv *c15Server, auth smtp.Auth, maxLen int) error {
	err, _ := c15DriveT(r, srv, auth, maxLen)
	return err
}

type junkExchange struct{}

func (junkExchange) Step([]byte) ([]byte, bool, bool) { return nil, true, false }

func init() {
	vf.Register(&vf.Check{
		ID: "C15", Title: "SCRAM authenticates the server",
		Run: func(r *vf.Run) {
			r.SetRule("every server message sequence up to length L over the 19-symbol alphabet {valid server-first, server-first with foreign/truncated nonce, server-first with an unrelated nonce longer than any seen so far, server-first whose nonce is a proper prefix of the client nonce, server-first with an empty nonce, malformed server-first, nonce-extending server-first with iteration count 0 / -1, valid server-final (genuine signature over whatever exchange is running), server-final of another exchange/key, server-final with valid prefix and tampered tail, server-final over empty state, server-final with an empty verifier, server-final with a proper prefix of the genuine signature, server-final signed under an all-zero salted password (what a server without the password can always compute), empty challenge, junk, 235, 535}, chosen on the fly after each client message, through smtp.Client.Auth on the synchronous connection, for SCRAM-SHA-1/-256 and both PLUS variants, with a fresh Auth object, with an Auth object that already completed a conforming exchange on an earlier connection (whose genuine server signature the server may replay), and with an Auth object that went through an earlier exchange which is itself explored over the alphabet (so it may have failed or been aborted at any point; an earlier exchange of up to L-2 and a judged exchange of up to L-1 server messages); reference automaton decides which successes are legitimate; distinct by (variant, sequence)")
			r.Assume("PLUS variants run over a fabricated TLS 1.2 connection state (tls-unique); the real handshake is covered by C14", "password/user are ASCII")
			maxLen0 := 5
			if r.Thorough {
				maxLen0 = 7
			}
			r.Extra("max_sequence_length", maxLen0)
			r.Extra("max_sequence_length_two_exchange_histories", fmt.Sprintf("%d + %d", maxLen0-2, maxLen0-1))
			for vv := 0; vv < 12; vv++ {
				v, reuse := vv%4, vv/4
				maxLen := maxLen0
				if reuse == 2 {
					maxLen = maxLen0 - 1 // judged exchange; the earlier exchange gets one message less
				}
				vf.Explore(r, 2*maxLen+1, fmt.Sprintf("C15 %s history=%v", c15Variants[v], reuse), func(c *vf.Chooser) {
					keys, whats, desc := c15ExecR(r, v, maxLen, reuse, c)
					if reuse == 1 {
						desc = "[Auth object reused after a conforming exchange on an earlier connection] " + desc
					}
					r.TraceValidated()
					r.Eval(vf.Hash(fmt.Sprint(vv), desc), true)
					if len(keys) == 0 {
						r.Outcome("sound")
					} else {
						r.Outcome("unsound")
					}
					if r.NSamples() < 6 && len(c.Picks) >= maxLen {
						r.Sample(map[string]interface{}{"variant": c15Variants[v], "server_messages": desc})
					}
					kase := c15Case{Variant: v, Hist: reuse, MaxLen: maxLen, Prefix: append([]int{}, c.Picks...)}
					for i, k := range keys {
						k := k
						r.Violation(k, whats[i], kase, func() string {
							ks, _, _ := c15ExecR(r, v, maxLen, reuse, vf.NewChooser(kase.Prefix))
							for _, x := range ks {
								if x == k {
									return k
								}
							}
							return ""
						})
					}
				})
			}
			r.Reached("reached/legitimate-success/hist=0", "reached/legitimate-success/hist=1", "reached/legitimate-success/hist=2", "reached/earlier-exchange-ended-in-error")
			for _, n := range c15SymNames {
				r.Reached("reached/symbol/" + n)
			}
		},
		Replay: func(r *vf.Run, kase json.RawMessage) {
			var k c15Case
			if err := json.Unmarshal(kase, &k); err != nil {
				r.HarnessError("bad case: %v", err)
				return
			}
			keys, whats, desc := c15ExecR(r, k.Variant, k.MaxLen, k.Hist, vf.NewChooser(k.Prefix))
			r.Eval(1, true)
			fmt.Printf("  %s server messages: %s\n", c15Variants[k.Variant], desc)
			for i, key := range keys {
				fmt.Printf("  -> %s: %s\n", key, whats[i])
				r.Violation(key, whats[i], k, nil)
			}
		},
	})
}
