// Package hx holds helpers shared by the checks: the fake dialer rig, standard messages, TLS material.
package hx

import (
	"context"
	"fmt"
	"net"
	"sync"
	"time"

	mail "github.com/wneessen/go-mail"

	"verif/refsmtp"
)

// T0 is the fixed Date of harness messages.
var T0 = time.Date(2024, 1, 2, 3, 4, 5, 0, time.UTC)

// Rig hands out fake connections to go-mail through WithDialContextFunc and remembers them.
type Rig struct {
	mu    sync.Mutex
	Conns []*refsmtp.Conn
	Addrs []string
	// Mk creates the n-th connection (0-based). Returning nil makes the dial fail.
	Mk func(n int) *refsmtp.Conn
	// Wrap optionally wraps the connection handed to go-mail (e.g. tls.Client for implicit TLS).
	Wrap func(c *refsmtp.Conn) net.Conn
	// OnDial, when set, runs inside every dial just before the connection is handed out (the dial itself ignores
	// its context, like a dialer that completes in spite of a cancellation): used to end the caller's context
	// while the dial is in flight.
	OnDial func(n int)
}

func (r *Rig) Dial(ctx context.Context, network, address string) (net.Conn, error) {
	r.mu.Lock()
	n := len(r.Conns)
	c := r.Mk(n)
	if c == nil {
		r.mu.Unlock()
		return nil, fmt.Errorf("dial %s %s: connection refused", network, address)
	}
	r.Conns = append(r.Conns, c)
	r.Addrs = append(r.Addrs, address)
	r.mu.Unlock()
	if r.OnDial != nil {
		r.OnDial(n)
	}
	if r.Wrap != nil {
		return r.Wrap(c), nil
	}
	return c, nil
}

// Sender / Rcpt return the deterministic envelope addresses of harness message i.
func Sender(i int) string  { return fmt.Sprintf("m%d@snd.example", i) }
func Rcpt(i, j int) string { return fmt.Sprintf("r%d-%d@rcp.example", i, j) }
func MsgID(i int) string   { return fmt.Sprintf("id%d.verif@harness.example", i) }
func BodyText(i int) string {
	return fmt.Sprintf("Body of message %d\r\n.leading dot\r\nlast line of %d\r\n", i, i)
}

// StdMsg builds message i with nrcpt recipients and the given encoding.
func StdMsg(i, nrcpt int, enc mail.Encoding) *mail.Msg {
	m := mail.NewMsg(mail.WithEncoding(enc))
	_ = m.From(Sender(i))
	for j := 0; j < nrcpt; j++ {
		_ = m.AddTo(Rcpt(i, j))
	}
	m.SetDateWithValue(T0)
	m.SetMessageIDWithValue(MsgID(i))
	m.Subject(fmt.Sprintf("message %d", i))
	m.SetBodyString(mail.TypeTextPlain, BodyText(i))
	return m
}
