package hx

import (
	"crypto"
	"crypto/ecdsa"
	"crypto/elliptic"
	"crypto/rand"
	"crypto/rsa"
	"crypto/tls"
	"crypto/x509"
	"crypto/x509/pkix"
	"math/big"
	"net"
	"sync"
	"time"
)

// Host is the server name harness clients are configured with when they talk to a "remote" server.
const Host = "mail.example.test"

// LookalikeHosts are remote host names that resemble a loopback name; the good certificate is valid for them.
var LookalikeHosts = []string{"localhost.example.test", "127.0.0.1.example.test", "localhostx.test", "xlocalhost.test", "localhost.localdomain.example.test"}

// TLSMat is the certificate material of one harness process.
type TLSMat struct {
	Pool      *x509.CertPool // trusts CA
	CACert    *x509.Certificate
	CAKey     crypto.Signer
	Good      tls.Certificate // valid for Host, localhost, 127.0.0.1
	WrongName tls.Certificate // valid for other.example.test only
	Untrusted tls.Certificate // right names, signed by a CA the client does not trust
	InterCert *x509.Certificate
	SignRSA   tls.Certificate // S/MIME signer (RSA-2048), issued by the intermediate
	SignECDSA tls.Certificate // S/MIME signer (P-256)
	SignP384  tls.Certificate // S/MIME signer (ECDSA P-384)
	SignP521  tls.Certificate // S/MIME signer (ECDSA P-521)
	// SignSameSerial: a P-256 signer whose serial number equals the intermediate's (serial numbers are only unique per
	// issuer: the signer is certificate no. 6 of the intermediate, the intermediate certificate no. 6 of the root)
	SignSameSerial tls.Certificate
}

var (
	matOnce sync.Once
	mat     *TLSMat
)

func mkCert(tmpl, parent *x509.Certificate, pub crypto.PublicKey, signer crypto.Signer) (*x509.Certificate, []byte) {
	der, err := x509.CreateCertificate(rand.Reader, tmpl, parent, pub, signer)
	if err != nil {
		panic(err)
	}
	c, err := x509.ParseCertificate(der)
	if err != nil {
		panic(err)
	}
	return c, der
}

func caTmpl(cn string, serial int64) *x509.Certificate {
	return &x509.Certificate{
		SerialNumber: big.NewInt(serial), Subject: pkix.Name{CommonName: cn, Organization: []string{"verif"}},
		NotBefore: time.Now().Add(-24 * time.Hour), NotAfter: time.Now().Add(10 * 365 * 24 * time.Hour),
		IsCA: true, BasicConstraintsValid: true, KeyUsage: x509.KeyUsageCertSign | x509.KeyUsageDigitalSignature,
	}
}

func leafTmpl(cn string, serial int64, names []string, ips []net.IP) *x509.Certificate {
	return &x509.Certificate{
		SerialNumber: big.NewInt(serial), Subject: pkix.Name{CommonName: cn, Organization: []string{"verif"}},
		NotBefore: time.Now().Add(-24 * time.Hour), NotAfter: time.Now().Add(5 * 365 * 24 * time.Hour),
		KeyUsage:    x509.KeyUsageDigitalSignature | x509.KeyUsageKeyEncipherment,
		ExtKeyUsage: []x509.ExtKeyUsage{x509.ExtKeyUsageServerAuth, x509.ExtKeyUsageEmailProtection},
		DNSNames:    names, IPAddresses: ips, EmailAddresses: []string{"signer@snd.example"},
	}
}

// Mat returns the process-wide TLS material (generated on first use).
func Mat() *TLSMat {
	matOnce.Do(func() {
		m := &TLSMat{}
		caKey, _ := ecdsa.GenerateKey(elliptic.P256(), rand.Reader)
		t := caTmpl("verif root CA", 1)
		ca, _ := mkCert(t, t, &caKey.PublicKey, caKey)
		m.CACert, m.CAKey = ca, caKey
		m.Pool = x509.NewCertPool()
		m.Pool.AddCert(ca)

		leaf := func(tmpl *x509.Certificate, parent *x509.Certificate, pk crypto.Signer) tls.Certificate {
			k, _ := ecdsa.GenerateKey(elliptic.P256(), rand.Reader)
			c, der := mkCert(tmpl, parent, &k.PublicKey, pk)
			return tls.Certificate{Certificate: [][]byte{der}, PrivateKey: k, Leaf: c}
		}
		m.Good = leaf(leafTmpl(Host, 2, append([]string{Host, "localhost"}, LookalikeHosts...), []net.IP{net.ParseIP("127.0.0.1"), net.ParseIP("::1")}), ca, caKey)
		m.WrongName = leaf(leafTmpl("other.example.test", 3, []string{"other.example.test"}, nil), ca, caKey)
		evilKey, _ := ecdsa.GenerateKey(elliptic.P256(), rand.Reader)
		et := caTmpl("evil CA", 4)
		evil, _ := mkCert(et, et, &evilKey.PublicKey, evilKey)
		m.Untrusted = leaf(leafTmpl(Host, 5, append([]string{Host, "localhost"}, LookalikeHosts...), []net.IP{net.ParseIP("127.0.0.1")}), evil, evilKey)

		interKey, _ := ecdsa.GenerateKey(elliptic.P256(), rand.Reader)
		inter, _ := mkCert(caTmpl("verif intermediate CA", 6), ca, &interKey.PublicKey, caKey)
		m.InterCert = inter
		rk, err := rsa.GenerateKey(rand.Reader, 2048)
		if err != nil {
			panic(err)
		}
		rc, rder := mkCert(leafTmpl("rsa signer", 7, nil, nil), inter, &rk.PublicKey, interKey)
		m.SignRSA = tls.Certificate{Certificate: [][]byte{rder}, PrivateKey: rk, Leaf: rc}
		ek, _ := ecdsa.GenerateKey(elliptic.P256(), rand.Reader)
		ec, eder := mkCert(leafTmpl("ecdsa signer", 8, nil, nil), inter, &ek.PublicKey, interKey)
		m.SignECDSA = tls.Certificate{Certificate: [][]byte{eder}, PrivateKey: ek, Leaf: ec}
		k384, _ := ecdsa.GenerateKey(elliptic.P384(), rand.Reader)
		c384, d384 := mkCert(leafTmpl("ecdsa p-384 signer", 9, nil, nil), inter, &k384.PublicKey, interKey)
		m.SignP384 = tls.Certificate{Certificate: [][]byte{d384}, PrivateKey: k384, Leaf: c384}
		k521, _ := ecdsa.GenerateKey(elliptic.P521(), rand.Reader)
		c521, d521 := mkCert(leafTmpl("ecdsa p-521 signer", 10, nil, nil), inter, &k521.PublicKey, interKey)
		m.SignP521 = tls.Certificate{Certificate: [][]byte{d521}, PrivateKey: k521, Leaf: c521}
		ks, _ := ecdsa.GenerateKey(elliptic.P256(), rand.Reader)
		cs, ds := mkCert(leafTmpl("ecdsa signer with the intermediate's serial number", 6, nil, nil), inter, &ks.PublicKey, interKey)
		m.SignSameSerial = tls.Certificate{Certificate: [][]byte{ds}, PrivateKey: ks, Leaf: cs}
		mat = m
	})
	return mat
}

// ServerTLS returns a server config presenting cert.
func ServerTLS(cert tls.Certificate) *tls.Config {
	return &tls.Config{Certificates: []tls.Certificate{cert}, MinVersion: tls.VersionTLS12}
}

// ClientTLS returns the client config harness clients use: trusts the harness CA, verifies Host.
func ClientTLS(serverName string) *tls.Config {
	return &tls.Config{RootCAs: Mat().Pool, ServerName: serverName, MinVersion: tls.VersionTLS12}
}
