package hx

import (
	"net"
	"os"
	"path/filepath"
	"sync"
	"time"

	"verif/refsmtp"
)

// Bridge exposes a refsmtp.Conn on a loopback TCP port, so that go-mail's own dialer (needed for implicit
// TLS) can be used. Every chunk read from the socket is fed to the Conn and the queued answer is written back.
type Bridge struct {
	Addr string
	Port int
	ln   net.Listener
	wg   sync.WaitGroup
	dir  string
}

// ServeTCP accepts exactly one connection.
func ServeTCP(c *refsmtp.Conn) (*Bridge, error) { return ServeTCPAt(c, "127.0.0.1:0") }

// ServeTCPAt is ServeTCP on a given listen address.
func ServeTCPAt(c *refsmtp.Conn, addr string) (*Bridge, error) { return serveAt(c, "tcp", addr) }

// ServeUnix serves c on a fresh UNIX domain socket (Addr is its path; the directory is removed by Stop).
func ServeUnix(c *refsmtp.Conn) (*Bridge, error) {
	dir, err := os.MkdirTemp("", "vfsock")
	if err != nil {
		return nil, err
	}
	b, err := serveAt(c, "unix", filepath.Join(dir, "s"))
	if err != nil {
		_ = os.RemoveAll(dir)
		return nil, err
	}
	b.dir = dir
	return b, nil
}

func serveAt(c *refsmtp.Conn, network, addr string) (*Bridge, error) {
	ln, err := net.Listen(network, addr)
	if err != nil {
		return nil, err
	}
	b := &Bridge{Addr: ln.Addr().String(), ln: ln}
	if ta, ok := ln.Addr().(*net.TCPAddr); ok {
		b.Port = ta.Port
	}
	b.wg.Add(1)
	go func() {
		defer b.wg.Done()
		sock, err := ln.Accept()
		if err != nil {
			return
		}
		defer sock.Close()
		_ = sock.SetDeadline(time.Now().Add(20 * time.Second)) // safety net: a leaked client connection must not hang the harness
		if out := c.Drain(); len(out) > 0 {
			if _, err := sock.Write(out); err != nil {
				return
			}
		}
		buf := make([]byte, 65536)
		for {
			n, err := sock.Read(buf)
			if n > 0 {
				_, _ = c.Write(buf[:n])
				if out := c.Drain(); len(out) > 0 {
					if _, werr := sock.Write(out); werr != nil {
						return
					}
				}
				if c.ServerClosed() {
					return
				}
			}
			if err != nil {
				_ = c.Close()
				return
			}
		}
	}()
	return b, nil
}

// Stop closes the listener and waits for the serving goroutine.
func (b *Bridge) Stop() {
	_ = b.ln.Close()
	b.wg.Wait()
	if b.dir != "" {
		_ = os.RemoveAll(b.dir)
	}
}
