// Package mapseam owns Go's map-iteration start offset through the runtime overlay seam
// (see tools/genoverlay.py). seam_gen.go is supplied by the build overlay.
package mapseam

import "sync"

var mu sync.Mutex

// With runs f while every map iteration in the process starts at slot k (0..7 for maps with at most
// eight entries). Calls are serialised process-wide; the normal random behaviour is restored afterwards.
func With(k int, f func()) {
	mu.Lock()
	defer mu.Unlock()
	set(k)
	defer set(-1)
	f()
}

// WithSwitch runs f while the first n map iterations start at slot k1 and all later ones at slot k2.
func WithSwitch(k1, n, k2 int, f func()) {
	mu.Lock()
	defer mu.Unlock()
	setSwitch(k1, n, k2)
	defer set(-1)
	f()
}
