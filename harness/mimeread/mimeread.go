// Package mimeread is the harness' own reader for RFC 5322 / 2045 / 2046 / 2047 messages. It is written from
// the RFCs and deliberately shares no code with net/mail, mime or mime/multipart, which go-mail itself uses.
// It is strict: anything it has to tolerate is recorded in Entity.Problems.
package mimeread

import (
	"bytes"
	"encoding/base64"
	"fmt"
	"strings"
	"unicode/utf8"
)

// Field is one header field.
type Field struct {
	Name  string   // as written
	Value string   // unfolded (CRLF before WSP removed), leading blank after the colon stripped
	Lines []string // physical lines without CRLF
}

// Entity is a message or body part.
type Entity struct {
	Fields    []Field
	Raw       []byte // the complete entity as it appeared (header, separator, body)
	HeaderRaw []byte
	Body      []byte // raw body (still transfer-encoded)
	HasBody   bool   // a header/body separator was present
	MediaType string // lower-case "type/subtype" ("text/plain" when absent)
	Params    map[string]string
	CTE       string // lower-case transfer encoding ("7bit" when absent)
	Children  []*Entity
	Preamble  []byte
	Epilogue  []byte
	Problems  []string
	Closed    bool // multipart: the close-delimiter was found
}

func (e *Entity) problem(format string, a ...interface{}) {
	e.Problems = append(e.Problems, fmt.Sprintf(format, a...))
}

// AllProblems collects the problems of the entity and all descendants.
func (e *Entity) AllProblems() []string {
	out := append([]string{}, e.Problems...)
	for i, c := range e.Children {
		for _, p := range c.AllProblems() {
			out = append(out, fmt.Sprintf("part %d: %s", i+1, p))
		}
	}
	return out
}

// Get returns the values of all fields with the given name (case-insensitive).
func (e *Entity) Get(name string) []string {
	var out []string
	for _, f := range e.Fields {
		if strings.EqualFold(f.Name, name) {
			out = append(out, f.Value)
		}
	}
	return out
}

// First returns the first value of the field, or "".
func (e *Entity) First(name string) string {
	if v := e.Get(name); len(v) > 0 {
		return v[0]
	}
	return ""
}

// Leaves returns the non-multipart entities in document order.
func (e *Entity) Leaves() []*Entity {
	if len(e.Children) == 0 && !strings.HasPrefix(e.MediaType, "multipart/") {
		return []*Entity{e}
	}
	var out []*Entity
	for _, c := range e.Children {
		out = append(out, c.Leaves()...)
	}
	return out
}

// Shape renders the nesting, e.g. "mixed(related(alternative(text/plain,text/html),image/png),application/octet-stream)".
func (e *Entity) Shape() string {
	if !strings.HasPrefix(e.MediaType, "multipart/") {
		return e.MediaType
	}
	var cs []string
	for _, c := range e.Children {
		cs = append(cs, c.Shape())
	}
	return strings.TrimPrefix(e.MediaType, "multipart/") + "(" + strings.Join(cs, ",") + ")"
}

// Parse reads one entity.
func Parse(raw []byte) *Entity {
	e := &Entity{Raw: raw, Params: map[string]string{}}
	// header section: lines up to the first empty line
	pos := 0
	var cur *Field
	for {
		if pos >= len(raw) {
			e.HeaderRaw = raw
			break
		}
		nl := bytes.IndexByte(raw[pos:], '\n')
		var line []byte
		next := len(raw)
		if nl < 0 {
			line = raw[pos:]
			e.problem("header line %q not terminated by CRLF", clip(line))
		} else {
			line = raw[pos : pos+nl]
			next = pos + nl + 1
			if len(line) == 0 || line[len(line)-1] != '\r' {
				e.problem("header line %q ends in bare LF", clip(line))
			} else {
				line = line[:len(line)-1]
			}
		}
		if len(line) == 0 && nl >= 0 {
			e.HeaderRaw = raw[:pos]
			e.Body = raw[next:]
			e.HasBody = true
			break
		}
		if bytes.IndexByte(line, '\r') >= 0 {
			e.problem("bare CR inside header line %q", clip(line))
		}
		if bytes.IndexByte(line, 0) >= 0 {
			e.problem("NUL inside header line %q", clip(line))
		}
		if line[0] == ' ' || line[0] == '\t' {
			if cur == nil {
				e.problem("continuation line %q without a field", clip(line))
			} else {
				cur.Lines = append(cur.Lines, string(line))
				cur.Value += string(line) // unfolding removes only the CRLF
			}
		} else {
			colon := bytes.IndexByte(line, ':')
			if colon <= 0 {
				e.problem("header line %q has no field name / colon", clip(line))
				cur = nil
			} else {
				name := string(line[:colon])
				for i := 0; i < len(name); i++ {
					if name[i] <= 32 || name[i] >= 127 {
						e.problem("illegal character %#x in field name %q", name[i], name)
						break
					}
				}
				val := string(line[colon+1:])
				e.Fields = append(e.Fields, Field{Name: name, Value: val, Lines: []string{string(line)}})
				cur = &e.Fields[len(e.Fields)-1]
			}
		}
		pos = next
	}
	for i := range e.Fields {
		e.Fields[i].Value = strings.TrimLeft(e.Fields[i].Value, " \t")
	}
	// content type
	e.MediaType = "text/plain"
	if cts := e.Get("Content-Type"); len(cts) > 0 {
		if len(cts) > 1 {
			e.problem("%d Content-Type fields", len(cts))
		}
		mt, params, err := ParseParamHeader(cts[0])
		if err != nil {
			e.problem("Content-Type %q: %v", cts[0], err)
		}
		if mt != "" {
			e.MediaType = strings.ToLower(mt)
		}
		e.Params = params
	}
	e.CTE = "7bit"
	if v := e.Get("Content-Transfer-Encoding"); len(v) > 0 {
		if len(v) > 1 {
			e.problem("%d Content-Transfer-Encoding fields", len(v))
		}
		e.CTE = strings.ToLower(strings.TrimSpace(v[0]))
	}
	if strings.HasPrefix(e.MediaType, "multipart/") {
		b := e.Params["boundary"]
		if b == "" {
			e.problem("multipart without boundary parameter")
			return e
		}
		if len(b) > 70 {
			e.problem("boundary longer than 70 characters")
		}
		e.splitMultipart(b)
	}
	return e
}

func clip(b []byte) string {
	if len(b) > 70 {
		return string(b[:70]) + "…"
	}
	return string(b)
}

// splitMultipart cuts the body at delimiter lines of exactly this boundary (RFC 2046 §5.1.1).
func (e *Entity) splitMultipart(boundary string) {
	body := e.Body
	delim := []byte("--" + boundary)
	type cut struct {
		start, end int // delimiter line incl. the preceding CRLF .. end of line incl. CRLF
		closing    bool
	}
	var cuts []cut
	i := 0
	for i <= len(body)-len(delim) {
		atLineStart := i == 0 || (i >= 2 && body[i-2] == '\r' && body[i-1] == '\n')
		if atLineStart && bytes.HasPrefix(body[i:], delim) {
			j := i + len(delim)
			closing := false
			if bytes.HasPrefix(body[j:], []byte("--")) {
				closing = true
				j += 2
			}
			// optional transport padding, then CRLF or end of body
			k := j
			for k < len(body) && (body[k] == ' ' || body[k] == '\t') {
				k++
			}
			ok := false
			eol := k
			if k == len(body) {
				ok = true
			} else if bytes.HasPrefix(body[k:], []byte("\r\n")) {
				ok = true
				eol = k + 2
			}
			if ok {
				st := i
				if i >= 2 {
					st = i - 2
				}
				cuts = append(cuts, cut{st, eol, closing})
				if closing {
					break
				}
				i = eol
				continue
			}
		}
		// advance to the next line start
		nl := bytes.IndexByte(body[i:], '\n')
		if nl < 0 {
			break
		}
		i += nl + 1
	}
	if len(cuts) == 0 {
		e.problem("no delimiter line for boundary %q in multipart body", boundary)
		return
	}
	e.Preamble = body[:cuts[0].start]
	for n := 0; n < len(cuts); n++ {
		if cuts[n].closing {
			e.Closed = true
			e.Epilogue = body[cuts[n].end:]
			break
		}
		end := len(body)
		if n+1 < len(cuts) {
			end = cuts[n+1].start
		} else {
			e.problem("multipart with boundary %q is not closed", boundary)
		}
		if end < cuts[n].end {
			end = cuts[n].end // empty part directly followed by a delimiter
		}
		e.Children = append(e.Children, Parse(body[cuts[n].end:end]))
	}
	if !e.Closed && len(cuts) > 0 && cuts[len(cuts)-1].closing == false {
		// already reported
	}
	if len(bytes.TrimSpace(e.Epilogue)) > 0 {
		e.problem("non-blank epilogue %q after the close-delimiter of boundary %q", clip(e.Epilogue), boundary)
	}
	if len(bytes.TrimSpace(e.Preamble)) > 0 {
		e.problem("non-blank preamble %q", clip(e.Preamble))
	}
}

// ParseParamHeader parses `value; attr=val; attr="quoted"`. Parameter names are lower-cased.
func ParseParamHeader(s string) (string, map[string]string, error) {
	params := map[string]string{}
	i := strings.IndexByte(s, ';')
	val := s
	rest := ""
	if i >= 0 {
		val, rest = s[:i], s[i:]
	}
	val = strings.TrimSpace(val)
	var firstErr error
	for rest != "" {
		if rest[0] != ';' {
			return val, params, fmt.Errorf("garbage %q after parameter", rest)
		}
		rest = strings.TrimLeft(rest[1:], " \t\r\n")
		if rest == "" {
			break // trailing semicolon (go-mail writes one for PGP types); tolerated
		}
		eq := strings.IndexByte(rest, '=')
		if eq <= 0 {
			return val, params, fmt.Errorf("parameter without '=': %q", rest)
		}
		name := strings.ToLower(strings.TrimSpace(rest[:eq]))
		for k := 0; k < len(name); k++ {
			if name[k] <= 32 || name[k] >= 127 || strings.IndexByte(`()<>@,;:\"/[]?=`, name[k]) >= 0 {
				return val, params, fmt.Errorf("bad parameter name %q", name)
			}
		}
		rest = rest[eq+1:]
		var v string
		if strings.HasPrefix(rest, `"`) {
			var b strings.Builder
			k := 1
			closed := false
			for k < len(rest) {
				c := rest[k]
				if c == '\\' && k+1 < len(rest) {
					b.WriteByte(rest[k+1])
					k += 2
					continue
				}
				if c == '"' {
					closed = true
					k++
					break
				}
				b.WriteByte(c)
				k++
			}
			if !closed {
				return val, params, fmt.Errorf("unterminated quoted-string in parameter %q", name)
			}
			v = b.String()
			rest = strings.TrimLeft(rest[k:], " \t\r\n")
		} else {
			k := 0
			for k < len(rest) && rest[k] != ';' {
				c := rest[k]
				if c <= 32 || c >= 127 || strings.IndexByte(`()<>@,:\"/[]?=`, c) >= 0 {
					if firstErr == nil && c != ' ' && c != '\t' {
						firstErr = fmt.Errorf("character %q needs quoting in value of parameter %q", c, name)
					}
				}
				k++
			}
			v = strings.TrimSpace(rest[:k])
			rest = rest[k:]
		}
		if _, dup := params[name]; dup && firstErr == nil {
			firstErr = fmt.Errorf("duplicate parameter %q", name)
		}
		params[name] = v
	}
	return val, params, firstErr
}

// DecodeBody decodes the entity's body according to its Content-Transfer-Encoding.
func (e *Entity) DecodeBody() ([]byte, error) {
	switch e.CTE {
	case "7bit", "8bit", "binary", "":
		return e.Body, nil
	case "base64":
		return DecodeBase64(e.Body)
	case "quoted-printable":
		return DecodeQP(e.Body)
	}
	return nil, fmt.Errorf("unknown Content-Transfer-Encoding %q", e.CTE)
}

// DecodeBase64 decodes a base64 body: CRLF between lines is ignored, anything else must be alphabet or padding.
func DecodeBase64(b []byte) ([]byte, error) {
	var clean []byte
	for _, c := range b {
		if c == '\r' || c == '\n' {
			continue
		}
		clean = append(clean, c)
	}
	return base64.StdEncoding.DecodeString(string(clean))
}

func unhex(c byte) (byte, bool) {
	switch {
	case c >= '0' && c <= '9':
		return c - '0', true
	case c >= 'A' && c <= 'F':
		return c - 'A' + 10, true
	case c >= 'a' && c <= 'f':
		return c - 'a' + 10, true
	}
	return 0, false
}

// DecodeQP decodes quoted-printable (RFC 2045 §6.7): soft line breaks removed, trailing whitespace of a line
// is transport padding and removed, hard line breaks are CRLF.
func DecodeQP(b []byte) ([]byte, error) {
	var out []byte
	lines := bytes.Split(b, []byte("\r\n"))
	for li, ln := range lines {
		last := li == len(lines)-1
		soft := false
		// strip transport padding
		t := bytes.TrimRight(ln, " \t")
		if len(t) > 0 && t[len(t)-1] == '=' {
			soft = true
			t = t[:len(t)-1]
		} else {
			t = bytes.TrimRight(ln, " \t")
		}
		for i := 0; i < len(t); i++ {
			c := t[i]
			if c == '=' {
				if i+2 >= len(t) {
					return nil, fmt.Errorf("truncated escape in QP line %d", li+1)
				}
				h, ok1 := unhex(t[i+1])
				l, ok2 := unhex(t[i+2])
				if !ok1 || !ok2 {
					return nil, fmt.Errorf("bad escape %q in QP line %d", t[i:i+3], li+1)
				}
				out = append(out, h<<4|l)
				i += 2
				continue
			}
			if c == '\r' || c == '\n' {
				return nil, fmt.Errorf("bare CR/LF in QP line %d", li+1)
			}
			out = append(out, c)
		}
		if !soft && !last {
			out = append(out, '\r', '\n')
		}
	}
	return out, nil
}

// DecodeWords decodes RFC 2047 encoded-words in unstructured text; white space between adjacent encoded-words
// is dropped. Unknown charsets are an error.
func DecodeWords(s string) (string, error) {
	var out strings.Builder
	i := 0
	lastWasEW := false
	pendingWS := ""
	for i < len(s) {
		if s[i] == ' ' || s[i] == '\t' || s[i] == '\r' || s[i] == '\n' {
			j := i
			for j < len(s) && (s[j] == ' ' || s[j] == '\t' || s[j] == '\r' || s[j] == '\n') {
				j++
			}
			pendingWS = s[i:j]
			i = j
			continue
		}
		// token up to next whitespace
		j := i
		for j < len(s) && !(s[j] == ' ' || s[j] == '\t' || s[j] == '\r' || s[j] == '\n') {
			j++
		}
		tok := s[i:j]
		dec, isEW, err := decodeWord(tok)
		if err != nil {
			return "", err
		}
		if isEW {
			if !lastWasEW {
				out.WriteString(pendingWS)
			}
			out.WriteString(dec)
		} else {
			out.WriteString(pendingWS)
			out.WriteString(tok)
		}
		pendingWS = ""
		lastWasEW = isEW
		i = j
	}
	out.WriteString(pendingWS)
	return out.String(), nil
}

func decodeWord(tok string) (string, bool, error) {
	if !strings.HasPrefix(tok, "=?") || !strings.HasSuffix(tok, "?=") || len(tok) < 8 {
		return "", false, nil
	}
	f := strings.Split(tok[2:len(tok)-2], "?")
	if len(f) != 3 {
		return "", false, nil
	}
	charset, enc, text := strings.ToLower(f[0]), strings.ToUpper(f[1]), f[2]
	if len(tok) > 75 {
		// RFC 2047 §2: an encoded-word may not be more than 75 characters long — reported by callers that care
	}
	var raw []byte
	switch enc {
	case "B":
		b, err := base64.StdEncoding.DecodeString(text)
		if err != nil {
			return "", true, fmt.Errorf("encoded-word %q: %v", tok, err)
		}
		raw = b
	case "Q":
		for i := 0; i < len(text); i++ {
			c := text[i]
			switch {
			case c == '_':
				raw = append(raw, ' ')
			case c == '=':
				if i+2 >= len(text) {
					return "", true, fmt.Errorf("encoded-word %q: truncated escape", tok)
				}
				h, ok1 := unhex(text[i+1])
				l, ok2 := unhex(text[i+2])
				if !ok1 || !ok2 {
					return "", true, fmt.Errorf("encoded-word %q: bad escape", tok)
				}
				raw = append(raw, h<<4|l)
				i += 2
			default:
				raw = append(raw, c)
			}
		}
	default:
		return "", false, nil
	}
	switch charset {
	case "utf-8":
		return string(raw), true, nil
	case "us-ascii":
		for _, c := range raw {
			if c >= 0x80 {
				return "", true, fmt.Errorf("encoded-word %q: labelled US-ASCII but carries 8-bit data", tok)
			}
		}
		return string(raw), true, nil
	case "iso-8859-1":
		var b strings.Builder
		for _, c := range raw {
			b.WriteRune(rune(c))
		}
		return b.String(), true, nil
	}
	if utf8.Valid(raw) {
		return string(raw), true, nil
	}
	return "", true, fmt.Errorf("encoded-word %q: unsupported charset", tok)
}
