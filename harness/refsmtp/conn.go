package refsmtp

import (
	"crypto/tls"
	"errors"
	"fmt"
	"io"
	"net"
	"os"
	"sync"
	"time"
)

// TLSMode selects how the server side behaves once STARTTLS was answered 220 (or from the first byte
// for implicit TLS).
type TLSMode int

const (
	TLSHandshake TLSMode = iota // run a real crypto/tls server handshake with Conn.TLSConfig
	TLSStall                    // swallow the ClientHello and stay silent
	TLSGarbage                  // answer the ClientHello with non-TLS bytes, then close
	TLSDrop                     // close on the ClientHello
)

// DeadlineRec is one Set*Deadline call.
type DeadlineRec struct {
	At    time.Time // wall clock when it was set
	Value time.Time // zero = cleared
	Kind  string    // "rw", "r", "w"
}

// BlockEvent is a client Read/Write that found the peer silent.
type BlockEvent struct {
	Op       string    // "read" / "write"
	At       time.Time // virtual time of the event
	Deadline time.Time // virtual scale; zero = none armed: the call would block forever
	After    string    // position label of the last exchange
}

type timeoutErr struct{ op string }

func (e timeoutErr) Error() string   { return e.op + " fakeconn: i/o timeout" }
func (e timeoutErr) Timeout() bool   { return true }
func (e timeoutErr) Temporary() bool { return true }
func (e timeoutErr) Unwrap() error   { return os.ErrDeadlineExceeded }

type addr string

func (a addr) Network() string { return "tcp" }
func (a addr) String() string  { return string(a) }

// Conn is the client's end of a synchronous in-memory connection to a Session. A Write is processed by
// the server before it returns; a Read never waits: with nothing queued it is a *block event*, resolved
// logically (timeout error if a deadline is armed, EOF otherwise).
type Conn struct {
	S *Session

	TLSMode     TLSMode
	TLSConfig   *tls.Config // server side
	ImplicitTLS bool        // TLS from the first byte (the greeting is sent inside)
	// Hook, when set, is called before every Read and Write (engine E2 scheduling point).
	Hook func(op string)
	// WriteFailAt >= 0: the transport fails once that many bytes were accepted in total (partial write + error).
	WriteFailAt int
	// WriteStallAt >= 0: the peer stops reading after that many bytes (write-side stall).
	WriteStallAt int
	// FailInData, when set, is asked before every write that arrives during a DATA phase: txn is the transaction,
	// have the content bytes received so far, n the size of this write. It returns how many bytes of this write the
	// transport still accepts before failing, or -1 for no failure.
	FailInData func(txn, have, n int) int
	// BreakWrites makes every further client write fail with a connection reset (nothing is delivered).
	BreakWrites bool
	// Skew is the offset of the connection's VIRTUAL clock from the wall clock. A check may advance it (idle time);
	// every block event that is resolved against an armed deadline advances it to that deadline (the time the
	// client would really have waited). Deadlines are kept on the virtual scale: a deadline computed by the client
	// as time.Now()+d AFTER a wait therefore lies d after the END of that wait.
	Skew time.Duration
	// InjectAfterStartTLS is appended in clear right after the 220 reply to STARTTLS (plaintext injection).
	InjectAfterStartTLS string

	mu           sync.Mutex
	rq           []byte
	started      bool
	Closes       int
	clientClosed bool
	Deadlines    []DeadlineRec
	rdl, wdl     time.Time
	// rExp/wExp: a block event was resolved against the armed deadline, i.e. virtual time has reached it;
	// as on a real socket every later read/write fails with a timeout until a new deadline is set
	rExp, wExp bool
	Blocks     []BlockEvent
	Written    int
	ReadCalls  int
	WriteCalls int
	tlsSide    *tlsSide
	ServerTLS  *tls.ConnectionState
	TLSErr     error
	FirstClear []byte // first bytes the client wrote in clear (for implicit TLS checks)
	// ClientBytes is everything the client wrote, in order; TLSStartAt is the offset at which the server side
	// switched to TLS (-1 = never): bytes before it are cleartext, chunks after it must be TLS records.
	ClientBytes []byte
	TLSStartAt  int
	// DeadlineFailAfter >= 0: the transport does not (or no longer) support deadlines — after that many successful
	// Set*Deadline calls every further one returns an error (like a net.Conn over a channel without deadline support)
	DeadlineFailAfter int
	// PostTLSPlain collects chunks written after the switch to TLS that do not start like a TLS record.
	PostTLSPlain [][]byte
}

// NewConn returns a connection on which the server has already queued its greeting.
func NewConn(s *Session) *Conn {
	c := &Conn{S: s, WriteFailAt: -1, WriteStallAt: -1, TLSStartAt: -1, DeadlineFailAfter: -1}
	return c
}

func (c *Conn) start() {
	if c.started {
		return
	}
	c.started = true
	if c.ImplicitTLS {
		c.startTLS()
		return
	}
	c.rq = append(c.rq, c.S.Greeting()...)
}

func (c *Conn) now() time.Time { return time.Now().Add(c.Skew) }

// VNow is the connection's virtual time (wall clock plus everything the client has waited for so far).
func (c *Conn) VNow() time.Time { c.mu.Lock(); defer c.mu.Unlock(); return c.now() }

func (c *Conn) lastPos() string {
	if n := len(c.S.Transcript); n > 0 {
		return c.S.Transcript[n-1].Pos
	}
	return "connect"
}

func (c *Conn) Read(p []byte) (int, error) {
	if c.Hook != nil {
		c.Hook("read")
	}
	c.mu.Lock()
	defer c.mu.Unlock()
	c.start()
	c.ReadCalls++
	if c.clientClosed {
		return 0, net.ErrClosed
	}
	if c.rExp || (!c.rdl.IsZero() && c.now().After(c.rdl)) {
		return 0, timeoutErr{"read"}
	}
	if len(c.rq) == 0 && len(c.S.LateOut) > 0 {
		late := c.S.LateOut
		c.S.LateOut = nil
		if !c.rdl.IsZero() {
			// the reply arrives after the deadline: this read times out, the bytes are there for whoever reads next
			c.Blocks = append(c.Blocks, BlockEvent{Op: "read", At: c.now(), Deadline: c.rdl, After: c.lastPos()})
			if d := c.rdl.Sub(c.now()); d > 0 {
				c.Skew += d
			}
			c.rExp = true
			if !c.wdl.IsZero() && !c.wdl.After(c.rdl) {
				c.wExp = true
			}
			c.rq = append(c.rq, late...)
			return 0, timeoutErr{"read"}
		}
		c.rq = append(c.rq, late...) // nobody set a deadline: the client simply gets the reply when it comes
	}
	if len(c.rq) > 0 {
		n := copy(p, c.rq)
		c.rq = c.rq[n:]
		return n, nil
	}
	if c.S.Closed {
		return 0, io.EOF
	}
	// the peer is silent: block event
	c.Blocks = append(c.Blocks, BlockEvent{Op: "read", At: c.now(), Deadline: c.rdl, After: c.lastPos()})
	if !c.rdl.IsZero() {
		if d := c.rdl.Sub(c.now()); d > 0 {
			c.Skew += d
		}
		c.rExp = true
		if !c.wdl.IsZero() && !c.wdl.After(c.rdl) {
			c.wExp = true
		}
		return 0, timeoutErr{"read"}
	}
	return 0, io.EOF
}

func (c *Conn) Write(p []byte) (int, error) {
	if c.Hook != nil {
		c.Hook("write")
	}
	c.mu.Lock()
	defer c.mu.Unlock()
	c.start()
	c.WriteCalls++
	if c.clientClosed {
		return 0, net.ErrClosed
	}
	if c.wExp || (!c.wdl.IsZero() && c.now().After(c.wdl)) {
		return 0, timeoutErr{"write"}
	}
	if len(c.rq) > 0 && c.tlsSide == nil && !c.S.AwaitingTLS() {
		c.S.illegal("write-before-reading-reply", c.lastPos(), "client wrote %q while %d reply bytes were still unread", clip(string(p)), len(c.rq))
	}
	if c.BreakWrites {
		c.S.Closed = true
		return 0, errors.New("write fakeconn: connection reset by peer")
	}
	var ferr error
	if c.WriteStallAt >= 0 && c.Written+len(p) > c.WriteStallAt {
		c.Blocks = append(c.Blocks, BlockEvent{Op: "write", At: c.now(), Deadline: c.wdl, After: c.lastPos()})
		if d := c.wdl.Sub(c.now()); !c.wdl.IsZero() && d > 0 {
			c.Skew += d
		}
		k := c.WriteStallAt - c.Written
		if k < 0 {
			k = 0
		}
		c.feed(p[:k])
		c.Written += k
		c.S.Stalled = true
		if !c.wdl.IsZero() {
			c.wExp = true
			if !c.rdl.IsZero() && !c.rdl.After(c.wdl) {
				c.rExp = true
			}
			return k, timeoutErr{"write"}
		}
		return k, io.ErrClosedPipe
	}
	if c.FailInData != nil && c.tlsSide == nil {
		if in, have := c.S.InData(); in {
			if k := c.FailInData(c.S.CurTxn(), have, len(p)); k >= 0 && k <= len(p) {
				p = p[:k]
				ferr = errors.New("write fakeconn: connection reset by peer")
			}
		}
	}
	if ferr == nil && c.WriteFailAt >= 0 && c.Written+len(p) > c.WriteFailAt {
		k := c.WriteFailAt - c.Written
		if k < 0 {
			k = 0
		}
		p = p[:k]
		ferr = errors.New("write fakeconn: connection reset by peer")
	}
	c.Written += len(p)
	c.feed(p)
	if ferr != nil {
		c.S.Closed = true
		return len(p), ferr
	}
	return len(p), nil
}

func (c *Conn) feed(p []byte) {
	if len(p) == 0 {
		return
	}
	if c.S.AwaitingTLS() && c.tlsSide == nil && p[0] == 0x16 && c.TLSStartAt < 0 {
		c.TLSStartAt = len(c.ClientBytes)
	}
	if c.ImplicitTLS && c.TLSStartAt < 0 {
		c.TLSStartAt = 0
	}
	c.ClientBytes = append(c.ClientBytes, p...)
	if c.TLSStartAt >= 0 && len(c.ClientBytes)-len(p) >= c.TLSStartAt {
		if t := p[0]; t < 0x14 || t > 0x17 {
			c.PostTLSPlain = append(c.PostTLSPlain, append([]byte{}, p...))
		}
	}
	if c.tlsSide != nil {
		c.rq = append(c.rq, c.tlsSide.exchange(p)...)
		return
	}
	if len(c.FirstClear) < 64 {
		c.FirstClear = append(c.FirstClear, p...)
	}
	if c.S.AwaitingTLS() {
		// first bytes after 220: must be a TLS handshake record
		if len(p) > 0 && p[0] == 0x16 {
			c.startTLS()
			c.rq = append(c.rq, c.tlsSide.exchange(p)...)
			return
		}
	}
	out := c.S.Feed(p)
	c.rq = append(c.rq, out...)
	if c.S.AwaitingTLS() && c.InjectAfterStartTLS != "" {
		c.rq = append(c.rq, c.InjectAfterStartTLS...)
	}
}

func (c *Conn) startTLS() {
	t := &tlsSide{c: c, in: make(chan []byte), idle: make(chan struct{}), done: make(chan struct{})}
	c.tlsSide = t
	go t.serve()
	t.waitQuiet()
}

func (c *Conn) Close() error {
	if c.Hook != nil {
		c.Hook("close")
	}
	c.mu.Lock()
	defer c.mu.Unlock()
	c.Closes++
	if c.clientClosed {
		return net.ErrClosed
	}
	c.clientClosed = true
	if c.tlsSide != nil {
		c.tlsSide.stop()
	}
	return nil
}

// ClientClosed reports whether the client called Close.
func (c *Conn) ClientClosed() bool { c.mu.Lock(); defer c.mu.Unlock(); return c.clientClosed }

func (c *Conn) LocalAddr() net.Addr  { return addr("192.0.2.10:40000") }
func (c *Conn) RemoteAddr() net.Addr { return addr("192.0.2.1:25") }

func (c *Conn) setdl(kind string, t time.Time) error {
	c.mu.Lock()
	defer c.mu.Unlock()
	if c.DeadlineFailAfter >= 0 && len(c.Deadlines) >= c.DeadlineFailAfter {
		return errors.New("fakeconn: deadlines are not supported by this transport")
	}
	c.Deadlines = append(c.Deadlines, DeadlineRec{At: time.Now(), Value: t, Kind: kind})
	vt := t
	if !t.IsZero() {
		vt = t.Add(c.Skew) // the client computed t from the wall clock; on the virtual scale it lies Skew later
	}
	if kind != "w" {
		c.rdl, c.rExp = vt, false
	}
	if kind != "r" {
		c.wdl, c.wExp = vt, false
	}
	return nil
}
func (c *Conn) SetDeadline(t time.Time) error      { return c.setdl("rw", t) }
func (c *Conn) SetReadDeadline(t time.Time) error  { return c.setdl("r", t) }
func (c *Conn) SetWriteDeadline(t time.Time) error { return c.setdl("w", t) }

// tlsSide runs a real crypto/tls server in lock-step with the client: exchange() hands it the client's
// bytes and returns once the server is blocked waiting for more input, with everything it wrote meanwhile.
type tlsSide struct {
	c     *Conn
	in    chan []byte
	idle  chan struct{}
	done  chan struct{}
	buf   []byte
	mu    sync.Mutex
	out   []byte
	ended bool
}

func (t *tlsSide) Read(p []byte) (int, error) {
	for len(t.buf) == 0 {
		t.idle <- struct{}{}
		b, ok := <-t.in
		if !ok {
			return 0, io.EOF
		}
		t.buf = b
	}
	n := copy(p, t.buf)
	t.buf = t.buf[n:]
	return n, nil
}

func (t *tlsSide) Write(p []byte) (int, error) {
	t.mu.Lock()
	t.out = append(t.out, p...)
	t.mu.Unlock()
	return len(p), nil
}
func (t *tlsSide) Close() error                     { return nil }
func (t *tlsSide) LocalAddr() net.Addr              { return addr("192.0.2.1:25") }
func (t *tlsSide) RemoteAddr() net.Addr             { return addr("192.0.2.10:40000") }
func (t *tlsSide) SetDeadline(time.Time) error      { return nil }
func (t *tlsSide) SetReadDeadline(time.Time) error  { return nil }
func (t *tlsSide) SetWriteDeadline(time.Time) error { return nil }

func (t *tlsSide) serve() {
	defer close(t.done)
	c := t.c
	switch c.TLSMode {
	case TLSStall:
		buf := make([]byte, 4096)
		c.S.Stalled = true
		for {
			if _, err := t.Read(buf); err != nil {
				return
			}
		}
	case TLSGarbage:
		buf := make([]byte, 4096)
		if _, err := t.Read(buf); err != nil {
			return
		}
		_, _ = t.Write([]byte("500 this is not TLS\r\n"))
		c.S.TLSFailed()
		return
	case TLSDrop:
		buf := make([]byte, 4096)
		_, _ = t.Read(buf)
		c.S.TLSFailed()
		return
	}
	cfg := c.TLSConfig
	if cfg == nil {
		c.TLSErr = fmt.Errorf("no server TLS config")
		c.S.TLSFailed()
		return
	}
	tc := tls.Server(t, cfg)
	if err := tc.Handshake(); err != nil {
		c.TLSErr = err
		c.S.TLSFailed()
		return
	}
	st := tc.ConnectionState()
	c.ServerTLS = &st
	c.S.TLSStarted()
	if c.ImplicitTLS {
		if _, err := tc.Write(c.S.Greeting()); err != nil {
			return
		}
	}
	buf := make([]byte, 1<<16)
	for {
		n, err := tc.Read(buf)
		if n > 0 {
			out := c.S.Feed(buf[:n])
			if len(out) > 0 {
				if _, werr := tc.Write(out); werr != nil {
					return
				}
			}
			if c.S.Closed {
				if c.S.QuitSeen {
					_ = tc.Close() // orderly: close_notify
				}
				return
			}
		}
		if err != nil {
			return
		}
	}
}

// waitQuiet blocks until the server goroutine waits for input or has ended.
func (t *tlsSide) waitQuiet() {
	select {
	case <-t.idle:
	case <-t.done:
		t.ended = true
	}
}

func (t *tlsSide) take() []byte {
	t.mu.Lock()
	o := t.out
	t.out = nil
	t.mu.Unlock()
	return o
}

func (t *tlsSide) exchange(p []byte) []byte {
	if t.ended {
		return nil
	}
	cp := append([]byte{}, p...)
	select {
	case t.in <- cp:
		t.waitQuiet()
	case <-t.done:
		t.ended = true
	}
	return t.take()
}

func (t *tlsSide) stop() {
	if !t.ended {
		close(t.in)
		<-t.done
		t.ended = true
	}
}

// Drain returns and removes everything the server has queued for the client, without counting as a client
// read (used by the TCP bridge).
func (c *Conn) Drain() []byte {
	c.mu.Lock()
	defer c.mu.Unlock()
	c.start()
	b := c.rq
	c.rq = nil
	return b
}

// ServerClosed reports whether the server side has closed.
func (c *Conn) ServerClosed() bool {
	c.mu.Lock()
	defer c.mu.Unlock()
	return c.S.Closed
}
