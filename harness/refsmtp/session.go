package refsmtp

import (
	"bytes"
	"encoding/base64"
	"fmt"
	"strconv"
	"strings"
)

// ActionKind is what the server does in answer to a command.
type ActionKind int

const (
	ActReply         ActionKind = iota // send Code + Text lines
	ActDrop                            // close the connection without replying
	ActStall                           // keep the connection open and say nothing
	ActRaw                             // send Raw verbatim (garbage, injected plaintext, …)
	ActReplyThenDrop                   // send the reply, then close
)

// Action is the server's answer to one event.
type Action struct {
	Kind ActionKind
	Code int
	Text []string // one entry per reply line; nil = default text
	Raw  string
	// Late (ActReply): the server processes the command and sends this reply, but only after the client has stopped
	// waiting for it: the client's read runs into its deadline first, the reply is in the socket afterwards
	Late bool
	// NoTag: the reply is sent exactly as given, without the harness' per-reply tag at the end of its first line
	NoTag bool
}

// Event is one thing the client did that calls for an answer.
type Event struct {
	Verb    string // GREETING EHLO HELO STARTTLS AUTH AUTHRESP NOOP MAIL RCPT DATA EOD RSET QUIT VRFY UNKNOWN
	Line    string // command line without CRLF ("" for GREETING/EOD)
	Arg     string
	Seq     int // index of the event in the session
	VerbSeq int // n-th event with this verb
	Txn     int // number of MAIL commands seen before this event (transaction index, 1-based once MAIL arrived)
	Rcpt    int // n-th RCPT within the transaction (1-based)
	Tag     string
}

// Pos renders the position label used for choice points, e.g. "MAIL#2", "RCPT#1.3", "EOD#1".
func (e *Event) Pos() string {
	switch e.Verb {
	case "RCPT":
		return fmt.Sprintf("RCPT#%d.%d", e.Txn, e.Rcpt)
	case "MAIL", "DATA", "EOD":
		return fmt.Sprintf("%s#%d", e.Verb, e.Txn)
	}
	return fmt.Sprintf("%s#%d", e.Verb, e.VerbSeq)
}

// Commit is a message the server accepted at end-of-data.
type Commit struct {
	From    Mailbox
	FromRaw string
	Rcpts   []Mailbox
	RcptRaw []string
	Params  [][2]string
	Data    []byte // un-dot-stuffed content, including the final CRLF of the last line
	Txn     int
	Code    int
}

// Exchange is one entry of the transcript.
type Exchange struct {
	Verb  string
	Pos   string
	Line  string
	Tag   string
	Reply string // what the server sent ("<drop>", "<stall>")
	Late  bool   // the reply was sent after the client's read had timed out
	Code  int
	Txn   int
}

// AuthExchange is a server-side SASL mechanism run by the session.
type AuthExchange interface {
	// Step consumes one client response (decoded) and returns the next challenge (to be base64-encoded), or
	// done with the verdict.
	Step(resp []byte) (challenge []byte, done bool, ok bool)
}

// Session is the reference server for one connection.
type Session struct {
	Host     string
	Caps     []string // EHLO keywords advertised in clear, e.g. "8BITMIME", "AUTH PLAIN LOGIN"
	CapsTLS  []string // advertised after STARTTLS (nil = same as Caps minus STARTTLS)
	Script   func(s *Session, ev *Event, def Action) Action
	NewAuth  func(s *Session, mech string) AuthExchange // nil: AUTH unsupported → 504
	Pipeline bool                                       // PIPELINING offered (never, for go-mail)

	// observable results
	Transcript []Exchange
	Commits    []Commit
	Illegal    []Illegal // monitor findings
	Notes      []string
	ClearBytes []byte // everything the client wrote before TLS (or all, when no TLS)
	InTLS      bool
	Closed     bool // server closed its side
	Stalled    bool
	LateOut    []byte // reply bytes that reach the client only after its current read has timed out
	QuitSeen   bool
	Authed     bool
	AuthTries  int

	// state
	greeted     bool
	helloDone   bool
	ext         map[string]string
	txn         int // 0 idle, 1 mail accepted, 2 in data
	txnIdx      int
	rcptOK      int
	rcptBad     int
	rcptN       int
	from        Mailbox
	fromRaw     string
	params      [][2]string
	rcpts       []Mailbox
	rcptRaw     []string
	inbuf       []byte
	data        []byte
	seq         int
	verbSeq     map[string]int
	auth        AuthExchange
	authMech    string
	awaitTLS    bool // 220 sent for STARTTLS; next bytes must be a TLS ClientHello
	tagN        int
	utf8Txn     bool
	pendRcpt    Mailbox
	pendRcptRaw string
}

// Illegal is a protocol violation by the client, with a stable key.
type Illegal struct {
	Key  string
	What string
	Pos  string
}

func (s *Session) illegal(key, pos, format string, a ...interface{}) {
	s.Illegal = append(s.Illegal, Illegal{Key: key, What: fmt.Sprintf(format, a...), Pos: pos})
}

// HasExt reports whether the latest EHLO reply advertised the keyword.
func (s *Session) HasExt(k string) bool { _, ok := s.ext[k]; return ok }

// TxnOpen reports whether a mail transaction is open on the server.
func (s *Session) TxnOpen() bool { return s.txn != 0 }

// StateFP is a compact fingerprint of the protocol state (for state/transition counting only).
func (s *Session) StateFP() string {
	return fmt.Sprintf("g%t h%t t%d ok%d bad%d tls%t au%t cl%t q%t e%d", s.greeted, s.helloDone, s.txn, s.rcptOK, s.rcptBad,
		s.InTLS, s.Authed, s.Closed, s.QuitSeen, len(s.ext))
}

func (s *Session) nextTag() string { s.tagN++; return "r" + strconv.Itoa(s.tagN) + "z" }

func (s *Session) esc() bool { return s.HasExt("ENHANCEDSTATUSCODES") }

// format renders a reply; the tag is appended to the first line.
func formatReply(code int, lines []string, tag string) string {
	if len(lines) == 0 {
		lines = []string{""}
	}
	var b strings.Builder
	for i, ln := range lines {
		sep := "-"
		if i == len(lines)-1 {
			sep = " "
		}
		if i == 0 && tag != "" {
			if ln != "" {
				ln += " "
			}
			ln += tag
		}
		b.WriteString(strconv.Itoa(code))
		b.WriteString(sep)
		b.WriteString(ln)
		b.WriteString("\r\n")
	}
	return b.String()
}

// DefaultText is the reply text for a code at a verb, with an enhanced status code when advertised.
func (s *Session) DefaultText(verb string, code int) []string {
	esc := ""
	if s.esc() {
		switch {
		case code >= 200 && code < 300:
			esc = "2.0.0 "
			if verb == "MAIL" {
				esc = "2.1.0 "
			} else if verb == "RCPT" {
				esc = "2.1.5 "
			} else if verb == "AUTH" || verb == "AUTHRESP" {
				esc = "2.7.0 "
			}
		case code >= 400 && code < 500:
			esc = "4.3.0 "
		case code >= 500:
			esc = "5.5.0 "
		}
		if code == 354 || code == 334 || code == 220 || code == 221 {
			esc = ""
		}
	}
	switch {
	case code == 354:
		return []string{"End data with <CR><LF>.<CR><LF>"}
	case code == 220:
		return []string{s.Host + " ESMTP ready"}
	case code == 221:
		return []string{esc + "Bye"}
	case code >= 200 && code < 300:
		return []string{esc + "OK"}
	case code >= 400 && code < 500:
		return []string{esc + "temporary failure"}
	default:
		return []string{esc + "rejected"}
	}
}

// Greeting produces the server's first bytes.
func (s *Session) Greeting() []byte {
	if s.verbSeq == nil {
		s.verbSeq = map[string]int{}
	}
	ev := s.newEvent("GREETING", "", "")
	return s.answer(ev, Action{Kind: ActReply, Code: 220})
}

func (s *Session) newEvent(verb, line, arg string) *Event {
	if s.verbSeq == nil {
		s.verbSeq = map[string]int{}
	}
	s.seq++
	s.verbSeq[verb]++
	return &Event{Verb: verb, Line: line, Arg: arg, Seq: s.seq, VerbSeq: s.verbSeq[verb], Txn: s.txnIdx, Rcpt: s.rcptN}
}

// answer asks the script, sends the reply and applies its effect on the state: the state follows what the
// server *said*.
func (s *Session) answer(ev *Event, def Action) []byte {
	ev.Tag = s.nextTag()
	act := def
	if s.Script != nil {
		act = s.Script(s, ev, def)
	}
	ex := Exchange{Verb: ev.Verb, Pos: ev.Pos(), Line: ev.Line, Tag: ev.Tag, Txn: ev.Txn}
	var out string
	switch act.Kind {
	case ActDrop:
		s.Closed = true
		ex.Reply = "<drop>"
	case ActStall:
		s.Stalled = true
		ex.Reply = "<stall>"
	case ActRaw:
		out = act.Raw
		ex.Reply = act.Raw
	default:
		text := act.Text
		if text == nil {
			if ev.Verb == "EHLO" && act.Code/100 == 2 {
				text = s.ehloLines()
			} else {
				text = s.DefaultText(ev.Verb, act.Code)
			}
		}
		tag := ev.Tag
		if ev.Verb == "AUTH" || ev.Verb == "AUTHRESP" {
			if act.Code == 334 {
				tag = "" // challenges are base64, no room for a tag
			}
		}
		if act.NoTag {
			tag = ""
		}
		out = formatReply(act.Code, text, tag)
		ex.Reply = out
		ex.Code = act.Code
		if act.Kind == ActReplyThenDrop {
			s.Closed = true
		}
	}
	if act.Late && act.Kind == ActReply {
		ex.Late = true
		s.LateOut = append(s.LateOut, out...)
		out = ""
	}
	s.Transcript = append(s.Transcript, ex)
	if act.Kind == ActReply || act.Kind == ActReplyThenDrop {
		s.apply(ev, act)
	} else if act.Kind == ActRaw {
		// a raw reply changes nothing on the server; if it starts with a 3-digit code treat it as that reply
		if len(act.Raw) >= 3 {
			if c, err := strconv.Atoi(act.Raw[:3]); err == nil {
				a2 := act
				a2.Code = c
				s.apply(ev, a2)
			}
		}
	}
	return []byte(out)
}

func (s *Session) ehloLines() []string {
	caps := s.Caps
	if s.InTLS {
		if s.CapsTLS != nil {
			caps = s.CapsTLS
		} else {
			caps = nil
			for _, c := range s.Caps {
				if c != "STARTTLS" {
					caps = append(caps, c)
				}
			}
		}
	}
	lines := []string{s.Host + " greets you"}
	lines = append(lines, caps...)
	return lines
}

func (s *Session) resetTxn() {
	s.txn, s.rcptOK, s.rcptBad, s.rcptN = 0, 0, 0, 0
	s.rcpts, s.rcptRaw, s.params = nil, nil, nil
	s.data = nil
}

func (s *Session) apply(ev *Event, act Action) {
	ok := act.Code >= 200 && act.Code < 300
	switch ev.Verb {
	case "GREETING":
		s.greeted = true
		if !ok {
			// a 4yz/5yz greeting: RFC 5321 3.1 — the server waits for QUIT; nothing else is acceptable
		}
	case "EHLO":
		if ok {
			s.helloDone = true
			s.resetTxn()
			s.ext = map[string]string{}
			lines := act.Text
			if lines == nil {
				lines = s.ehloLines()
			}
			for _, ln := range lines[1:] {
				f := strings.SplitN(ln, " ", 2)
				v := ""
				if len(f) > 1 {
					v = f[1]
				}
				s.ext[strings.ToUpper(f[0])] = v
			}
		}
	case "HELO":
		if ok {
			s.helloDone = true
			s.resetTxn()
			s.ext = map[string]string{}
		}
	case "STARTTLS":
		if act.Code == 220 {
			s.awaitTLS = true
		}
	case "MAIL":
		if ok {
			s.txn = 1
		}
	case "RCPT":
		if ok {
			s.rcptOK++
			s.rcpts = append(s.rcpts, s.pendRcpt)
			s.rcptRaw = append(s.rcptRaw, s.pendRcptRaw)
		} else {
			s.rcptBad++
		}
	case "DATA":
		if act.Code == 354 {
			s.txn = 2
			s.data = nil
		}
	case "EOD":
		if ok {
			s.Commits = append(s.Commits, Commit{From: s.from, FromRaw: s.fromRaw, Rcpts: s.rcpts, RcptRaw: s.rcptRaw,
				Params: s.params, Data: undot(s.data), Txn: ev.Txn, Code: act.Code})
		}
		s.resetTxn()
	case "RSET":
		if ok {
			s.resetTxn()
		}
	case "AUTH", "AUTHRESP":
		if act.Code == 235 {
			s.Authed = true
		}
		if act.Code != 334 {
			s.auth = nil
		} else if s.auth == nil {
			s.auth = junkAuth{}
		}
	case "QUIT":
		s.QuitSeen = true
		if act.Code == 221 {
			s.Closed = true
		}
	}
}

func undot(d []byte) []byte {
	// d holds the raw lines up to and excluding the terminating ".\r\n"
	var out []byte
	for len(d) > 0 {
		i := bytes.Index(d, []byte("\r\n"))
		var ln []byte
		if i < 0 {
			ln, d = d, nil
		} else {
			ln, d = d[:i+2], d[i+2:]
		}
		if len(ln) > 0 && ln[0] == '.' {
			ln = ln[1:]
		}
		out = append(out, ln...)
	}
	return out
}

// Feed consumes bytes written by the client and returns the server's answer bytes.
func (s *Session) Feed(p []byte) []byte {
	if s.verbSeq == nil {
		s.verbSeq = map[string]int{}
	}
	if !s.InTLS {
		s.ClearBytes = append(s.ClearBytes, p...)
	}
	if s.Closed {
		if s.QuitSeen {
			s.illegal("bytes-after-quit", "after-QUIT", "client wrote %q after QUIT was answered 221", clip(string(p)))
		}
		return nil
	}
	if s.Stalled {
		return nil // a silent server swallows everything
	}
	if !s.greeted {
		s.illegal("before-greeting", "GREETING", "client wrote %q before the greeting", clip(string(p)))
	}
	s.inbuf = append(s.inbuf, p...)
	var out []byte
	cmds := 0
	for len(s.inbuf) > 0 && !s.Closed && !s.Stalled {
		if s.txn == 2 {
			// DATA mode: look for the terminator. The content starts at a line start.
			full := append(append([]byte{}, s.data...), s.inbuf...)
			if bytes.HasPrefix(full, []byte(".\r\n")) {
				s.data, s.inbuf = nil, full[3:]
			} else if k := bytes.Index(full, []byte("\r\n.\r\n")); k >= 0 {
				s.data, s.inbuf = full[:k+2], full[k+5:]
			} else {
				s.data, s.inbuf = full, nil
				break
			}
			s.checkData()
			ev := s.newEvent("EOD", "", "")
			out = append(out, s.answer(ev, Action{Kind: ActReply, Code: 250})...)
			cmds++
			continue
		}
		if s.awaitTLS {
			// only a TLS handshake record may follow a 220 to STARTTLS; the Conn switches to TLS before feeding
			s.illegal("cleartext-after-starttls", "STARTTLS", "client wrote cleartext %q after STARTTLS was accepted", clip(string(s.inbuf)))
			s.inbuf = nil
			break
		}
		i := bytes.IndexByte(s.inbuf, '\n')
		if i < 0 {
			break // incomplete line; wait for more
		}
		raw := s.inbuf[:i+1]
		s.inbuf = s.inbuf[i+1:]
		if cmds > 0 && !s.Pipeline {
			s.illegal("pipelining", "", "second command %q sent before the reply to the previous one was read", clip(string(raw)))
		}
		cmds++
		out = append(out, s.command(raw)...)
	}
	return out
}

func clip(s string) string {
	if len(s) > 80 {
		return s[:80] + "…"
	}
	return s
}

func (s *Session) checkData() {
	d := s.data
	for i := 0; i < len(d); i++ {
		if d[i] == '\n' && (i == 0 || d[i-1] != '\r') {
			s.Notes = append(s.Notes, "bare LF in DATA content")
			break
		}
		if d[i] == '\r' && (i+1 >= len(d) || d[i+1] != '\n') {
			s.Notes = append(s.Notes, "bare CR in DATA content")
			break
		}
	}
}

func (s *Session) command(raw []byte) []byte {
	posHint := ""
	if !bytes.HasSuffix(raw, []byte("\r\n")) {
		s.illegal("line-ending", posHint, "command line %q not terminated by CRLF", clip(string(raw)))
	}
	line := strings.TrimRight(string(raw), "\r\n")
	if strings.ContainsAny(line, "\r\n\x00") {
		s.illegal("line-ctl", posHint, "command line %q contains CR, LF or NUL", clip(line))
	}
	if len(raw) > 512 && s.auth == nil && !strings.HasPrefix(strings.ToUpper(line), "AUTH") {
		s.Notes = append(s.Notes, fmt.Sprintf("command line of %d octets exceeds 512", len(raw)))
	}
	// SASL continuation
	if s.auth != nil {
		ev := s.newEvent("AUTHRESP", line, line)
		if line == "*" {
			s.auth = nil
			return s.answer(ev, Action{Kind: ActReply, Code: 501, Text: []string{"authentication aborted"}})
		}
		resp, err := base64.StdEncoding.DecodeString(line)
		if err != nil {
			s.illegal("auth-not-base64", ev.Pos(), "SASL response %q is not base64", clip(line))
			s.auth = nil
			return s.answer(ev, Action{Kind: ActReply, Code: 501, Text: []string{"bad base64"}})
		}
		return s.authStep(ev, resp)
	}
	verb, arg := line, ""
	if i := strings.IndexByte(line, ' '); i >= 0 {
		verb, arg = line[:i], line[i+1:]
	}
	uverb := strings.ToUpper(verb)
	mk := func(v string) *Event { return s.newEvent(v, line, arg) }
	if s.QuitSeen {
		s.illegal("command-after-quit", "after-QUIT", "command %q after QUIT", clip(line))
	}
	if s.greeted && len(s.Transcript) > 0 && s.Transcript[0].Verb == "GREETING" && s.Transcript[0].Code >= 400 && uverb != "QUIT" {
		s.illegal("command-after-rejected-greeting", uverb, "command %q after the greeting refused service (%d)", clip(line), s.Transcript[0].Code)
	}
	switch uverb {
	case "EHLO", "HELO":
		ev := mk(uverb)
		if err := ValidHeloDomain(arg); err != nil {
			s.illegal("helo-syntax", ev.Pos(), "%v", err)
			return s.answer(ev, Action{Kind: ActReply, Code: 501, Text: []string{"syntax error in EHLO/HELO argument"}})
		}
		return s.answer(ev, Action{Kind: ActReply, Code: 250})
	case "STARTTLS":
		ev := mk(uverb)
		if arg != "" || line != verb {
			s.illegal("starttls-syntax", ev.Pos(), "STARTTLS with argument %q", arg)
		}
		if !s.helloDone {
			s.illegal("before-hello", ev.Pos(), "STARTTLS before EHLO")
		} else if !s.HasExt("STARTTLS") {
			s.illegal("not-advertised", ev.Pos(), "STARTTLS sent although the latest EHLO reply did not advertise it")
		}
		if s.InTLS {
			s.illegal("starttls-twice", ev.Pos(), "STARTTLS inside TLS")
		}
		if s.txn != 0 {
			s.illegal("starttls-in-txn", ev.Pos(), "STARTTLS inside a mail transaction")
		}
		return s.answer(ev, Action{Kind: ActReply, Code: 220, Text: []string{"ready to start TLS"}})
	case "AUTH":
		ev := mk(uverb)
		s.AuthTries++
		if !s.helloDone {
			s.illegal("before-hello", ev.Pos(), "AUTH before EHLO")
		} else if !s.HasExt("AUTH") {
			s.illegal("not-advertised", ev.Pos(), "AUTH sent although the latest EHLO reply did not advertise it")
		}
		if s.Authed {
			s.illegal("auth-twice", ev.Pos(), "AUTH after successful authentication")
		}
		if s.txn != 0 {
			s.illegal("auth-in-txn", ev.Pos(), "AUTH inside a mail transaction")
		}
		f := strings.Split(arg, " ")
		if len(f) > 2 || f[0] == "" {
			s.illegal("auth-syntax", ev.Pos(), "AUTH line %q is not 'AUTH mechanism [initial-response]'", clip(line))
			return s.answer(ev, Action{Kind: ActReply, Code: 501, Text: []string{"syntax error"}})
		}
		mech := strings.ToUpper(f[0])
		var x AuthExchange
		if s.NewAuth != nil {
			x = s.NewAuth(s, mech)
		}
		if x == nil {
			return s.answer(ev, Action{Kind: ActReply, Code: 504, Text: []string{"mechanism not supported"}})
		}
		s.auth, s.authMech = x, mech
		if len(f) == 2 {
			var resp []byte
			if f[1] != "=" {
				var err error
				resp, err = base64.StdEncoding.DecodeString(f[1])
				if err != nil {
					s.illegal("auth-not-base64", ev.Pos(), "initial response %q is not base64", clip(f[1]))
					s.auth = nil
					return s.answer(ev, Action{Kind: ActReply, Code: 501, Text: []string{"bad base64"}})
				}
			}
			return s.authStep(ev, resp)
		}
		return s.authStep(ev, nil)
	case "NOOP":
		ev := mk(uverb)
		return s.answer(ev, Action{Kind: ActReply, Code: 250})
	case "RSET":
		ev := mk(uverb)
		if arg != "" || line != verb {
			s.illegal("rset-syntax", ev.Pos(), "RSET with argument")
		}
		return s.answer(ev, Action{Kind: ActReply, Code: 250})
	case "QUIT":
		ev := mk(uverb)
		if arg != "" || line != verb {
			s.illegal("quit-syntax", ev.Pos(), "QUIT with argument")
		}
		return s.answer(ev, Action{Kind: ActReply, Code: 221})
	case "MAIL":
		s.txnIdx++
		s.rcptN = 0
		ev := mk(uverb)
		if !s.helloDone {
			s.illegal("before-hello", ev.Pos(), "MAIL before EHLO/HELO")
		}
		if s.txn != 0 {
			s.illegal("mail-in-open-transaction", ev.Pos(), "MAIL while the transaction opened by %q is still open (no RSET / end-of-data since)", s.fromRaw)
			// RFC 5321 4.1.4 / Postfix: nested MAIL is refused and the open transaction stays as it is
			return s.answer(ev, Action{Kind: ActReply, Code: 503, Text: []string{"5.5.1 nested MAIL command"}})
		}
		if len(arg) < 5 || !strings.EqualFold(arg[:5], "FROM:") {
			s.illegal("mail-syntax", ev.Pos(), "MAIL line %q is not 'MAIL FROM:<path>'", clip(line))
			return s.answer(ev, Action{Kind: ActReply, Code: 501, Text: []string{"syntax error"}})
		}
		mb, rest, err := ParsePath(arg[5:], true)
		if err != nil {
			s.illegal("mail-path-syntax", ev.Pos(), "reverse-path in %q does not parse: %v", clip(line), err)
			return s.answer(ev, Action{Kind: ActReply, Code: 501, Text: []string{"bad reverse-path"}})
		}
		params, err := ParseParams(rest)
		if err != nil {
			s.illegal("mail-param-syntax", ev.Pos(), "MAIL parameters in %q: %v", clip(line), err)
			return s.answer(ev, Action{Kind: ActReply, Code: 501, Text: []string{"bad parameters"}})
		}
		s.utf8Txn = false
		for _, p := range params {
			switch p[0] {
			case "BODY":
				if !s.HasExt("8BITMIME") {
					s.illegal("param-not-advertised", ev.Pos(), "BODY=%s sent although 8BITMIME is not in the latest EHLO reply", p[1])
				}
				if u := strings.ToUpper(p[1]); u != "8BITMIME" && u != "7BIT" {
					s.illegal("mail-param-value", ev.Pos(), "BODY=%s", p[1])
				}
			case "SMTPUTF8":
				s.utf8Txn = true
				if !s.HasExt("SMTPUTF8") {
					s.illegal("param-not-advertised", ev.Pos(), "SMTPUTF8 sent although it is not in the latest EHLO reply")
				}
				if p[1] != "" {
					s.illegal("mail-param-value", ev.Pos(), "SMTPUTF8=%s", p[1])
				}
			case "RET":
				if !s.HasExt("DSN") {
					s.illegal("param-not-advertised", ev.Pos(), "RET=%s sent although DSN is not in the latest EHLO reply", p[1])
				}
				if u := strings.ToUpper(p[1]); u != "FULL" && u != "HDRS" {
					s.illegal("mail-param-value", ev.Pos(), "RET=%s", p[1])
				}
			case "ENVID":
				if !s.HasExt("DSN") {
					s.illegal("param-not-advertised", ev.Pos(), "ENVID sent although DSN is not in the latest EHLO reply")
				}
			case "SIZE":
				if !s.HasExt("SIZE") {
					s.illegal("param-not-advertised", ev.Pos(), "SIZE sent although it is not in the latest EHLO reply")
				}
			case "AUTH":
				if !s.HasExt("AUTH") {
					s.illegal("param-not-advertised", ev.Pos(), "AUTH= sent although AUTH is not in the latest EHLO reply")
				}
			default:
				s.illegal("param-unknown", ev.Pos(), "unknown MAIL parameter %s", p[0])
			}
		}
		if mb.HasUTF8 && !s.utf8Txn {
			s.illegal("utf8-without-smtputf8", ev.Pos(), "non-ASCII reverse-path %q without the SMTPUTF8 parameter", mb.String())
		}
		s.from, s.fromRaw, s.params = mb, arg[5:len(arg)-len(rest)], params
		return s.answer(ev, Action{Kind: ActReply, Code: 250})
	case "RCPT":
		s.rcptN++
		ev := mk(uverb)
		if s.txn != 1 {
			s.illegal("rcpt-without-mail", ev.Pos(), "RCPT without an accepted MAIL (transaction state %d)", s.txn)
		}
		if len(arg) < 3 || !strings.EqualFold(arg[:3], "TO:") {
			s.illegal("rcpt-syntax", ev.Pos(), "RCPT line %q is not 'RCPT TO:<path>'", clip(line))
			return s.answer(ev, Action{Kind: ActReply, Code: 501, Text: []string{"syntax error"}})
		}
		mb, rest, err := ParsePath(arg[3:], false)
		if err != nil {
			s.illegal("rcpt-path-syntax", ev.Pos(), "forward-path in %q does not parse: %v", clip(line), err)
			return s.answer(ev, Action{Kind: ActReply, Code: 501, Text: []string{"bad forward-path"}})
		}
		params, err := ParseParams(rest)
		if err != nil {
			s.illegal("rcpt-param-syntax", ev.Pos(), "RCPT parameters in %q: %v", clip(line), err)
			return s.answer(ev, Action{Kind: ActReply, Code: 501, Text: []string{"bad parameters"}})
		}
		for _, p := range params {
			switch p[0] {
			case "NOTIFY":
				if !s.HasExt("DSN") {
					s.illegal("param-not-advertised", ev.Pos(), "NOTIFY=%s sent although DSN is not in the latest EHLO reply", p[1])
				}
				seen := map[string]bool{}
				for _, v := range strings.Split(strings.ToUpper(p[1]), ",") {
					if v != "NEVER" && v != "SUCCESS" && v != "FAILURE" && v != "DELAY" {
						s.illegal("rcpt-param-value", ev.Pos(), "NOTIFY=%s", p[1])
					}
					seen[v] = true
				}
				if seen["NEVER"] && len(seen) > 1 {
					s.illegal("rcpt-param-value", ev.Pos(), "NOTIFY=%s combines NEVER with other values", p[1])
				}
			case "ORCPT":
				if !s.HasExt("DSN") {
					s.illegal("param-not-advertised", ev.Pos(), "ORCPT sent although DSN is not in the latest EHLO reply")
				}
			default:
				s.illegal("param-unknown", ev.Pos(), "unknown RCPT parameter %s", p[0])
			}
		}
		if mb.HasUTF8 && !s.utf8Txn {
			s.illegal("utf8-without-smtputf8", ev.Pos(), "non-ASCII forward-path %q without SMTPUTF8 on MAIL", mb.String())
		}
		s.pendRcpt, s.pendRcptRaw = mb, arg[3:len(arg)-len(rest)]
		return s.answer(ev, Action{Kind: ActReply, Code: 250})
	case "DATA":
		ev := mk(uverb)
		if arg != "" || line != verb {
			s.illegal("data-syntax", ev.Pos(), "DATA with argument")
		}
		switch {
		case s.txn != 1:
			s.illegal("data-without-mail", ev.Pos(), "DATA without an open transaction")
			return s.answer(ev, Action{Kind: ActReply, Code: 503, Text: []string{"need MAIL first"}})
		case s.rcptOK == 0:
			s.illegal("data-without-rcpt", ev.Pos(), "DATA although no recipient was accepted (%d rejected)", s.rcptBad)
			return s.answer(ev, Action{Kind: ActReply, Code: 503, Text: []string{"need RCPT first"}})
		case s.rcptBad > 0:
			s.illegal("data-after-rejected-rcpt", ev.Pos(), "DATA although %d of %d recipients were refused", s.rcptBad, s.rcptBad+s.rcptOK)
		}
		return s.answer(ev, Action{Kind: ActReply, Code: 354})
	case "VRFY":
		ev := mk(uverb)
		return s.answer(ev, Action{Kind: ActReply, Code: 252})
	}
	ev := mk("UNKNOWN")
	s.illegal("unknown-command", ev.Pos(), "unknown or malformed command %q", clip(line))
	return s.answer(ev, Action{Kind: ActReply, Code: 500, Text: []string{"command not recognised"}})
}

func (s *Session) authStep(ev *Event, resp []byte) []byte {
	ch, done, ok := s.auth.Step(resp)
	if !done {
		return s.answer(ev, Action{Kind: ActReply, Code: 334, Text: []string{base64.StdEncoding.EncodeToString(ch)}})
	}
	s.auth = nil
	if ok {
		out := s.answer(ev, Action{Kind: ActReply, Code: 235, Text: []string{"authenticated"}})
		return out
	}
	return s.answer(ev, Action{Kind: ActReply, Code: 535, Text: []string{"authentication failed"}})
}

// AbortAuth lets a script end the running SASL exchange (after it answered with a final code itself).
func (s *Session) AbortAuth() { s.auth = nil }

// InAuth reports whether a SASL exchange is running.
func (s *Session) InAuth() bool { return s.auth != nil }

// MarkAuthed is called by scripts/handlers once 235 was sent.
func (s *Session) MarkAuthed() { s.Authed = true }

// TLSStarted is called by the Conn once the TLS handshake that followed STARTTLS completed: RFC 3207 —
// the server discards all knowledge obtained from the client, the client must EHLO again.
func (s *Session) TLSStarted() {
	s.awaitTLS = false
	s.InTLS = true
	s.helloDone = false
	s.ext = nil
	s.resetTxn()
}

// AwaitingTLS reports whether the server answered STARTTLS with 220 and waits for the handshake.
func (s *Session) AwaitingTLS() bool { return s.awaitTLS }

// TLSFailed is called when the handshake did not complete.
func (s *Session) TLSFailed() { s.awaitTLS = false; s.Closed = true }

// junkAuth keeps the session in SASL mode when a script forces an extra 334; it never authenticates.
type junkAuth struct{}

func (junkAuth) Step([]byte) ([]byte, bool, bool) { return nil, true, false }

// InData reports whether the server is receiving message content, and how many content bytes arrived so far.
func (s *Session) InData() (bool, int) { return s.txn == 2, len(s.data) + len(s.inbuf) }

// CurTxn is the index of the current / latest transaction (number of MAIL commands seen).
func (s *Session) CurTxn() int { return s.txnIdx }

// FromRaw is the reverse-path text of the current transaction's MAIL command.
func (s *Session) FromRaw() string { return s.fromRaw }
