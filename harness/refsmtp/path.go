// Package refsmtp is the harness' reference SMTP server: a strict RFC 5321 command parser, the session
// automaton, a protocol monitor, a commit log and a synchronous in-memory net.Conn that feeds it.
// Written from the RFC text; it shares no code with go-mail or net/mail.
package refsmtp

import (
	"fmt"
	"strings"
	"unicode/utf8"
)

// Mailbox is a parsed RFC 5321 Mailbox with the local part in its unquoted (semantic) form.
type Mailbox struct {
	Local   string
	Domain  string
	Quoted  bool // local part was transmitted as a quoted-string
	HasUTF8 bool
	Null    bool // "<>"
}

func (m Mailbox) String() string {
	if m.Null {
		return "<>"
	}
	return m.Local + "@" + m.Domain
}

func isAtext(c byte) bool {
	switch {
	case c >= 'a' && c <= 'z', c >= 'A' && c <= 'Z', c >= '0' && c <= '9':
		return true
	}
	return strings.IndexByte("!#$%&'*+-/=?^_`{|}~", c) >= 0
}

// ParsePath parses "<" [source-route] Mailbox ">" at the start of s and returns the rest.
// allowNull admits "<>" (reverse-path only). utf8ok admits RFC 6531 UTF-8 in local part and domain.
func ParsePath(s string, allowNull bool) (mb Mailbox, rest string, err error) {
	if !strings.HasPrefix(s, "<") {
		return mb, s, fmt.Errorf("path does not start with '<'")
	}
	if strings.HasPrefix(s, "<>") {
		if !allowNull {
			return mb, s, fmt.Errorf("null path not allowed here")
		}
		return Mailbox{Null: true}, s[2:], nil
	}
	i := 1
	// optional source route "@a,@b:" — obsolete, reject: go-mail never has a reason to send it
	if i < len(s) && s[i] == '@' {
		return mb, s, fmt.Errorf("source route in path")
	}
	// local part
	if i < len(s) && s[i] == '"' {
		mb.Quoted = true
		i++
		var b strings.Builder
		closed := false
		for i < len(s) {
			c := s[i]
			if c == '"' {
				closed = true
				i++
				break
			}
			if c == '\\' {
				if i+1 >= len(s) || s[i+1] < 32 || s[i+1] > 126 {
					return mb, s, fmt.Errorf("bad quoted-pair in local part")
				}
				b.WriteByte(s[i+1])
				i += 2
				continue
			}
			if c >= 0x80 {
				r, n := utf8.DecodeRuneInString(s[i:])
				if r == utf8.RuneError && n <= 1 {
					return mb, s, fmt.Errorf("invalid UTF-8 in local part")
				}
				mb.HasUTF8 = true
				b.WriteString(s[i : i+n])
				i += n
				continue
			}
			if c < 32 || c == 127 {
				return mb, s, fmt.Errorf("control character %#x in quoted local part", c)
			}
			b.WriteByte(c)
			i++
		}
		if !closed {
			return mb, s, fmt.Errorf("unterminated quoted local part")
		}
		mb.Local = b.String()
	} else {
		start := i
		lastDot := true // a dot-string may not start with '.'
		for i < len(s) {
			c := s[i]
			if c == '.' {
				if lastDot {
					return mb, s, fmt.Errorf("empty atom in dot-string local part")
				}
				lastDot = true
				i++
				continue
			}
			if c >= 0x80 {
				r, n := utf8.DecodeRuneInString(s[i:])
				if r == utf8.RuneError && n <= 1 {
					return mb, s, fmt.Errorf("invalid UTF-8 in local part")
				}
				mb.HasUTF8 = true
				i += n
				lastDot = false
				continue
			}
			if !isAtext(c) {
				break
			}
			lastDot = false
			i++
		}
		if i == start {
			return mb, s, fmt.Errorf("empty local part")
		}
		if lastDot {
			return mb, s, fmt.Errorf("local part ends with '.'")
		}
		mb.Local = s[start:i]
	}
	if len(mb.Local) > 64 {
		// RFC 5321 4.5.3.1.1 — reported by the caller as a note, not a syntax error
	}
	if i >= len(s) || s[i] != '@' {
		return mb, s, fmt.Errorf("missing '@' after local part %q", mb.Local)
	}
	i++
	// domain or address literal
	start := i
	if i < len(s) && s[i] == '[' {
		j := strings.IndexByte(s[i:], ']')
		if j < 0 {
			return mb, s, fmt.Errorf("unterminated address literal")
		}
		lit := s[i+1 : i+j]
		if lit == "" {
			return mb, s, fmt.Errorf("empty address literal")
		}
		for k := 0; k < len(lit); k++ {
			c := lit[k]
			if c < 33 || c > 126 || c == '[' || c == '\\' {
				return mb, s, fmt.Errorf("bad character in address literal")
			}
		}
		i += j + 1
	} else {
		labelStart := true
		var prev byte
		for i < len(s) {
			c := s[i]
			if c == '.' {
				if labelStart || prev == '-' {
					return mb, s, fmt.Errorf("bad domain label")
				}
				labelStart = true
				prev = c
				i++
				continue
			}
			if c >= 0x80 {
				r, n := utf8.DecodeRuneInString(s[i:])
				if r == utf8.RuneError && n <= 1 {
					return mb, s, fmt.Errorf("invalid UTF-8 in domain")
				}
				mb.HasUTF8 = true
				i += n
				labelStart = false
				prev = 'x'
				continue
			}
			isLD := (c >= 'a' && c <= 'z') || (c >= 'A' && c <= 'Z') || (c >= '0' && c <= '9')
			if isLD || (c == '-' && !labelStart) {
				labelStart = false
				prev = c
				i++
				continue
			}
			break
		}
		if i == start {
			return mb, s, fmt.Errorf("empty domain")
		}
		if labelStart || prev == '-' {
			return mb, s, fmt.Errorf("domain ends with '.' or '-'")
		}
	}
	mb.Domain = s[start:i]
	if i >= len(s) || s[i] != '>' {
		return mb, s, fmt.Errorf("path not closed by '>' after %q", s[:i])
	}
	return mb, s[i+1:], nil
}

// ParseParams parses *(SP esmtp-param) and returns keyword/value pairs (keyword upper-cased).
func ParseParams(s string) ([][2]string, error) {
	var out [][2]string
	for s != "" {
		if s[0] != ' ' {
			return nil, fmt.Errorf("parameter not preceded by a single SP: %q", s)
		}
		s = s[1:]
		j := strings.IndexByte(s, ' ')
		tok := s
		if j >= 0 {
			tok, s = s[:j], s[j:]
		} else {
			s = ""
		}
		if tok == "" {
			return nil, fmt.Errorf("empty parameter (double SP or trailing SP)")
		}
		kw, val := tok, ""
		if k := strings.IndexByte(tok, '='); k >= 0 {
			kw, val = tok[:k], tok[k+1:]
			if val == "" {
				return nil, fmt.Errorf("parameter %q with empty value", kw)
			}
		}
		if kw == "" {
			return nil, fmt.Errorf("empty parameter keyword")
		}
		for i := 0; i < len(kw); i++ {
			c := kw[i]
			ok := (c >= 'a' && c <= 'z') || (c >= 'A' && c <= 'Z') || (c >= '0' && c <= '9') || (c == '-' && i > 0)
			if !ok {
				return nil, fmt.Errorf("bad character %q in parameter keyword %q", c, kw)
			}
		}
		for i := 0; i < len(val); i++ {
			c := val[i]
			if c < 33 || c > 126 || c == '=' {
				return nil, fmt.Errorf("bad character %q in value of parameter %q", c, kw)
			}
		}
		out = append(out, [2]string{strings.ToUpper(kw), val})
	}
	return out, nil
}

// ValidHeloDomain checks the argument of EHLO/HELO: Domain / address-literal, no blanks.
func ValidHeloDomain(arg string) error {
	if arg == "" {
		return fmt.Errorf("empty EHLO/HELO argument")
	}
	_, rest, err := ParsePath("<x@"+arg+">", false)
	if err != nil {
		return fmt.Errorf("EHLO/HELO argument %q is not a domain or address literal: %v", arg, err)
	}
	if rest != "" {
		return fmt.Errorf("EHLO/HELO argument %q has trailing text", arg)
	}
	return nil
}
