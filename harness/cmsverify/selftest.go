package cmsverify

import (
	_ "embed"
	"fmt"

	"verif/vf"
)

//go:embed testdata/content.bin
var vecContent []byte

//go:embed testdata/sig.der
var vecRSA []byte

//go:embed testdata/esig.der
var vecECDSA []byte

func init() {
	vf.AddSelfTest("cmsverify vs OpenSSL-produced CMS", func() error {
		r, err := Verify(vecRSA, vecContent)
		if err != nil || r.KeyType != "RSA" {
			return fmt.Errorf("OpenSSL RSA vector rejected: %v", err)
		}
		r, err = Verify(vecECDSA, vecContent)
		if err != nil || r.KeyType != "ECDSA" {
			return fmt.Errorf("OpenSSL ECDSA vector rejected: %v", err)
		}
		bad := append([]byte{}, vecContent...)
		bad[len(bad)-3] ^= 1
		if _, err := Verify(vecRSA, bad); err == nil {
			return fmt.Errorf("modified content accepted")
		}
		sig := append([]byte{}, vecECDSA...)
		sig[len(sig)-5] ^= 1
		if _, err := Verify(sig, vecContent); err == nil {
			return fmt.Errorf("modified signature accepted")
		}
		return nil
	})
}
