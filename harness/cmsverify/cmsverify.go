// Package cmsverify is the harness' own verifier for detached CMS/PKCS#7 SignedData (RFC 5652), written on top
// of encoding/asn1 and crypto/x509 only. It shares no code with go-mail's internal/pkcs7.
package cmsverify

import (
	"bytes"
	"crypto"
	"crypto/ecdsa"
	"crypto/rsa"
	"crypto/sha256"
	"crypto/x509"
	"encoding/asn1"
	"fmt"
	"math/big"
)

var (
	oidSignedData    = asn1.ObjectIdentifier{1, 2, 840, 113549, 1, 7, 2}
	oidData          = asn1.ObjectIdentifier{1, 2, 840, 113549, 1, 7, 1}
	oidContentType   = asn1.ObjectIdentifier{1, 2, 840, 113549, 1, 9, 3}
	oidMessageDigest = asn1.ObjectIdentifier{1, 2, 840, 113549, 1, 9, 4}
	oidSHA256        = asn1.ObjectIdentifier{2, 16, 840, 1, 101, 3, 4, 2, 1}
	oidRSA           = asn1.ObjectIdentifier{1, 2, 840, 113549, 1, 1, 1}
	oidRSASHA256     = asn1.ObjectIdentifier{1, 2, 840, 113549, 1, 1, 11}
	oidECDSASHA256   = asn1.ObjectIdentifier{1, 2, 840, 10045, 4, 3, 2}
)

type algID struct {
	Algorithm  asn1.ObjectIdentifier
	Parameters asn1.RawValue `asn1:"optional"`
}

type contentInfo struct {
	ContentType asn1.ObjectIdentifier
	Content     asn1.RawValue `asn1:"explicit,optional,tag:0"`
}

type issuerAndSerial struct {
	Issuer asn1.RawValue
	Serial *big.Int
}

type signerInfo struct {
	Version      int
	SID          issuerAndSerial
	DigestAlg    algID
	SignedAttrs  asn1.RawValue `asn1:"optional,tag:0"`
	SigAlg       algID
	Signature    []byte
	UnsignedAttr asn1.RawValue `asn1:"optional,tag:1"`
}

type signedData struct {
	Version     int
	DigestAlgs  []algID `asn1:"set"`
	EncapInfo   contentInfo
	Certs       asn1.RawValue `asn1:"optional,tag:0"`
	CRLs        asn1.RawValue `asn1:"optional,tag:1"`
	SignerInfos []signerInfo  `asn1:"set"`
}

type attribute struct {
	Type   asn1.ObjectIdentifier
	Values asn1.RawValue `asn1:"set"`
}

// Result describes a verified signature.
type Result struct {
	Signer     *x509.Certificate
	Certs      []*x509.Certificate
	KeyType    string // "RSA" / "ECDSA"
	AttrsInDER bool   // signed attributes are in DER SET OF order
}

// Verify checks that der is a detached SignedData over content: SHA-256 message digest attribute equals the
// digest of content, and the signature over the signed attributes validates under the signer certificate that
// is carried in the structure.
func Verify(der, content []byte) (*Result, error) {
	var ci contentInfo
	rest, err := asn1.Unmarshal(der, &ci)
	if err != nil {
		return nil, fmt.Errorf("ContentInfo: %v", err)
	}
	if len(rest) != 0 {
		return nil, fmt.Errorf("%d trailing bytes after ContentInfo", len(rest))
	}
	if !ci.ContentType.Equal(oidSignedData) {
		return nil, fmt.Errorf("content type %v is not signedData", ci.ContentType)
	}
	var sd signedData
	if _, err := asn1.Unmarshal(ci.Content.Bytes, &sd); err != nil {
		return nil, fmt.Errorf("SignedData: %v", err)
	}
	if !sd.EncapInfo.ContentType.Equal(oidData) {
		return nil, fmt.Errorf("encapsulated content type %v is not data", sd.EncapInfo.ContentType)
	}
	if len(sd.EncapInfo.Content.Bytes) != 0 {
		return nil, fmt.Errorf("signature is not detached (eContent present)")
	}
	res := &Result{}
	if len(sd.Certs.Bytes) > 0 {
		cs, err := x509.ParseCertificates(sd.Certs.Bytes)
		if err != nil {
			return nil, fmt.Errorf("certificates: %v", err)
		}
		res.Certs = cs
	}
	if len(sd.SignerInfos) != 1 {
		return nil, fmt.Errorf("%d SignerInfos, want 1", len(sd.SignerInfos))
	}
	si := sd.SignerInfos[0]
	if !si.DigestAlg.Algorithm.Equal(oidSHA256) {
		return nil, fmt.Errorf("digest algorithm %v is not SHA-256", si.DigestAlg.Algorithm)
	}
	okDA := false
	for _, a := range sd.DigestAlgs {
		if a.Algorithm.Equal(oidSHA256) {
			okDA = true
		}
	}
	if !okDA {
		return nil, fmt.Errorf("SHA-256 missing from digestAlgorithms")
	}
	for _, c := range res.Certs {
		if bytes.Equal(c.RawIssuer, si.SID.Issuer.FullBytes) && c.SerialNumber.Cmp(si.SID.Serial) == 0 {
			res.Signer = c
		}
	}
	if res.Signer == nil {
		return nil, fmt.Errorf("signer certificate (issuer+serial of the SignerInfo) is not among the %d embedded certificates", len(res.Certs))
	}
	if len(si.SignedAttrs.FullBytes) == 0 {
		return nil, fmt.Errorf("no signed attributes")
	}
	// parse attributes
	var attrs []attribute
	raw := si.SignedAttrs.Bytes
	var encodings [][]byte
	for len(raw) > 0 {
		var a attribute
		before := raw
		raw, err = asn1.Unmarshal(raw, &a)
		if err != nil {
			return nil, fmt.Errorf("signed attribute: %v", err)
		}
		encodings = append(encodings, before[:len(before)-len(raw)])
		attrs = append(attrs, a)
	}
	res.AttrsInDER = true
	for i := 1; i < len(encodings); i++ {
		if bytes.Compare(encodings[i-1], encodings[i]) > 0 {
			res.AttrsInDER = false
		}
	}
	var md []byte
	ctOK := false
	for _, a := range attrs {
		switch {
		case a.Type.Equal(oidMessageDigest):
			if _, err := asn1.Unmarshal(a.Values.Bytes, &md); err != nil {
				return nil, fmt.Errorf("messageDigest attribute: %v", err)
			}
		case a.Type.Equal(oidContentType):
			var o asn1.ObjectIdentifier
			if _, err := asn1.Unmarshal(a.Values.Bytes, &o); err != nil || !o.Equal(oidData) {
				return nil, fmt.Errorf("contentType attribute is not id-data")
			}
			ctOK = true
		}
	}
	if md == nil {
		return nil, fmt.Errorf("messageDigest attribute missing")
	}
	if !ctOK {
		return nil, fmt.Errorf("contentType attribute missing")
	}
	sum := sha256.Sum256(content)
	if !bytes.Equal(md, sum[:]) {
		return nil, fmt.Errorf("messageDigest attribute %x differs from the SHA-256 of the signed entity %x", md[:6], sum[:6])
	}
	// the signature is computed over the DER encoding of the attributes as SET OF (tag 0x31)
	tbs := append([]byte{}, si.SignedAttrs.FullBytes...)
	tbs[0] = 0x31
	h := sha256.Sum256(tbs)
	switch pub := res.Signer.PublicKey.(type) {
	case *rsa.PublicKey:
		res.KeyType = "RSA"
		if !si.SigAlg.Algorithm.Equal(oidRSASHA256) && !si.SigAlg.Algorithm.Equal(oidRSA) {
			return nil, fmt.Errorf("signature algorithm %v does not fit an RSA key", si.SigAlg.Algorithm)
		}
		if err := rsa.VerifyPKCS1v15(pub, crypto.SHA256, h[:], si.Signature); err != nil {
			return nil, fmt.Errorf("RSA signature over the signed attributes does not verify: %v", err)
		}
	case *ecdsa.PublicKey:
		res.KeyType = "ECDSA"
		if !si.SigAlg.Algorithm.Equal(oidECDSASHA256) {
			return nil, fmt.Errorf("signature algorithm %v does not fit an ECDSA key", si.SigAlg.Algorithm)
		}
		if !ecdsa.VerifyASN1(pub, h[:], si.Signature) {
			return nil, fmt.Errorf("ECDSA signature over the signed attributes does not verify")
		}
	default:
		return nil, fmt.Errorf("unsupported signer key type %T", pub)
	}
	return res, nil
}
