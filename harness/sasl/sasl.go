// Package sasl holds the harness' reference SASL *servers*, written from RFC 4616 (PLAIN), the LOGIN draft,
// RFC 2195 (CRAM-MD5), the XOAUTH2 specification and RFC 5802 / 7677 / 5929 / 9266 (SCRAM, channel binding).
// They share no code with go-mail; PBKDF2 is implemented here from RFC 8018 and self-tested on RFC 6070.
package sasl

import (
	"bytes"
	"crypto/hmac"
	"crypto/md5"
	"crypto/sha1"
	"crypto/sha256"
	"encoding/base64"
	"encoding/hex"
	"fmt"
	"hash"
	"strconv"
	"strings"
)

// Exchange matches refsmtp.AuthExchange.
type Exchange interface {
	Step(resp []byte) (challenge []byte, done bool, ok bool)
}

// Trace records what a reference server saw; checks read it after the exchange.
type Trace struct {
	Steps    [][]byte // client responses in order
	Reason   string   // why the exchange was rejected ("" when accepted)
	Accepted bool
	CNonce   string
	User     string // user name as decoded by the server
	GS2      string
}

// ---- PLAIN (RFC 4616): [authzid] NUL authcid NUL passwd ----

type Plain struct {
	User, Pass string
	T          *Trace
}

func (p *Plain) Step(resp []byte) ([]byte, bool, bool) {
	if resp == nil {
		return []byte{}, false, false // no initial response: empty challenge
	}
	p.T.Steps = append(p.T.Steps, resp)
	parts := bytes.Split(resp, []byte{0})
	if len(parts) != 3 {
		p.T.Reason = fmt.Sprintf("PLAIN message has %d NUL-separated fields, want 3", len(parts))
		return nil, true, false
	}
	authz, authc, pw := string(parts[0]), string(parts[1]), string(parts[2])
	p.T.User = authc
	if authc == "" || pw == "" {
		// RFC 4616: authcid and passwd are 1*SAFE
		p.T.Reason = "empty authcid or passwd"
		return nil, true, false
	}
	if authz != "" && authz != authc {
		p.T.Reason = "authzid differs from authcid"
		return nil, true, false
	}
	if authc != p.User || pw != p.Pass {
		p.T.Reason = "wrong credentials"
		return nil, true, false
	}
	p.T.Accepted = true
	return nil, true, true
}

// ---- LOGIN (draft-murchison-sasl-login): "Username:" / "Password:" prompts ----

type Login struct {
	User, Pass string
	T          *Trace
	step       int
	u          string
}

func (l *Login) Step(resp []byte) ([]byte, bool, bool) {
	switch l.step {
	case 0:
		l.step = 1
		if resp != nil {
			// initial response = user name (permitted by the draft)
			l.u = string(resp)
			l.T.Steps = append(l.T.Steps, resp)
			l.step = 2
			return []byte("Password:"), false, false
		}
		return []byte("Username:"), false, false
	case 1:
		l.T.Steps = append(l.T.Steps, resp)
		l.u = string(resp)
		l.step = 2
		return []byte("Password:"), false, false
	default:
		l.T.Steps = append(l.T.Steps, resp)
		l.T.User = l.u
		if l.u == l.User && string(resp) == l.Pass {
			l.T.Accepted = true
			return nil, true, true
		}
		l.T.Reason = "wrong credentials"
		return nil, true, false
	}
}

// ---- CRAM-MD5 (RFC 2195) ----

type CramMD5 struct {
	User, Pass string
	Challenge  string
	T          *Trace
	sent       bool
}

func (c *CramMD5) Step(resp []byte) ([]byte, bool, bool) {
	if !c.sent {
		c.sent = true
		if resp != nil {
			c.T.Reason = "CRAM-MD5 does not take an initial response"
			return nil, true, false
		}
		return []byte(c.Challenge), false, false
	}
	c.T.Steps = append(c.T.Steps, resp)
	// user SP digest — the user name may contain spaces: the digest is the last token
	i := bytes.LastIndexByte(resp, ' ')
	if i < 0 {
		c.T.Reason = "no blank between user name and digest"
		return nil, true, false
	}
	user, dig := string(resp[:i]), string(resp[i+1:])
	c.T.User = user
	m := hmac.New(md5.New, []byte(c.Pass))
	m.Write([]byte(c.Challenge))
	want := hex.EncodeToString(m.Sum(nil))
	if user != c.User || dig != want {
		c.T.Reason = "wrong credentials"
		return nil, true, false
	}
	c.T.Accepted = true
	return nil, true, true
}

// ---- XOAUTH2: "user=" user ^A "auth=Bearer " token ^A ^A ----

type XOAuth2 struct {
	User, Token string
	T           *Trace
	failed      bool
}

func (x *XOAuth2) Step(resp []byte) ([]byte, bool, bool) {
	if x.failed {
		// the client answers the error challenge with an empty response; then the server fails the exchange
		x.T.Steps = append(x.T.Steps, resp)
		return nil, true, false
	}
	if resp == nil {
		return []byte{}, false, false
	}
	x.T.Steps = append(x.T.Steps, resp)
	s := string(resp)
	ok := false
	if strings.HasPrefix(s, "user=") && strings.HasSuffix(s, "\x01\x01") {
		body := s[5 : len(s)-2]
		if k := strings.Index(body, "\x01auth=Bearer "); k >= 0 {
			user, tok := body[:k], body[k+len("\x01auth=Bearer "):]
			x.T.User = user
			ok = user == x.User && tok == x.Token && !strings.Contains(tok, "\x01")
		}
	}
	if ok {
		x.T.Accepted = true
		return nil, true, true
	}
	x.T.Reason = "wrong credentials or malformed XOAUTH2 message"
	x.failed = true
	return []byte(`{"status":"401","schemes":"bearer","scope":"https://mail.example/"}`), false, false
}

// ---- PBKDF2 (RFC 8018 §5.2) ----

func PBKDF2(h func() hash.Hash, password, salt []byte, iter, keyLen int) []byte {
	prf := hmac.New(h, password)
	hl := prf.Size()
	var out []byte
	for block := 1; len(out) < keyLen; block++ {
		prf.Reset()
		prf.Write(salt)
		prf.Write([]byte{byte(block >> 24), byte(block >> 16), byte(block >> 8), byte(block)})
		u := prf.Sum(nil)
		t := append([]byte{}, u...)
		for i := 1; i < iter; i++ {
			prf.Reset()
			prf.Write(u)
			u = prf.Sum(u[:0])
			for j := 0; j < hl; j++ {
				t[j] ^= u[j]
			}
		}
		out = append(out, t...)
	}
	return out[:keyLen]
}

// ---- SCRAM (RFC 5802, 7677) ----

// Scram is one server-side SCRAM exchange.
type Scram struct {
	User, Pass string // stored identity; Pass is used as given (callers keep to strings where SASLprep is the identity)
	SHA256     bool
	Plus       bool   // mechanism name ended in -PLUS
	CBType     string // channel binding type the server supports on this connection ("tls-unique", "tls-exporter")
	CBData     []byte // server's view of the channel-binding data
	Salt       []byte
	Iter       int
	SNonce     string // server part of the nonce (must be non-empty and printable)
	// FirstExt is appended to the server-first-message: RFC 5802 allows optional extension attributes after the
	// iteration count (e.g. ",x=opaque"), which a client has to ignore
	FirstExt string
	T        *Trace

	step        int
	clientBare  string
	serverFirst string
	gs2         string
	nonce       string
	ServerSig   []byte // computed for the valid exchange (exposed for forged-message construction)
}

func (s *Scram) h() func() hash.Hash {
	if s.SHA256 {
		return sha256.New
	}
	return sha1.New
}

func hm(h func() hash.Hash, key, msg []byte) []byte {
	m := hmac.New(h, key)
	m.Write(msg)
	return m.Sum(nil)
}

func hsum(h func() hash.Hash, msg []byte) []byte {
	x := h()
	x.Write(msg)
	return x.Sum(nil)
}

func unescapeSaslname(s string) (string, bool) {
	var b strings.Builder
	for i := 0; i < len(s); i++ {
		c := s[i]
		if c == ',' {
			return "", false
		}
		if c == '=' {
			if strings.HasPrefix(s[i:], "=2C") {
				b.WriteByte(',')
				i += 2
				continue
			}
			if strings.HasPrefix(s[i:], "=3D") {
				b.WriteByte('=')
				i += 2
				continue
			}
			return "", false
		}
		b.WriteByte(c)
	}
	return b.String(), true
}

// ParseClientFirst splits a client-first-message into gs2 header and bare part and extracts user and nonce.
func ParseClientFirst(msg string) (gs2, bare, user, cnonce string, err error) {
	// gs2-header = gs2-cbind-flag "," [authzid] ","
	f := strings.SplitN(msg, ",", 3)
	if len(f) < 3 {
		return "", "", "", "", fmt.Errorf("client-first-message has no gs2 header")
	}
	flag := f[0]
	if flag != "n" && flag != "y" && !strings.HasPrefix(flag, "p=") {
		return "", "", "", "", fmt.Errorf("bad gs2-cbind-flag %q", flag)
	}
	if f[1] != "" && !strings.HasPrefix(f[1], "a=") {
		return "", "", "", "", fmt.Errorf("bad authzid field %q", f[1])
	}
	gs2 = f[0] + "," + f[1] + ","
	bare = f[2]
	attrs := strings.Split(bare, ",")
	if len(attrs) < 2 || !strings.HasPrefix(attrs[0], "n=") || !strings.HasPrefix(attrs[1], "r=") {
		if len(attrs) > 0 && strings.HasPrefix(attrs[0], "m=") {
			return "", "", "", "", fmt.Errorf("mandatory extension not supported")
		}
		return "", "", "", "", fmt.Errorf("client-first-message-bare %q is not n=…,r=…", bare)
	}
	u, ok := unescapeSaslname(attrs[0][2:])
	if !ok {
		return "", "", "", "", fmt.Errorf("saslname %q contains ',' or an invalid '=' escape", attrs[0][2:])
	}
	cnonce = attrs[1][2:]
	if cnonce == "" {
		return "", "", "", "", fmt.Errorf("empty client nonce")
	}
	for i := 0; i < len(cnonce); i++ {
		if cnonce[i] < 0x21 || cnonce[i] > 0x7e || cnonce[i] == ',' {
			return "", "", "", "", fmt.Errorf("client nonce contains a non-printable character or ','")
		}
	}
	return gs2, bare, u, cnonce, nil
}

func (s *Scram) fail(why string) ([]byte, bool, bool) {
	s.T.Reason = why
	return nil, true, false
}

func (s *Scram) Step(resp []byte) ([]byte, bool, bool) {
	switch s.step {
	case 0:
		if resp == nil {
			return []byte{}, false, false // ask for the client-first-message
		}
		s.step = 1
		s.T.Steps = append(s.T.Steps, resp)
		gs2, bare, user, cn, err := ParseClientFirst(string(resp))
		if err != nil {
			return s.fail(err.Error())
		}
		s.gs2, s.clientBare, s.T.CNonce, s.T.User, s.T.GS2 = gs2, bare, cn, user, gs2
		flag := strings.SplitN(gs2, ",", 2)[0]
		switch {
		case s.Plus && !strings.HasPrefix(flag, "p="):
			return s.fail("-PLUS mechanism selected but the client did not request channel binding")
		case !s.Plus && strings.HasPrefix(flag, "p="):
			return s.fail("channel binding requested on a non-PLUS mechanism")
		case s.Plus && flag != "p="+s.CBType:
			return s.fail(fmt.Sprintf("client uses channel binding type %q, this connection requires %q", flag[2:], s.CBType))
		}
		if user != s.User {
			// a real server would continue with fake salt; the harness only needs the verdict
			return s.fail("unknown user " + strconv.Quote(user))
		}
		s.nonce = cn + s.SNonce
		s.serverFirst = "r=" + s.nonce + ",s=" + base64.StdEncoding.EncodeToString(s.Salt) + ",i=" + strconv.Itoa(s.Iter) + s.FirstExt
		return []byte(s.serverFirst), false, false
	case 1:
		s.step = 2
		s.T.Steps = append(s.T.Steps, resp)
		msg := string(resp)
		k := strings.LastIndex(msg, ",p=")
		if k < 0 {
			return s.fail("client-final-message without proof")
		}
		without, proofB64 := msg[:k], msg[k+3:]
		attrs := strings.Split(without, ",")
		if len(attrs) < 2 || !strings.HasPrefix(attrs[0], "c=") || !strings.HasPrefix(attrs[1], "r=") {
			return s.fail("client-final-message is not c=…,r=…,p=…")
		}
		cb, err := base64.StdEncoding.DecodeString(attrs[0][2:])
		if err != nil {
			return s.fail("channel-binding field is not base64")
		}
		wantCB := []byte(s.gs2)
		if s.Plus {
			wantCB = append(wantCB, s.CBData...)
		}
		if !bytes.Equal(cb, wantCB) {
			return s.fail(fmt.Sprintf("channel binding mismatch: client sent %q, server expects %q", cb, wantCB))
		}
		if attrs[1][2:] != s.nonce {
			return s.fail("nonce in client-final-message differs from the one the server issued")
		}
		proof, err := base64.StdEncoding.DecodeString(proofB64)
		if err != nil {
			return s.fail("proof is not base64")
		}
		h := s.h()
		salted := PBKDF2(h, []byte(s.Pass), s.Salt, s.Iter, h().Size())
		clientKey := hm(h, salted, []byte("Client Key"))
		storedKey := hsum(h, clientKey)
		authMsg := s.clientBare + "," + s.serverFirst + "," + without
		sig := hm(h, storedKey, []byte(authMsg))
		if len(proof) != len(sig) {
			return s.fail("proof has wrong length")
		}
		ck := make([]byte, len(sig))
		for i := range sig {
			ck[i] = proof[i] ^ sig[i]
		}
		if !hmac.Equal(hsum(h, ck), storedKey) {
			return s.fail("wrong password (client proof does not verify)")
		}
		serverKey := hm(h, salted, []byte("Server Key"))
		s.ServerSig = hm(h, serverKey, []byte(authMsg))
		return []byte("v=" + base64.StdEncoding.EncodeToString(s.ServerSig)), false, false
	default:
		s.T.Steps = append(s.T.Steps, resp)
		if len(resp) != 0 {
			return s.fail("non-empty response to server-final-message")
		}
		s.T.Accepted = true
		return nil, true, true
	}
}
