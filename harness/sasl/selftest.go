package sasl

import (
	"crypto/sha1"
	"encoding/base64"
	"encoding/hex"
	"fmt"

	"verif/vf"
)

func init() {
	vf.AddSelfTest("sasl reference servers vs RFC vectors", func() error {
		// RFC 6070
		for _, v := range []struct {
			c    int
			want string
		}{{1, "0c60c80f961f0e71f3a9b524af6012062fe037a6"}, {2, "ea6c014dc72d6f8ccd1ed92ace1d41f0d8de8957"}, {4096, "4b007901b765489abead49d926f721d065a429c1"}} {
			if got := hex.EncodeToString(PBKDF2(sha1.New, []byte("password"), []byte("salt"), v.c, 20)); got != v.want {
				return fmt.Errorf("PBKDF2 c=%d: %s", v.c, got)
			}
		}
		// RFC 5802 §5
		salt, _ := base64.StdEncoding.DecodeString("QSXCR+Q6sek8bf92")
		t := &Trace{}
		s := &Scram{User: "user", Pass: "pencil", Salt: salt, Iter: 4096, SNonce: "3rfcNHYJY1ZVvWVs7j", T: t}
		ch, done, _ := s.Step([]byte("n,,n=user,r=fyko+d2lbbFgONRv9qkxdawL"))
		if done || string(ch) != "r=fyko+d2lbbFgONRv9qkxdawL3rfcNHYJY1ZVvWVs7j,s=QSXCR+Q6sek8bf92,i=4096" {
			return fmt.Errorf("RFC 5802 server-first: %q (%s)", ch, t.Reason)
		}
		ch, done, _ = s.Step([]byte("c=biws,r=fyko+d2lbbFgONRv9qkxdawL3rfcNHYJY1ZVvWVs7j,p=v0X8v3Bz2T0CJGbJQyF0X+HI4Ts="))
		if done || string(ch) != "v=rmF9pqV8S7suAoZWja4dJRkFsKQ=" {
			return fmt.Errorf("RFC 5802 server-final: %q (%s)", ch, t.Reason)
		}
		if _, done, ok := s.Step([]byte{}); !done || !ok {
			return fmt.Errorf("RFC 5802 final step")
		}
		// RFC 7677 §3
		salt, _ = base64.StdEncoding.DecodeString("W22ZaJ0SNY7soEsUEjb6gQ==")
		t = &Trace{}
		s = &Scram{User: "user", Pass: "pencil", SHA256: true, Salt: salt, Iter: 4096, SNonce: "%hvYDpWUa2RaTCAfuxFIlj)hNlF$k0", T: t}
		if _, done, _ := s.Step([]byte("n,,n=user,r=rOprNGfwEbeRWgbNEkqO")); done {
			return fmt.Errorf("RFC 7677 first: %s", t.Reason)
		}
		ch, done, _ = s.Step([]byte("c=biws,r=rOprNGfwEbeRWgbNEkqO%hvYDpWUa2RaTCAfuxFIlj)hNlF$k0,p=dHzbZapWIk4jUhN+Ute9ytag9zjfMHgsqmmiz7AndVQ="))
		if done || string(ch) != "v=6rriTRBi23WpRR/wtup+mMhUZUn/dB5nLTJRsjl95G4=" {
			return fmt.Errorf("RFC 7677 server-final: %q (%s)", ch, t.Reason)
		}
		// wrong password must be refused
		t = &Trace{}
		s = &Scram{User: "user", Pass: "pencil2", SHA256: true, Salt: salt, Iter: 4096, SNonce: "%hvYDpWUa2RaTCAfuxFIlj)hNlF$k0", T: t}
		s.Step([]byte("n,,n=user,r=rOprNGfwEbeRWgbNEkqO"))
		if _, done, ok := s.Step([]byte("c=biws,r=rOprNGfwEbeRWgbNEkqO%hvYDpWUa2RaTCAfuxFIlj)hNlF$k0,p=dHzbZapWIk4jUhN+Ute9ytag9zjfMHgsqmmiz7AndVQ=")); !done || ok {
			return fmt.Errorf("SCRAM accepted a wrong password")
		}
		// RFC 2195
		t = &Trace{}
		c := &CramMD5{User: "tim", Pass: "tanstaaftanstaaf", Challenge: "<1896.697170952@postoffice.reston.mci.net>", T: t}
		c.Step(nil)
		if _, done, ok := c.Step([]byte("tim b913a602c7eda7a495b4e6e7334d3890")); !done || !ok {
			return fmt.Errorf("RFC 2195 vector refused: %s", t.Reason)
		}
		// RFC 4616 example: authzid empty
		t = &Trace{}
		p := &Plain{User: "tim", Pass: "tanstaaftanstaaf", T: t}
		if _, done, ok := p.Step([]byte("\x00tim\x00tanstaaftanstaaf")); !done || !ok {
			return fmt.Errorf("RFC 4616 vector refused: %s", t.Reason)
		}
		if u, ok := unescapeSaslname("a=2Cb=3Dc"); !ok || u != "a,b=c" {
			return fmt.Errorf("saslname unescape")
		}
		if _, ok := unescapeSaslname("a=2cb"); ok {
			return fmt.Errorf("saslname unescape accepted lower-case escape")
		}
		return nil
	})
}
