// Package sched is engine E2: a cooperative scheduler that owns every sync.Mutex / sync.RWMutex operation of
// go-mail (through the vsync shim) and every connection I/O (through refsmtp.Conn.Hook). Exactly one harness
// thread runs at a time; at each scheduling point the Chooser decides who runs next, so the explorer can
// enumerate all interleavings up to a preemption bound.
package sched

import (
	"fmt"
	"runtime"
	"strings"
	"time"

	"github.com/wneessen/go-mail/verifshim/vsync"

	"verif/vf"
)

type opKind int

const (
	opStart opKind = iota
	opLock
	opIO
	opDone
	opPanic
)

type event struct {
	kind  opKind
	lock  interface{}
	write bool
	what  string
}

type thread struct {
	id        int
	resume    chan struct{}
	pending   event
	announced bool // for lock ops: Lock()/RLock() has been called and the thread waits inside it
	done      bool
	panicked  string
}

type lockState struct {
	writer  int // thread id, -1 none
	readers map[int]int
}

// StepTimeout bounds the time a resumed thread may take to reach its next scheduling point (it only fires when
// the code under test blocks on something the scheduler does not own).
var StepTimeout = 20 * time.Second

// S is one scheduler instance (one execution).
type S struct {
	c        *vf.Chooser
	threads  []*thread
	events   chan int // thread id that reached a point
	locks    map[interface{}]*lockState
	lockIDs  map[interface{}]int
	running  int
	Deadlock string
	Timeout  string
	Trace    []string // scheduling decisions "t1:lock#2w"
	Steps    int
	Preempts int
	timer    *time.Timer
}

// New creates a scheduler driven by c.
func New(c *vf.Chooser) *S {
	return &S{c: c, events: make(chan int), locks: map[interface{}]*lockState{}, lockIDs: map[interface{}]int{}, running: -1}
}

func (s *S) lockOf(l interface{}) *lockState {
	st, ok := s.locks[l]
	if !ok {
		st = &lockState{writer: -1, readers: map[int]int{}}
		s.locks[l] = st
		s.lockIDs[l] = len(s.lockIDs) + 1
	}
	return st
}

// point parks the calling thread until the scheduler resumes it.
func (s *S) point(ev event) {
	t := s.threads[s.running]
	t.pending = ev
	t.announced = false
	s.events <- t.id
	<-t.resume
}

// Acquire implements vsync.Sched.
func (s *S) Acquire(lock interface{}, write bool) {
	s.point(event{kind: opLock, lock: lock, write: write})
}

// TryAcquire implements vsync.Sched.
func (s *S) TryAcquire(lock interface{}, write bool) bool {
	st := s.lockOf(lock)
	if write {
		if st.writer == -1 && len(st.readers) == 0 {
			st.writer = s.running
			return true
		}
		return false
	}
	if st.writer == -1 && !s.writerWaiting(lock) {
		st.readers[s.running]++
		return true
	}
	return false
}

// Release implements vsync.Sched. Releases are not scheduling points.
func (s *S) Release(lock interface{}, write bool) {
	st := s.lockOf(lock)
	if write {
		if st.writer != s.running {
			panic(fmt.Sprintf("sched: thread %d unlocks a lock held by %d", s.running, st.writer))
		}
		st.writer = -1
		return
	}
	if st.readers[s.running] == 0 {
		panic(fmt.Sprintf("sched: thread %d RUnlocks a lock it does not hold", s.running))
	}
	st.readers[s.running]--
	if st.readers[s.running] == 0 {
		delete(st.readers, s.running)
	}
}

// IO is installed as refsmtp.Conn.Hook.
func (s *S) IO(what string) {
	if s.running < 0 {
		return // called outside a scheduled thread (set-up)
	}
	s.point(event{kind: opIO, what: what})
}

func (s *S) writerWaiting(lock interface{}) bool {
	for _, t := range s.threads {
		if !t.done && t.pending.kind == opLock && t.pending.lock == lock && t.pending.write && t.announced {
			return true
		}
	}
	return false
}

// grantable reports whether the pending lock operation of t can complete now.
func (s *S) grantable(t *thread) bool {
	st := s.lockOf(t.pending.lock)
	if t.pending.write {
		return st.writer == -1 && len(st.readers) == 0
	}
	// Go's RWMutex: a reader is admitted unless a writer holds the lock or has announced itself
	return st.writer == -1 && !s.writerWaiting(t.pending.lock)
}

func (s *S) enabled(t *thread) bool {
	if t.done {
		return false
	}
	if t.pending.kind == opLock && t.announced {
		return s.grantable(t)
	}
	return true // start, I/O, and the call of Lock()/RLock() itself
}

func (s *S) describe(t *thread) string {
	switch t.pending.kind {
	case opLock:
		m := "r"
		if t.pending.write {
			m = "w"
		}
		return fmt.Sprintf("t%d:lock#%d%s", t.id, s.lockIDs[t.pending.lock], m)
	case opIO:
		return fmt.Sprintf("t%d:%s", t.id, t.pending.what)
	case opStart:
		return fmt.Sprintf("t%d:start", t.id)
	}
	return fmt.Sprintf("t%d:?", t.id)
}

// Run executes the bodies as scheduled threads and returns when all finished, deadlocked or timed out.
func (s *S) Run(bodies []func()) {
	vsync.S = s
	defer func() { vsync.S = nil }()
	for i, b := range bodies {
		t := &thread{id: i, resume: make(chan struct{}), pending: event{kind: opStart}}
		s.threads = append(s.threads, t)
		b := b
		go func() {
			<-t.resume
			defer func() {
				if e := recover(); e != nil {
					buf := make([]byte, 4096)
					buf = buf[:runtime.Stack(buf, false)]
					t.panicked = fmt.Sprintf("%v\n%s", e, buf)
				}
				t.done = true
				t.pending = event{kind: opDone}
				s.events <- t.id
			}()
			b()
		}()
	}
	for {
		var en []*thread
		allDone := true
		for _, t := range s.threads {
			if !t.done {
				allDone = false
			}
			if s.enabled(t) {
				en = append(en, t)
			}
		}
		if allDone {
			return
		}
		if len(en) == 0 {
			var w []string
			for _, t := range s.threads {
				if !t.done {
					w = append(w, s.describe(t))
				}
			}
			s.Deadlock = "no thread can run: " + strings.Join(w, ", ")
			return // parked goroutines are abandoned (they hold no OS resources)
		}
		// canonical order: the running thread first if it is still enabled, then ascending ids
		cost := 0
		order := en
		if s.running >= 0 {
			for i, t := range en {
				if t.id == s.running {
					order = append([]*thread{t}, append(append([]*thread{}, en[:i]...), en[i+1:]...)...)
					cost = 1 // switching away from a runnable thread is a preemption
				}
			}
		}
		pick := 0
		if len(order) > 1 {
			pick = s.c.ChooseCost(s.describe(order[0]), len(order), cost)
		}
		t := order[pick]
		if pick != 0 && cost == 1 {
			s.Preempts++
		}
		s.Steps++
		if len(s.Trace) < 4000 {
			s.Trace = append(s.Trace, s.describe(t))
		}
		if t.pending.kind == opLock && !t.announced {
			// the thread calls Lock()/RLock(): it either gets the lock at once or announces itself and waits
			t.announced = true
			if !s.grantable(t) {
				// it now waits inside Lock(); (for a writer: new readers are held back from here on)
				s.running = -1
				continue
			}
		}
		if t.pending.kind == opLock {
			st := s.lockOf(t.pending.lock)
			if t.pending.write {
				st.writer = t.id
			} else {
				st.readers[t.id]++
			}
		}
		t.pending = event{kind: opStart}
		t.announced = false
		s.running = t.id
		t.resume <- struct{}{}
		if s.timer == nil {
			s.timer = time.NewTimer(StepTimeout)
		} else {
			if !s.timer.Stop() {
				select {
				case <-s.timer.C:
				default:
				}
			}
			s.timer.Reset(StepTimeout)
		}
		select {
		case <-s.events:
		case <-s.timer.C:
			s.Timeout = fmt.Sprintf("thread %d did not reach its next scheduling point within the step timeout after %s (uncontrolled blocking)", t.id, s.Trace[len(s.Trace)-1])
			return
		}
		if t.done {
			s.running = -1
		}
	}
}

// Panics returns the panic texts of threads that panicked.
func (s *S) Panics() []string {
	var p []string
	for _, t := range s.threads {
		if t.panicked != "" {
			p = append(p, t.panicked)
		}
	}
	return p
}
