#!/bin/bash
# Applies every mutant of /verif/mutants to /repo (working tree only, reverted afterwards), runs the checks that
# are expected to catch it and records the outcome in mutants/RESULTS.md.
#   usage: tools/run_mutants.sh [--baseline] [pattern]
# With --baseline the repository's own test suite is run on each mutant as well (slow).
set -u
V=/verif; R=${MUT_REPO:-/repo}
# MUT_REPO=<worktree of /repo> runs the whole experiment on a private copy (own work dir), leaving /repo free
if [ "$R" != /repo ]; then export VERIF_REPO=$R VERIF_WORKDIR=$V/.work-mut VERIF_OUT_DIR=$V/.work-mut/out; mkdir -p $V/.work-mut/out; fi
export GOFLAGS=-mod=mod GOPROXY=off GOSUMDB=off GOTOOLCHAIN=local
BASE=0; PAT=""
for a in "$@"; do case "$a" in --baseline) BASE=1;; *) PAT="$a";; esac; done
if [ -n "$(git -C $R status --porcelain)" ]; then echo "/repo working tree is not clean"; exit 2; fi
OUT=$V/mutants/RESULTS.md
TMP=$(mktemp)
echo "| mutant | property | build | own tests | check | verdict | keys reported |" > $TMP
echo "|---|---|---|---|---|---|---|" >> $TMP
miss=0; n=0
for d in $V/mutants/*${PAT}*.diff; do
  id=$(basename $d .diff)
  prop=$(jq -r --arg i "$id" '.[$i].property' $V/mutants/mutants.json)
  checks=$(jq -r --arg i "$id" '.[$i].expected_checks|join(" ")' $V/mutants/mutants.json)
  if ! git -C $R apply --check $d 2>/dev/null; then echo "| $id | $prop | does not apply | | | STALE | |" >> $TMP; continue; fi
  git -C $R apply $d
  b=ok; (cd $R && go build ./... 2>/dev/null) || b=FAIL
  t="-"
  if [ $BASE = 1 ] && [ $b = ok ]; then if $V/tools/baseline.sh $R >/dev/null 2>&1; then t=pass; else t=FAIL; fi; fi
  for c in $checks; do
    n=$((n+1))
    if [ $b != ok ]; then echo "| $id | $prop | $b | $t | $c | NOT-COMPILING | |" >> $TMP; continue; fi
    o=$($V/run $c quick 2>&1); rc=$?
    keys=$(echo "$o" | grep "detail: key=" | sed 's/.*detail: key=\([^ ]*\).*/\1/' | head -3 | tr '\n' ' ')
    if [ $rc = 1 ] && echo "$o" | grep -q "^VIOLATION property=$c"; then v=caught; else v="MISSED(rc=$rc)"; [ "$c" = "$prop" ] && miss=$((miss+1)); fi
    echo "| $id | $prop | $b | $t | $c | $v | $keys |" >> $TMP
    echo "$id $c $v"
  done
  git -C $R checkout -- . && git -C $R clean -fdq
done
{ echo "# Mutant run $(date -u +%FT%TZ) on /repo $(git -C $R log --format=%h -1) — $n check runs, $miss misses by the owning property's check"; echo; cat $TMP; } > $OUT
rm -f $TMP
echo "done: $miss misses"; exit 0
