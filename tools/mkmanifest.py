#!/usr/bin/env python3
"""Writes /verif/MANIFEST.json from the table below (single source of truth for what is claimed)."""
import json, os, sys
V = os.path.dirname(os.path.dirname(os.path.abspath(__file__)))
E1 = "E1 deviation-bounded stateless exploration of environment choice points (reply scripts / faults) on the real Client against a lock-step reference SMTP automaton"
E2 = "E2 preemption-bounded exhaustive schedule exploration under a cooperative scheduler owning every mutex operation and connection I/O"
E3 = "E3 bounded-exhaustive enumeration of builder programs / inputs (small-scope) judged by independent reference readers"
CHECKS = {
 # id: (engine, technique, level text, level_note, design_ref)
 "C03": ("E1", "stateless model checking: deviation-bounded enumeration of producer faults, transport faults and reply scripts on the real Send path; oracle = server commit log vs reference rendering",
         "Every vector of <=2 (quick) / <=3 (thorough) deviations over producer faults (each part/embed/attachment: before first byte, after half), transport failure at 5 offset classes of each DATA phase and server replies at NOOP/MAIL/RCPT/DATA/end-of-data/RSET is executed; the reference server's commit log must contain only complete renderings, IsDelivered must equal the 2yz acknowledgement.",
         "Trusts refsmtp (dot-unstuffing, commit log) and that WriteTo on the same Msg after Send is the reference rendering (C11); batches <=3; four message shapes.", "§4 C03"),
 "C04": ("E1", "stateless model checking: exhaustive reply-script enumeration up to a deviation bound, lock-step reference automaton + protocol monitor",
         "Every reply script with <=k deviations (k=1 on all client×capability configurations, k=2/3 on 8 deep ones; thorough k=2 everywhere) is executed on the real Client; a strict RFC 5321 monitor judges every command and every client-reported error is traced back to the tagged reply that caused it.",
         "Trusts the reference automaton (refsmtp) and the synchronous fake connection; batches <=3x3; no PIPELINING; bounded deviations.", "§4 C04"),
 "C12": ("E1", "exhaustive fault enumeration: sink failure at every byte offset x 2 styles x first/second render, every producer x 3 failure points, on 14 message shapes",
         "Complete per shape: every byte offset of the output is a failure point; the oracle (no panic, error iff fault, count = bytes accepted) is checked on each.",
         "14 shapes stand for all shapes; sinks honour the io.Writer contract; S/MIME shapes at every third offset in quick.", "§4 C12"),
 "C15": ("E1", "explicit enumeration of all server message sequences up to length 5 (quick) / 6 (thorough) over the 10-symbol alphabet, reference SCRAM automaton as oracle",
         "All sequences are driven through smtp.Client.Auth for 4 SCRAM variants; the reference automaton (own RFC 5802 implementation, self-tested on RFC vectors) decides which successes are legitimate and whether an acknowledgement was due.",
         "Trusts the harness SCRAM implementation (validated on RFC 5802/7677 vectors); PLUS variants on a fabricated TLS 1.2 state here (real TLS in C14).", "§4 C15"),
 "C16": ("E1", "deviation-bounded enumeration of server scripts at every AUTH step x mechanism x credential x logger; log scanned for the secret and its encodings",
         "All scripts with <=3 (quick) / <=6 (thorough) deviations over {conforming, 535, non-base64 challenge, extra challenge, drop}; with WithLogAuthData as positive control of the scanner; post-authentication traffic must be logged verbatim.",
         "Needle set = raw secret, base64/url-base64/hex forms, exact SASL response; user names are not secrets.", "§4 C16"),
 "C17": ("E1", "exhaustive stall-point enumeration with a logical (clock-free) oracle on connection deadlines",
         "One stall at every command position x TLS mode x auth class x entry point (incl. Send after an idle hour, write-side stall, stall inside the TLS handshake); the fake connection knows when the client blocks on a silent peer and which deadline is armed.",
         "Assumes net.Conn deadline semantics; does not wait in real time (no flakiness); caller context is not counted as a bound.", "§4 C17"),
 "C19": ("E1", "deviation-bounded enumeration of failing replies (4yz/5yz/drop/garbage) at every step x TLS policy x handshake behaviour x auth type; oracle on Close() of the handed-out connection",
         "All scripts with <=2 (quick) / <=3 (thorough) deviations across 4 TLS policies incl. implicit TLS and real crypto/tls handshakes (ok / wrong-name cert / garbage / drop) and 10 auth classes.",
         "'Closed' = Close called on the connection returned by the dial function (or a TLS wrapper of it).", "§4 C19"),
 "C20": ("E1", "exhaustive enumeration: every reply code 400..599 x 5 text kinds x every failing position x failing message x ESC advertised or not, plus pairs of failing messages; reference function as oracle",
         "The full product is executed on the real Send path of a 3x3 batch and compared with a reference function of the replies actually sent.",
         "Rejected-recipient list read from SendError.Error(); refsmtp trusted.", "§4 C20"),
 "C01": ("E3", "bounded-exhaustive enumeration of builder programs (0..3 parts x 0..2 embeds x 0..2 attachments x encodings x content alphabets) re-read by an independent MIME reader and compared with a reference model leaf by leaf",
         "Every program of the small scope is rendered by the real code and parsed by a reader that shares no code with Go's mime packages; contents rotate through alphabets that hit every wrap point and shortcut; every single byte value in every encoding.",
         "Trusts harness/mimeread (strict RFC 2045/2046 splitter, own QP/base64 decoders); media types of files from mime.TypeByExtension.", "§4 C01"),
 "C02": ("E3", "bounded-exhaustive input enumeration (every byte at 3 positions, all 2-/3-grams over 16 dangerous symbols, boundary lengths) per text-accepting setter x shape x encoder, with a differential oracle against the same message built with a benign value",
         "14 setters x ~1000 (quick) / ~5000 (thorough) hostile values x 3 shapes x 2 encoders plus setter pairs; the field-name multiset of every header section and all bodies must equal the benign rendering and the value must decode back.",
         "Differential baseline assumes the benign value renders correctly (C01); *Preformatted setters excluded by contract.", "§4 C02"),
 "C08": ("E3", "bounded-exhaustive enumeration of message shapes x modifiers x key types x 3 consecutive renders x map-iteration starts; every output verified by an independent CMS verifier",
         "All 35 non-empty part/embed/attachment count combinations x encodings x 7 header modifiers, ECDSA and RSA, with/without intermediate; digest of the first part as emitted and signature over the DER SET of signed attributes are recomputed by harness/cmsverify (validated against OpenSSL vectors).",
         "Content in canonical CRLF form; map order owned through the runtime overlay seam.", "§4 C08"),
 "C11": ("E1", "exhaustive enumeration of operation histories: all sequences of length 2..3 (thorough ..4) over 9 render operations x shapes x file sources x encodings x map-iteration start per operation; oracle = byte equality with the first output",
         "Histories are executed on fresh real messages (Date/Message-ID/boundaries generated by go-mail); Go's map-iteration randomness is owned by a runtime seam and enumerated; the Send path is compared through the reference server's commit log.",
         "Runtime map.go overlay seam (falls back to non-exhaustive if the toolchain differs); S/MIME compares the signed entity.", "§4 C11"),
 "C18": ("E3", "bounded-exhaustive enumeration of header word-length combinations and of ALL ways to split a producer's output (every <=2/3 cut set, every uniform chunk size, all 2^12 splittings of 13 blocks) for every content length 0..200; independent line scanner as oracle",
         "~380k (quick) renderings; each is scanned for CRLF-only, 76/78 limits, unfold identity and decode identity.",
         "Contents are generated patterns, not arbitrary bytes (C01 covers byte values).", "§4 C18"),
 "C05": ("E3", "bounded-exhaustive input enumeration: all local parts of length 1..3 over a 14-symbol hostile alphabet, bare and quoted, x domains x 8 setters; HELO names, credentials, DSN combinations; every command line judged by the strict RFC 5321 parser of the reference server",
         "~95k sends; the reverse/forward path parsed from the wire must denote the mailbox the caller set (own RFC 5322 reading of the input) or nothing is sent.",
         "refsmtp path grammar written from RFC 5321/6531; bare non-dot-atom inputs are judged for line discipline only.", "§4 C05"),
 "C06": ("E3", "exhaustive enumeration of ALL operation sequences of length 0..3 (thorough 0..4) over 31 concrete address-setting operations against a reference model, followed by render and send",
         "31^3 = 30k (thorough 31^4 = 950k) programs; reference model resynchronised from getters only where the property is silent; envelope checked in the reference server's commit, header parsed back by the harness' own address-list parser, Bcc-only addresses searched in every rendered byte.",
         "Operations use a fixed pool of addresses (quoted names, RFC 2047 names, duplicates, invalid).", "§4 C06"),
 "C07": ("E1", "exhaustive configuration x server-behaviour product (policy x 13 auth types x host kind x STARTTLS advertisement/reply x handshake kind x advertised AUTH list) with real crypto/tls handshakes; oracle on a byte tap of cleartext vs TLS bytes",
         "Full product (~6.9k configurations) incl. implicit TLS through go-mail's own TLS dialer over a loopback bridge, wrong-name / untrusted / garbage handshakes and plaintext injection after STARTTLS.",
         "Server-side completed handshake implies the client accepted the certificate; implicit TLS only against 127.0.0.1.", "§4 C07"),
 "C09": ("E3", "bounded-exhaustive input enumeration (all strings <=6 over a 9-symbol alphabet; all single and pairs of 12 slot mutations over 8 seeds; failing/one-byte readers at every offset) with a panic/termination oracle",
         "~1.2M parses in quick; every slot of every seed is mutated alone and in pairs.",
         "Termination decided by a 30 s watchdog per case.", "§4 C09"),
 "C10": ("E3", "bounded-exhaustive enumeration of builder programs within the parser's feature set; three-way comparison model = independent reading of the rendering = getters of the parsed Msg = independent reading of the re-rendering",
         "Programs over shapes x encodings x contents x file names x subjects x display names.",
         "Skips programs whose first rendering already violates C01.", "§4 C10"),
 "C13": ("E2", "stateless model checking of schedules: preemption-bounded exhaustive exploration (bound 2, thorough 3) of 6 thread scenarios under a cooperative scheduler that owns every mutex operation (sync shim via build overlay) and every connection I/O; separate free-running -race pass",
         "All interleavings up to the bound are executed on the real Client/smtp.Client code; Go's RWMutex writer-preference is modelled so deadlocks are detected as 'no enabled thread'.",
         "Race clause is sampled by the Go race detector in a separate pass (stated in evidence.race_pass); releases are not preemption points.", "§4 C13"),
 "C14": ("E3", "bounded-exhaustive enumeration of credential strings (all strings <=2/3 over an 8-symbol alphabet incl. ',', '=', SP, non-ASCII, control) x mechanisms against reference SASL verifiers written from the RFCs; SCRAM parameter sweeps; PLUS over real TLS 1.2/1.3",
         "~42k exchanges (quick); verifiers self-tested on RFC 5802/7677/2195/4616/6070 vectors; channel binding compared with the server's own view of the TLS connection.",
         "Admissible-credential predicate per mechanism (stated in evidence); SASLprep vs PRECIS restricted to strings where they agree.", "§4 C14"),
}
NOT_YET = {}
def main():
    props = [json.loads(l) for l in open(os.path.join(V, "properties.jsonl"))]
    checks, na = [], []
    for p in props:
        pid = p["id"]
        if pid in CHECKS:
            eng, tech, text, note, ref = CHECKS[pid]
            checks.append({
                "property_id": pid,
                "quick_cmd": f"./run {pid} quick",
                "thorough_cmd": f"./run {pid} thorough",
                "evidence_file": f"/verif/evidence/{pid}.json",
                "replay_cmd_template": "./run replay {path}",
                "engine": eng,
                "level_claimed": {"category": "model_checking", "text": text, "design_ref": ref},
                "level_note": note,
                "technique": tech,
            })
        else:
            na.append({"property_id": pid, "reason": NOT_YET.get(pid, "check not built yet in this round (planned, see DESIGN.md §4); not claimed until it runs clean")})
    man = {
        "version": 1,
        "setup_cmd": "./run setup",
        "hooks": {
            "guard": "verif",
            "enable": "no guarded source in /repo: instrumentation is injected with `go build -overlay` generated by tools/genoverlay.py from /repo's working tree on every check (sync→verifshim/vsync import rewrite; runtime map-iteration seam)",
            "baseline_off_cmd": "cd /repo && GOFLAGS=-mod=mod GOPROXY=off GOSUMDB=off go test -json -vet=off -count=1 -timeout 25m ./...",
            "source_commits": [],
            "add_only": True,
        },
        "engines": [
            {"name": "E1", "path": "harness/vf/explore.go", "serves_properties": ["C03","C04","C07","C11","C12","C15","C16","C17","C19","C20"], "kind_free_text": E1},
            {"name": "E2", "path": "harness/sched", "serves_properties": ["C13"], "kind_free_text": E2},
            {"name": "E3", "path": "harness/checks", "serves_properties": ["C01","C02","C05","C06","C08","C09","C10","C14","C18"], "kind_free_text": E3},
        ],
        "checks": checks,
        "not_applicable": na,
        "notes": "All checks: ./run <ID> quick|thorough; rebuilds the harness against /repo's working tree with a generated build overlay. Known findings: findings/known.txt. Replays: ./run replay <path>.",
    }
    json.dump(man, open(os.path.join(V, "MANIFEST.json"), "w"), indent=1)
    print("MANIFEST.json:", len(checks), "checks,", len(na), "not claimed")
if __name__ == "__main__":
    main()
