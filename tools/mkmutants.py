#!/usr/bin/env python3
"""Generates /verif/mutants/<id>.diff — deliberate property-breaking changes of go-mail used to show that the
checks detect breakage (each must compile; whether the repository's own tests still pass is recorded by
run_mutants.sh). Every mutant is a list of exact-text replacements against /repo's current HEAD, so that a
drifted tree is noticed (the old text must occur exactly once)."""
import os, subprocess, sys, tempfile, shutil, json

REPO = "/repo"
OUT = os.path.join(os.path.dirname(os.path.dirname(os.path.abspath(__file__))), "mutants")

# id: (property, [checks expected to catch it], description, [(file, old, new), ...])
M = {
 "C01-b64-linebreak-off-by-one": ("C01", ["C01", "C18"], "base64LineBreaker flushes one byte late (<= instead of <)",
   [("b64linebreaker.go", "if l.used+len(data) < MaxBodyLength {", "if l.used+len(data) <= MaxBodyLength {")]),
 "C01-swap-embeds-attachments": ("C01", ["C01"], "attachments are emitted where embeds belong and vice versa when both exist",
   [("msgwriter.go", "\tmw.addFiles(msg.embeds, false)\n", "\tmw.addFiles(msg.attachments, false)\n"), ("msgwriter.go", "\tmw.addFiles(msg.attachments, true)\n", "\tmw.addFiles(msg.embeds, true)\n")]),
 "C01-related-needs-two-embeds": ("C01", ["C01"], "hasRelated only for more than one embed",
   [("msg.go", "return m.pgptype == 0 && ((m.bodyPartCount() > 0 && len(m.embeds) > 0) || len(m.embeds) > 1)", "return m.pgptype == 0 && len(m.embeds) > 1")]),
 "C01-drop-linebreaker-close": ("C01", ["C01", "C18"], "base64 line breaker is not flushed: the last partial line is lost",
   [("msgwriter.go", "\terr = lineBreaker.Close()\n", "\terr = nil\n")]),
 "C02-filename-not-sanitised-in-name-param": ("C02", ["C02"], "name= parameter of Content-Type uses the raw file name",
   [("msgwriter.go", "mw.encoder.Encode(mw.charset.String(), sanitizeFilename(file.Name))))\n\t\t}\n\n\t\tif _, ok := file.getHeader(HeaderContentTransferEnc)", "mw.encoder.Encode(mw.charset.String(), file.Name)))\n\t\t}\n\n\t\tif _, ok := file.getHeader(HeaderContentTransferEnc)")]),
 "C02-genheader-not-encoded": ("C02", ["C02"], "SetGenHeader stores values without RFC 2047 encoding",
   [("msg.go", "\t\tvalues[i] = m.encodeString(val)\n", "\t\tvalues[i] = val\n")]),
 "C02-part-description-raw": ("C02", ["C02"], "part description written verbatim again",
   [("msgwriter.go", "contentDescription := mw.encoder.Encode(mw.charset.String(), part.description)", "contentDescription := part.description")]),
 "C03-delivered-before-close": ("C03", ["C03"], "isDelivered is set before the end-of-data reply is read",
   [("client.go", "\tif err = writer.Close(); err != nil {\n", "\tmessage.isDelivered = true\n\tif err = writer.Close(); err != nil {\n")]),
 "C03-ignore-writeto-error": ("C03", ["C03"], "an error of Msg.WriteTo during DATA is ignored",
   [("client.go", "\t_, err = message.WriteTo(writer)\n\tif err != nil {", "\t_, err = message.WriteTo(writer)\n\tif err != nil && false {")]),
 "C03-no-abort-after-render-failure": ("C03", ["C03"], "connection is kept after a mid-DATA render failure (the fix removed)",
   [("client.go", "\t\t_ = client.Close()\n\t\treturn &SendError{\n\t\t\tReason: ErrWriteContent", "\t\treturn &SendError{\n\t\t\tReason: ErrWriteContent")]),
 "C04-ext-survives-failed-ehlo": ("C04", ["C04"], "HELO fallback keeps the extension map of an earlier EHLO",
   [("smtp/smtp.go", "\tc.mutex.Lock()\n\tc.ext = nil\n\tc.mutex.Unlock()\n\n\t_, _, err := c.cmd(250, \"HELO %s\", c.localName)", "\t_, _, err := c.cmd(250, \"HELO %s\", c.localName)")]),
 "C04-body-8bitmime-unconditional": ("C04", ["C04"], "BODY=8BITMIME is always added to MAIL FROM",
   [("smtp/smtp.go", "\t\tif _, ok := c.ext[\"8BITMIME\"]; ok {\n\t\t\tcmdStr += \" BODY=8BITMIME\"\n\t\t}", "\t\tcmdStr += \" BODY=8BITMIME\"")]),
 "C04-no-rset-after-rcpt-failure": ("C04", ["C04"], "no RSET after a refused recipient",
   [("client.go", "\tif hasError {\n\t\tif resetSendErr := client.Reset(); resetSendErr != nil {\n\t\t\trcptSendErr.errlist = append(rcptSendErr.errlist, resetSendErr)\n\t\t\t// The server state is unknown, the transaction might still be open\n\t\t\t_ = client.Close()\n\t\t}\n\t\treturn rcptSendErr", "\tif hasError {\n\t\treturn rcptSendErr")]),
 "C04-skip-8bitmime-precheck": ("C04", ["C04"], "8bit messages are sent although 8BITMIME is missing",
   [("client.go", "\tif message.encoding == NoEncoding {\n\t\tif ok, _ := client.Extension(\"8BITMIME\"); !ok {", "\tif message.encoding == NoEncoding && false {\n\t\tif ok, _ := client.Extension(\"8BITMIME\"); !ok {")]),
 "C04-data-despite-refused-rcpt": ("C04", ["C04", "C20"], "DATA is sent when at least one recipient was accepted",
   [("client.go", "\t\t\thasError = true\n", "\t\t\thasError = len(rcptSendErr.rcpt) == len(rcpts)\n")]),
 "C05-rcpt-not-validated": ("C05", ["C05"], "validateLine removed from Rcpt",
   [("smtp/smtp.go", "func (c *Client) Rcpt(to string) error {\n\tif err := validateLine(to); err != nil {\n\t\treturn err\n\t}\n", "func (c *Client) Rcpt(to string) error {\n")]),
 "C05-no-quoting-for-rcpt": ("C05", ["C05"], "forward-paths are sent unquoted again (sender still quoted)",
   [("client.go", "client.Rcpt(smtpMailbox(rcpt))", "client.Rcpt(rcpt)")]),
 "C05-quote-misses-semicolon": ("C05", ["C05"], "the dot-string test treats ';' and ':' as atext",
   [("client.go", "\"!#$%&'*+-/=?^_`{|}~.\"", "\"!#$%&'*+-/=?^_`{|}~.;:\"")]),
 "C06-bcc-rendered": ("C06", ["C06"], "Bcc is rendered with the other address headers",
   [("msgwriter.go", "[]AddrHeader{HeaderTo, HeaderCc, HeaderReplyTo}", "[]AddrHeader{HeaderTo, HeaderCc, HeaderBcc, HeaderReplyTo}")]),
 "C06-recipients-without-bcc": ("C06", ["C06"], "GetRecipients ignores Bcc",
   [("msg.go", "for _, addressType := range []AddrHeader{HeaderTo, HeaderCc, HeaderBcc} {", "for _, addressType := range []AddrHeader{HeaderTo, HeaderCc} {")]),
 "C06-addaddr-drops-last-but-one": ("C06", ["C06"], "addAddr loses an existing address when three or more are present",
   [("msg.go", "\tfor _, address := range m.addrHeader[header] {\n\t\taddresses = append(addresses, address.String())\n\t}\n\taddresses = append(addresses, addr)", "\tfor i, address := range m.addrHeader[header] {\n\t\tif i == 2 {\n\t\t\tcontinue\n\t\t}\n\t\taddresses = append(addresses, address.String())\n\t}\n\taddresses = append(addresses, addr)")]),
 "C07-mandatory-without-extension-continues": ("C07", ["C07"], "mandatory TLS silently continues in clear when STARTTLS is not advertised",
   [("client.go", "\t\t\thasStartTLS = true\n\t\t\tif !extension {\n\t\t\t\treturn fmt.Errorf(", "\t\t\thasStartTLS = extension\n\t\t\tif !extension && false {\n\t\t\t\treturn fmt.Errorf(")]),
 "C07-autodiscover-not-restricted": ("C07", ["C07"], "auto-discovery offers PLAIN/LOGIN on unencrypted connections",
   [("client.go", "\tif !isEnc {\n\t\tpreferList = []SMTPAuthType{SMTPAuthSCRAMSHA256, SMTPAuthSCRAMSHA1, SMTPAuthCramMD5}\n\t}", "")]),
 "C07-reuse-textproto-after-starttls": ("C07", ["C07"], "the buffered reader of the cleartext connection is kept after STARTTLS",
   [("smtp/smtp.go", "\tc.conn = tls.Client(c.conn, config)\n\tc.Text = textproto.NewConn(c.conn)\n", "\tc.conn = tls.Client(c.conn, config)\n\tc.Text.Writer = *textproto.NewWriter(bufio.NewWriter(c.conn))\n\tc.Text.Reader = *textproto.NewReader(bufio.NewReader(io.MultiReader(bufio.NewReader(strings.NewReader(drainBuffered(&c.Text.Reader))), c.conn)))\n"),
    ("smtp/smtp.go", "import (\n\t\"crypto/tls\"", "import (\n\t\"bufio\"\n\t\"crypto/tls\""),
    ("smtp/smtp.go", "// validateLine checks to see if a line has CR or LF as per RFC 5321.", "func drainBuffered(r *textproto.Reader) string {\n\tn := r.R.Buffered()\n\tb, _ := r.R.Peek(n)\n\treturn string(b)\n}\n\n// validateLine checks to see if a line has CR or LF as per RFC 5321.")]),
 "C07-plainauth-allows-unencrypted": ("C07", ["C07"], "PLAIN over cleartext to non-localhost hosts is no longer refused",
   [("smtp/auth_plain.go", "if !a.allowUnencryptedAuth && !server.TLS && !isLocalhost(server.Name) {", "if !a.allowUnencryptedAuth && !server.TLS && !isLocalhost(server.Name) && server.Name == \"\" {")]),
 "C08-headercount-reset-missing": ("C08", ["C08"], "headerCount is not reset after WriteTo: second render signs from a wrong offset",
   [("msg.go", "\tmw.writeMsg(msg)\n\tm.headerCount = 0\n\treturn mw.bytesWritten, mw.err", "\tmw.writeMsg(msg)\n\treturn mw.bytesWritten, mw.err")]),
 "C08-empty-header-counted": ("C08", ["C08"], "value-less headers are counted again",
   [("msgwriter.go", "\t\t// The S/MIME signing relies on the exact number of written header lines.\n\t\treturn lines\n", "\t\treturn lines + 1\n")]),
 "C08-prerender-folds": ("C08", ["C08"], "S/MIME pre-render folds top-level part headers again",
   [("msg.go", "encoder: m.encoder, rawPartHeader: true}", "encoder: m.encoder}")]),
 "C09-filename-slice-unguarded": ("C09", ["C09"], "filename quotes stripped without length check",
   [("eml.go", "\t\tif len(name) >= 2 && name[0] == '\"' && name[len(name)-1] == '\"' {\n\t\t\tname = name[1 : len(name)-1]\n\t\t}", "\t\tname = name[1 : len(name)-1]")]),
 "C09-content-type-index-unguarded": ("C09", ["C09"], "multipart Content-Type header indexed without presence check",
   [("eml.go", "\t\tmultiPartContentType, ok := multiPart.Header[HeaderContentType.String()]\n\t\tif !ok {\n\t\t\treturn fmt.Errorf(\"failed to get content-type from part\")\n\t\t}", "\t\tmultiPartContentType := multiPart.Header[HeaderContentType.String()]")]),
 "C10-charset-not-transferred": ("C10", ["C10"], "parsed parts lose their charset",
   [("eml.go", "\t\tif charset, ok := optional[\"charset\"]; ok {\n\t\t\tpart.SetCharset(Charset(charset))\n\t\t}", "\t\tif charset, ok := optional[\"charset\"]; ok && false {\n\t\t\tpart.SetCharset(Charset(charset))\n\t\t}")]),
 "C10-inline-classified-as-attachment": ("C10", ["C10"], "inline parts are parsed as attachments",
   [("eml.go", "\tcase \"inline\":\n\t\tif contentID, _ :=", "\tcase \"inline-disabled\":\n\t\tif contentID, _ :="), ("eml.go", "\tcase \"attachment\":\n\t\tif err := msg.AttachReader", "\tcase \"attachment\", \"inline\":\n\t\tif err := msg.AttachReader")]),
 "C10-nested-alternative-readded": ("C10", ["C10"], "nested multipart/alternative is added as body part again",
   [("eml.go", "\t\tif strings.EqualFold(contentType, TypeMultipartRelated.String()) ||\n\t\t\tstrings.EqualFold(contentType, TypeMultipartAlternative.String()) {\n\t\t\t// The nested", "\t\tif strings.EqualFold(contentType, TypeMultipartRelated.String()) {\n\t\t\t// The nested")]),
 "C11-reader-not-rewound": ("C11", ["C11"], "fileFromReader does not seek back after a render",
   [("msg.go", "\t\t\t_, copyErr = byteReader.Seek(0, io.SeekStart)\n\t\t\treturn readBytes, copyErr", "\t\t\treturn readBytes, copyErr")]),
 "C11-message-id-regenerated": ("C11", ["C11"], "a new Message-ID is generated on every render",
   [("msg.go", "\tif _, ok := m.genHeader[HeaderMessageID]; !ok {\n\t\tm.SetMessageID()\n\t}", "\tm.SetMessageID()")]),
 "C11-boundary-cache-cleared": ("C11", ["C11"], "the multipart boundary cache is dropped after every render",
   [("msg.go", "\tmw.writeMsg(msg)\n\tm.headerCount = 0\n\treturn mw.bytesWritten, mw.err", "\tmw.writeMsg(msg)\n\tm.headerCount = 0\n\tm.multiPartBoundary = make(map[MIMEType]string)\n\treturn mw.bytesWritten, mw.err")]),
 "C11-preformatted-unsorted": ("C11", ["C11", "C08"], "preformatted headers in map order again",
   [("msgwriter.go", "\tsort.Strings(keys)\n\tfor _, key := range keys {\n\t\tline := fmt.Sprintf(\"%s: %s%s\", key, msg.preformHeader[Header(key)], SingleNewLine)", "\tfor _, key := range keys {\n\t\tline := fmt.Sprintf(\"%s: %s%s\", key, msg.preformHeader[Header(key)], SingleNewLine)")]),
 "C11-file-encoding-from-default": ("C11", ["C11"], "cached file encoding ignored on re-render",
   [("msgwriter.go", "\t\t\tencoding = Encoding(cachedEncoding)\n", "\t\t\t_ = cachedEncoding\n")]),
 "C12-sticky-error-dropped": ("C12", ["C12"], "msgWriter.Write keeps writing after an error",
   [("msgwriter.go", "\tif mw.err != nil {\n\t\treturn 0, fmt.Errorf(\"failed to write due to previous error: %w\", mw.err)\n\t}\n\n\tvar n int", "\tvar n int")]),
 "C12-count-payload-length": ("C12", ["C12"], "byte count uses len(payload) instead of the accepted bytes",
   [("msgwriter.go", "\tn, mw.err = mw.writer.Write(payload)\n\tmw.bytesWritten += int64(n)", "\tn, mw.err = mw.writer.Write(payload)\n\tmw.bytesWritten += int64(len(payload))")]),
 "C12-stopmp-discards-error": ("C12", ["C12"], "stopMP overwrites an existing error with the result of Close on a fresh buffer",
   [("msgwriter.go", "\t\tmw.err = mw.multiPartWriter[mw.depth-1].Close()\n", "\t\t_ = mw.multiPartWriter[mw.depth-1].Close()\n\t\tmw.err = nil\n")]),
 "C12-writepart-unguarded": ("C12", ["C12"], "writeBody runs without a part writer again",
   [("msgwriter.go", "\tif mw.err == nil {\n\t\tmw.writeBody(part.writeFunc, part.encoding)\n\t}", "\tmw.writeBody(part.writeFunc, part.encoding)")]),
 "C13-no-send-mutex": ("C13", ["C13"], "Send no longer serialises on sendMutex",
   [("client.go", "\tc.sendMutex.Lock()\n\tdefer c.sendMutex.Unlock()\n\treturn c.SendWithSMTPClient(c.smtpClient, messages...)", "\treturn c.SendWithSMTPClient(c.smtpClient, messages...)")]),
 "C13-unlock-between-cmd-and-response": ("C13", ["C13"], "smtp.Client.cmd releases the mutex between writing the command and reading the reply",
   [("smtp/smtp.go", "\tc.Text.StartResponse(id)\n\tcode, msg, err := c.Text.ReadResponse(expectCode)", "\tc.mutex.Unlock()\n\tc.mutex.Lock()\n\tc.Text.StartResponse(id)\n\tcode, msg, err := c.Text.ReadResponse(expectCode)"),
    ("client.go", "\tc.sendMutex.Lock()\n\tdefer c.sendMutex.Unlock()\n\treturn c.SendWithSMTPClient(c.smtpClient, messages...)", "\treturn c.SendWithSMTPClient(c.smtpClient, messages...)")]),
 "C13-send-mutex-released-early": ("C13", ["C13"], "sendMutex is released before the transaction ends (only covers the connection check)",
   [("client.go", "\tc.sendMutex.Lock()\n\tdefer c.sendMutex.Unlock()\n\treturn c.SendWithSMTPClient(c.smtpClient, messages...)", "\tc.sendMutex.Lock()\n\tif err := c.checkConn(c.smtpClient); err != nil {\n\t\tc.sendMutex.Unlock()\n\t\treturn err\n\t}\n\tc.sendMutex.Unlock()\n\treturn c.SendWithSMTPClient(c.smtpClient, messages...)")]),
 "C14-scram-escape-order": ("C14", ["C14"], "SCRAM user name escaping replaces ',' before '=' (double escaping)",
   [("smtp/auth_scram.go", "\treplacer := strings.NewReplacer(\"=\", \"=3D\", \",\", \"=2C\")\n\tusername := replacer.Replace(a.username)", "\tusername := strings.ReplaceAll(a.username, \",\", \"=2C\")\n\tusername = strings.ReplaceAll(username, \"=\", \"=3D\")")]),
 "C14-scram-plus-biws": ("C14", ["C14"], "PLUS variants send c=biws instead of the channel binding",
   [("smtp/auth_scram.go", "\tif a.isPlus {\n\t\tmsgWithoutProof = []byte(\"c=\" + string(a.bindData) + \",r=\" + string(a.nonce))\n\t}", "")]),
 "C14-scram-nonce-reused": ("C14", ["C14"], "the client nonce is generated once per Auth object",
   [("smtp/auth_scram.go", "\tnonceBuffer := make([]byte, 24)\n\tif _, err := io.ReadFull(rand.Reader, nonceBuffer); err != nil {\n\t\treturn nil, fmt.Errorf(\"unable to generate client secret: %w\", err)\n\t}\n\ta.nonce = make([]byte, base64.StdEncoding.EncodedLen(len(nonceBuffer)))\n\tbase64.StdEncoding.Encode(a.nonce, nonceBuffer)", "\tif scramNonceCache == nil {\n\t\tnonceBuffer := make([]byte, 24)\n\t\tif _, err := io.ReadFull(rand.Reader, nonceBuffer); err != nil {\n\t\t\treturn nil, fmt.Errorf(\"unable to generate client secret: %w\", err)\n\t\t}\n\t\tscramNonceCache = make([]byte, base64.StdEncoding.EncodedLen(len(nonceBuffer)))\n\t\tbase64.StdEncoding.Encode(scramNonceCache, nonceBuffer)\n\t}\n\ta.nonce = append([]byte{}, scramNonceCache...)"),
    ("smtp/auth_scram.go", "func (a *scramAuth) reset() {", "var scramNonceCache []byte\n\nfunc (a *scramAuth) reset() {")]),
 "C14-plain-authzid-order": ("C14", ["C14"], "PLAIN sends user name in the authzid position",
   [("smtp/auth_plain.go", "resp := []byte(a.identity + \"\\x00\" + a.username + \"\\x00\" + a.password)", "resp := []byte(a.username + \"\\x00\" + a.identity + \"\\x00\" + a.password)")]),
 "C14-tls13-uses-tls-unique": ("C14", ["C14"], "channel binding always tls-unique when available (TLS 1.3 must use tls-exporter)",
   [("smtp/auth_scram.go", "if bindData == nil || connState.Version >= tls.VersionTLS13 {", "if bindData == nil {")]),
 "C15-no-nonce-prefix-check": ("C15", ["C15"], "server nonce is not checked against the client nonce",
   [("smtp/auth_scram.go", "if len(a.nonce) == 0 || !bytes.HasPrefix(combinedNonce, a.nonce) {", "if len(a.nonce) == 0 {")]),
 "C15-signature-compared-truncated": ("C15", ["C15"], "only the first 8 characters of the server signature are compared",
   [("smtp/auth_scram.go", "if !hmac.Equal(serverSignature, computedServerSignature) {", "if len(serverSignature) < 8 || !hmac.Equal(serverSignature[:8], computedServerSignature[:8]) {")]),
 "C15-verified-flag-survives-reset": ("C15", ["C15"], "serverVerified is not cleared by reset()",
   [("smtp/auth_scram.go", "\ta.iterations = 0\n\ta.serverVerified = false\n}", "\ta.iterations = 0\n}")]),
 "C15-success-without-verification": ("C15", ["C15"], "success accepted without a verified server signature again",
   [("smtp/auth_scram.go", "\tif started && !verified {", "\tif started && !verified && false {")]),
 "C16-redact-only-auth-line": ("C16", ["C16"], "only lines starting with AUTH are redacted (continuation responses are logged)",
   [("smtp/smtp.go", "\tif c.authIsActive {\n\t\tlogMsg = []interface{}{\"<SMTP auth data redacted>\"}", "\tif c.authIsActive && strings.HasPrefix(format+fmt.Sprint(args...), \"%sAUTH\") {\n\t\tlogMsg = []interface{}{\"<SMTP auth data redacted>\"}")]),
 "C16-window-never-closes": ("C16", ["C16"], "authIsActive is not reset after Auth returns",
   [("smtp/smtp.go", "\t\tif !c.logAuthData {\n\t\t\tc.authIsActive = false\n\t\t}", "\t\tif !c.logAuthData && false {\n\t\t\tc.authIsActive = false\n\t\t}")]),
 "C16-redaction-off-after-error-reply": ("C16", ["C16"], "a failure reply during AUTH switches redaction off for the rest of the exchange",
   [("smtp/smtp.go", "\tlogMsg = []interface{}{code, msg}\n\tif c.authIsActive && code >= 300 && code <= 400 {", "\tlogMsg = []interface{}{code, msg}\n\tif code >= 500 {\n\t\tc.authIsActive = false\n\t}\n\tif c.authIsActive && code >= 300 && code <= 400 {")]),
 "C17-no-deadline-before-noop": ("C17", ["C17"], "checkConn sends NOOP before extending the deadline again",
   [("client.go", "\tif err := client.UpdateDeadline(c.connTimeout); err != nil {\n\t\treturn ErrDeadlineExtendFailed\n\t}\n\n\tc.mutex.RLock()\n\tnoNoop := c.noNoop", "\tc.mutex.RLock()\n\tnoNoop := c.noNoop"), ("client.go", "\t\t\treturn ErrNoActiveConnection\n\t\t}\n\t}\n\treturn nil\n}\n\n// serverFallbackAddr", "\t\t\treturn ErrNoActiveConnection\n\t\t}\n\t}\n\tif err := client.UpdateDeadline(c.connTimeout); err != nil {\n\t\treturn ErrDeadlineExtendFailed\n\t}\n\treturn nil\n}\n\n// serverFallbackAddr")]),
 "C03-delivered-flag-survives-failed-conncheck": ("C03", ["C03"], "a Send failing its connection check leaves the delivered flag of an earlier Send (the fix removed)",
   [("client_120.go", "\t\t\tif message != nil {\n\t\t\t\tmessage.isDelivered = false\n\t\t\t}", "\t\t\tif message != nil && false {\n\t\t\t\tmessage.isDelivered = false\n\t\t\t}")]),
 "C04-connection-kept-after-missed-reply": ("C04", ["C04"], "the connection stays in use after a reply read timed out (the fix removed)",
   [("smtp/smtp.go", "\tif err != nil && errors.As(err, &netErr) && netErr.Timeout() {", "\tif err != nil && errors.As(err, &netErr) && netErr.Timeout() && false {")]),
 "C04-deadline-rearmed-per-message": ("C04", ["C04"], "missed-reply drop removed AND the deadline re-armed for every message of a batch (round-9 seed on the tree before the fix)",
   [("smtp/smtp.go", "\tif err != nil && errors.As(err, &netErr) && netErr.Timeout() {", "\tif err != nil && errors.As(err, &netErr) && netErr.Timeout() && false {"),
    ("client.go", "\tmessage.sendError = nil\n\tmessage.isDelivered = false\n", "\tmessage.sendError = nil\n\tmessage.isDelivered = false\n\t_ = client.UpdateDeadline(c.connTimeout)\n")]),
 "C12-silent-short-write-accepted": ("C12", ["C12"], "a write cut short without an error counts as a success again (the fix removed)",
   [("msgwriter.go", "\tif mw.err == nil && n < len(payload) {", "\tif mw.err == nil && n < len(payload) && false {")]),
 "C12-unknown-encoding-straight-to-destination": ("C12", ["C12"], "bodies with an encoding outside the constants are written past the buffer again (the fix removed)",
   [("msgwriter.go", "nor would a failing write be noticed\n\t\tencodedWriter = quotedprintable.NewWriter(&writeBuffer)", "nor would a failing write be noticed\n\t\tencodedWriter = quotedprintable.NewWriter(writer)")]),
 "C11-pgp-boundary-not-kept": ("C11", ["C11"], "the generated boundary of a PGP/MIME multipart is not remembered (the fix removed)",
   [("msgwriter.go", "\t\t\tpgpBoundary = msg.multiPartBoundary[mimePGP]\n", "\t\t\tpgpBoundary = \"\"\n")]),
 "C12-startmp-wipes-earlier-error": ("C12", ["C12"], "startMP overwrites a recorded error with the result of SetBoundary again (the fix removed)",
   [("msgwriter.go", "\t\tif err := multiPartWriter.SetBoundary(boundary); err != nil && mw.err == nil {\n\t\t\tmw.err = err\n\t\t}", "\t\tmw.err = multiPartWriter.SetBoundary(boundary)")]),
 "C12-writestring-short-write-accepted": ("C12", ["C12"], "writeString accepts a write cut short without an error again (the fix removed)",
   [("msgwriter.go", "\tif mw.err == nil && n < len(s) {", "\tif mw.err == nil && n < len(s) && false {")]),
 "C12-signing-prerender-error-ignored": ("C12", ["C12"], "the error of the rendering that is signed is ignored again (the fix removed)",
   [("msg.go", "\tif mw.err != nil {\n\t\t// What would be signed is not the complete message", "\tif mw.err != nil && false {\n\t\t// What would be signed is not the complete message")]),
 "C01-pgp-signed-double-semicolon": ("C01", ["C01"], "the media type of PGP/MIME signed messages ends in a semicolon again (the fix removed)",
   [("msgwriter.go", "`signed; protocol=\"application/pgp-signature\"`", "`signed; protocol=\"application/pgp-signature\";`")]),
 "C11-readseeker-not-rewound-after-failed-copy": ("C11", ["C11"], "a read-seeker file stays where a failed copy left it (the fix removed)",
   [("msg.go", "\t\t\t\t_, _ = reader.Seek(start, io.SeekStart)\n\t\t\t\treturn readBytes, err\n", "\t\t\t\treturn readBytes, err\n")]),
 "C17-deadline-times-thousand": ("C17", ["C17"], "deadline armed with timeout*1000",
   [("smtp/smtp.go", "c.conn.SetDeadline(time.Now().Add(timeout))", "c.conn.SetDeadline(time.Now().Add(timeout * 1000))")]),
 "C17-dial-deadline-cleared-after-greeting": ("C17", ["C17"], "the dial-phase deadline is cleared once the greeting was read",
   [("client.go", "\tif c.logger != nil {\n\t\tclient.SetLogger(c.logger)\n\t}", "\t_ = connection.SetDeadline(time.Time{})\n\tif c.logger != nil {\n\t\tclient.SetLogger(c.logger)\n\t}")]),
 "C18-header-limit-plus-seven": ("C18", ["C18"], "header folding limit raised by seven characters",
   [("msgwriter.go", "\tcharLength := MaxHeaderLength - 2\n", "\tcharLength := MaxHeaderLength + 5\n")]),
 "C18-trailing-blank-not-removed": ("C18", ["C18"], "blank before a folding CRLF is kept",
   [("msgwriter.go", "\tbufferString = strings.ReplaceAll(bufferString, fmt.Sprintf(\" %s\", SingleNewLine),\n\t\tSingleNewLine)\n", "")]),
 "C18-linebreaker-recursion-loses-chunk-boundary": ("C18", ["C18", "C01"], "base64 line breaker drops the excess bytes when a write straddles a line end exactly at 2x76",
   [("b64linebreaker.go", "\tn, err = l.Write(data[excess:]) // recurse", "\tif len(data)-excess == MaxBodyLength {\n\t\texcess++\n\t}\n\tn, err = l.Write(data[excess:]) // recurse")]),
 "C19-newclient-error-leaks": ("C19", ["C19"], "smtp.NewClient does not close the connection when the greeting is rejected",
   [("smtp/smtp.go", "\tif err != nil {\n\t\tif cerr := text.Close(); cerr != nil {", "\tif err != nil {\n\t\treturn nil, err\n\t}\n\tif err != nil {\n\t\tif cerr := text.Close(); cerr != nil {")]),
 "C19-no-close-after-auth-failure": ("C19", ["C19"], "connection leaked when AUTH fails during dial",
   [("client.go", "\tif err = c.auth(client, isEncrypted); err != nil {\n\t\t_ = client.Close()\n\t\treturn nil, err\n\t}", "\tif err = c.auth(client, isEncrypted); err != nil {\n\t\treturn nil, err\n\t}")]),
 "C19-quit-failure-leaks": ("C19", ["C19"], "Quit keeps the connection open when the server does not answer 221",
   [("smtp/smtp.go", "\t\tc.mutex.Lock()\n\t\t_ = c.Text.Close()\n\t\tc.isConnected = false\n\t\tc.mutex.Unlock()\n\t\treturn err\n\t}\n\tc.mutex.Lock()", "\t\treturn err\n\t}\n\tc.mutex.Lock()")]),
 "C20-temp-for-5yz": ("C20", ["C20"], "isTempError is true for 5yz",
   [("senderror.go", "\treturn err.Error()[0] == '4'", "\treturn err.Error()[0] == '5'")]),
 "C20-code-of-first-rejected-rcpt": ("C20", ["C20"], "error code/temporariness of the first instead of the last rejected recipient",
   [("client.go", "\t\t\trcptSendErr.isTemp = isTempError(err)\n\t\t\trcptSendErr.errcode = errorCode(err)\n\t\t\trcptSendErr.enhancedStatusCode = enhancedStatusCode(err, escSupport)", "\t\t\tif !hasError {\n\t\t\t\trcptSendErr.isTemp = isTempError(err)\n\t\t\t\trcptSendErr.errcode = errorCode(err)\n\t\t\t\trcptSendErr.enhancedStatusCode = enhancedStatusCode(err, escSupport)\n\t\t\t}")]),
 "C20-esc-support-ignored": ("C20", ["C20"], "enhanced status codes reported although the server did not advertise them",
   [("senderror.go", "\tif err == nil || !supported {", "\tif err == nil {")]),
 "C20-esc-regex-unanchored": ("C20", ["C20"], "enhanced status code matched anywhere in the reply text again",
   [("senderror.go", "`^\\d{3} ([245]\\.\\d{1,3}\\.\\d{1,3})\\b`", "`\\b(([245])\\.\\d{1,3}\\.\\d{1,3})\\b`")]),
}

def main():
    os.makedirs(OUT, exist_ok=True)
    only = set(sys.argv[1:])
    meta = {}
    for mid, (prop, checks, desc, reps) in sorted(M.items()):
        meta[mid] = {"property": prop, "expected_checks": checks, "description": desc}
        if only and mid not in only:
            continue
        tmp = tempfile.mkdtemp(prefix="mut-")
        try:
            subprocess.check_call(["git", "-C", REPO, "worktree", "add", "--detach", "-q", tmp, "HEAD"], stdout=subprocess.DEVNULL, stderr=subprocess.DEVNULL) if False else None
            # cheap copy of only the files we touch, diffed against HEAD with git
            files = sorted({f for f, _, _ in reps})
            ok = True
            contents = {}
            for f in files:
                contents[f] = subprocess.check_output(["git", "-C", REPO, "show", "HEAD:" + f], text=True)
            for f, old, new in reps:
                if contents[f].count(old) != 1:
                    print(f"!! {mid}: text not found exactly once in {f} ({contents[f].count(old)}×): {old[:60]!r}")
                    ok = False
                    break
                contents[f] = contents[f].replace(old, new)
            if not ok:
                continue
            diff = ""
            for f in files:
                a = os.path.join(tmp, "a_" + f.replace("/", "_"))
                b = os.path.join(tmp, "b_" + f.replace("/", "_"))
                open(a, "w").write(subprocess.check_output(["git", "-C", REPO, "show", "HEAD:" + f], text=True))
                open(b, "w").write(contents[f])
                p = subprocess.run(["diff", "-u", "--label", "a/" + f, "--label", "b/" + f, a, b], capture_output=True, text=True)
                diff += f"diff --git a/{f} b/{f}\n" + p.stdout
            with open(os.path.join(OUT, mid + ".diff"), "w") as fh:
                fh.write(f"# mutant {mid}: breaks {prop}; expected to be caught by {', '.join(checks)}\n# {desc}\n" + diff)
        finally:
            shutil.rmtree(tmp, ignore_errors=True)
    json.dump(meta, open(os.path.join(OUT, "mutants.json"), "w"), indent=1, sort_keys=True)
    print(f"{len(M)} mutants described; diffs in {OUT}")

if __name__ == "__main__":
    main()
