#!/usr/bin/env python3
"""Generate the `go build -overlay` description used by every check.

Reads /repo's *current working tree* (so an edited tree is what gets built) and writes, under
<workdir>/ov/:
  * a copy of every non-test .go file of go-mail that imports "sync", with that import rewritten to the
    virtual shim package github.com/wneessen/go-mail/verifshim/vsync  (scheduler seam, engine E2)
  * a copy of GOROOT/src/runtime/map.go with a seam that lets the harness pin the random start offset of
    map iteration (engine E1/E3 map-order choice point)
  * overlay.json mapping the real paths to these copies and /repo/verifshim/vsync/vsync.go to the shim source.
Nothing in /repo or GOROOT is modified.
usage: genoverlay.py <repo> <workdir> [extra.json ...]
Extra json files ({"Replace": {...}}) are merged last; used by the self-test mutant runner.
"""
import json, os, re, subprocess, sys

def main():
    repo, work = sys.argv[1], sys.argv[2]
    extras = sys.argv[3:]
    here = os.path.dirname(os.path.abspath(__file__))
    ov = os.path.join(work, "ov")
    os.makedirs(ov, exist_ok=True)
    replace = {}
    # 1. sync shim
    n = 0
    for root, dirs, files in os.walk(repo):
        dirs[:] = [d for d in dirs if not d.startswith(".") and d not in ("testdata", "assets", "verifshim")]
        for f in sorted(files):
            if not f.endswith(".go") or f.endswith("_test.go"):
                continue
            p = os.path.join(root, f)
            try:
                src = open(p, encoding="utf-8", errors="surrogateescape").read()
            except OSError:
                continue
            if not re.search(r'^\s*(?:import\s+)?"sync"\s*$', src, re.M):
                continue
            new = re.sub(r'^(\s*)(import\s+)?"sync"\s*$',
                         r'\1\2sync "github.com/wneessen/go-mail/verifshim/vsync"', src, flags=re.M)
            rel = os.path.relpath(p, repo).replace(os.sep, "__")
            dst = os.path.join(ov, "sync__" + rel + ".txt")
            with open(dst, "w", encoding="utf-8", errors="surrogateescape") as fh:
                fh.write(new)
            replace[p] = dst
            n += 1
    replace[os.path.join(repo, "verifshim", "vsync", "vsync.go")] = os.path.join(here, "..", "harness", "shim", "vsync.go.txt")
    replace[os.path.join(repo, "verifshim", "vsync", "vsync.go")] = os.path.normpath(replace[os.path.join(repo, "verifshim", "vsync", "vsync.go")])
    # 2. runtime map-iteration seam
    goroot = subprocess.check_output(["go", "env", "GOROOT"], text=True).strip()
    mp = os.path.join(goroot, "src", "runtime", "map.go")
    seam = False
    if os.path.exists(mp):
        src = open(mp).read()
        pat = "\t// decide where to start\n\tr := uintptr(rand())\n"
        if src.count(pat) == 1:
            src = src.replace(pat, pat + "\tif verifMapIterFixed >= 0 {\n\t\tr = uintptr(verifMapIterFixed)\n\t\tif verifMapIterSwitch > 0 {\n\t\t\tverifMapIterSwitch--\n\t\t\tif verifMapIterSwitch == 0 {\n\t\t\t\tverifMapIterFixed = verifMapIterNext\n\t\t\t}\n\t\t}\n\t}\n")
            src += ("\n// verifMapIterFixed, when >= 0, pins the pseudo-random start position of every map iteration.\n"
                    "// After verifMapIterSwitch further iterations it is replaced by verifMapIterNext (so that two\n"
                    "// iterations inside one call of the code under test can be given different orders).\n"
                    "// Build-overlay seam of the go-mail verification harness; -1 keeps the normal behaviour.\n"
                    "//\n//go:linkname verifMapIterFixed\nvar verifMapIterFixed int = -1\n"
                    "\n//go:linkname verifMapIterSwitch\nvar verifMapIterSwitch int\n"
                    "\n//go:linkname verifMapIterNext\nvar verifMapIterNext int\n")
            dst = os.path.join(ov, "runtime_map.go.txt")
            open(dst, "w").write(src)
            replace[mp] = dst
            seam = True
    # the harness learns whether the seam exists through a generated file of package mapseam
    seamfile = os.path.join(ov, "seam_enabled.go.txt")
    harness = os.path.normpath(os.path.join(here, "..", "harness"))
    if seam:
        open(seamfile, "w").write('package mapseam\n\nimport _ "unsafe"\n\n//go:linkname fixed runtime.verifMapIterFixed\nvar fixed int\n\n//go:linkname switchAfter runtime.verifMapIterSwitch\nvar switchAfter int\n\n//go:linkname next runtime.verifMapIterNext\nvar next int\n\n// Enabled reports whether the runtime seam is compiled in.\nconst Enabled = true\n\nfunc set(k int) { fixed, switchAfter = k, 0 }\n\nfunc setSwitch(k1, n, k2 int) { fixed, switchAfter, next = k1, n, k2 }\n')
    else:
        open(seamfile, "w").write('package mapseam\n\n// Enabled reports whether the runtime seam is compiled in.\nconst Enabled = false\n\nfunc set(k int) {}\n\nfunc setSwitch(k1, n, k2 int) {}\n')
    replace[os.path.join(harness, "mapseam", "seam_gen.go")] = seamfile
    for e in extras:
        replace.update(json.load(open(e)).get("Replace", {}))
    with open(os.path.join(work, "overlay.json"), "w") as fh:
        json.dump({"Replace": replace}, fh, indent=1)
    print(f"overlay: {n} sync-importing file(s) rewritten, map seam {'on' if seam else 'OFF'}", file=sys.stderr)

if __name__ == "__main__":
    main()
