#!/bin/bash
# Evaluates a seeded property-breaking change: tools/eval_seed.sh <ID> <dir-with-patch.diff-and-demo> [checks...]
# Confirms (in /repo's working tree, reverted afterwards): applies, builds, own test suite passes, demo fails
# with / passes without the change; then runs the given checks (default: the property's own) and reports.
set -u
ID=$1; SRC=$2; shift 2; CHECKS=${*:-$ID}
V=/verif; R=/repo
export GOFLAGS=-mod=mod GOPROXY=off GOSUMDB=off GOTOOLCHAIN=local
# evidence / replay files of runs on a deliberately broken tree go to scratch, not to the committed directories
export VERIF_OUT_DIR=$V/.work/seed-out; mkdir -p $VERIF_OUT_DIR
[ -n "$(git -C $R status --porcelain)" ] && { echo "/repo not clean"; exit 2; }
demo=$(ls $SRC/demo*_test.go | head -1); dname=$(basename $demo)
ddir=$R; grep -q "^package smtp" $demo && ddir=$R/smtp
tname=$(grep -o "^func Test[A-Za-z0-9_]*" $demo | head -1 | sed 's/func //')
run_demo() { (cd $ddir && flock /tmp/gomail-test.lock go test -vet=off -count=1 -run "^${tname}\$" . 2>&1 | tail -3); }
cp $demo $ddir/zz_$dname
echo "== demo on the unchanged tree"; d0=$(run_demo); echo "$d0" | tail -1
git -C $R apply $SRC/patch.diff || { rm -f $ddir/zz_$dname; echo "patch does not apply"; exit 2; }
echo "== build"; (cd $R && go build ./...) && echo ok
echo "== demo with the change"; d1=$(run_demo); echo "$d1" | tail -1
rm -f $ddir/zz_$dname
[ -z "${SKIP_BASELINE:-}" ] && { echo "== own test suite with the change"; $V/tools/baseline.sh | head -3; }
for c in $CHECKS; do
  echo "== check $c quick"; o=$($V/run $c quick 2>&1); rc=$?
  echo "$o" | grep "detail: key=" | cut -c1-260 | head -4; echo "exit=$rc"
done
git -C $R checkout -- . ; git -C $R clean -fdq
