#!/bin/bash
# Runs go-mail's own test suite on a tree (default /repo) and compares with the pinned stable_pass list.
# usage: tools/baseline.sh [repo-dir]   → exit 0 iff every stable_pass test passed
REPO="${1:-/repo}"
export GOFLAGS=-mod=mod GOPROXY=off GOSUMDB=off GOTOOLCHAIN=local
OUT=$(mktemp /tmp/baseline.XXXXXX.json)
# go-mail's tests bind fixed loopback ports: serialise concurrent suite runs on this machine
(flock 9; cd "$REPO" && go test -json -vet=off -count=1 -timeout 25m ./... > "$OUT" 2>/dev/null) 9>/tmp/gomail-test.lock
python3 - "$OUT" <<'PY'
import json,sys
passed,failed=set(),set()
for line in open(sys.argv[1],errors='replace'):
    line=line.strip()
    if not line.startswith('{'): continue
    try: ev=json.loads(line)
    except Exception: continue
    a=ev.get('Action'); t=ev.get('Test'); p=ev.get('Package','')
    if t is None or a not in ('pass','fail'): continue
    (passed if a=='pass' else failed).add(p+'::'+t)
passed-=failed
base=set(json.load(open('/root/.vp/BASELINE.json'))['stable_pass'])
missing=sorted(base-passed)
print(f"baseline: {len(base&passed)}/{len(base)} stable tests pass; {len(missing)} missing/failing")
for m in missing[:40]: print("  FAIL", m)
sys.exit(1 if missing else 0)
PY
rc=$?
rm -f "$OUT"
exit $rc
